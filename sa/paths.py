"""Path enumeration over structured statement lists (if / assign / return / break / continue), with the facts that hold on each
path (atoms of pairing.alts_of) and single-assignment locals expanded.  Loops are either outside the template (the caller gets
None) or, when `opaque_loops` is set, handed to the probe as one opaque statement and assumed to fall through."""
import ast
import re

from .core import norm


def expand(text, defs, depth=4):
    for _ in range(depth):
        before = text
        for k in sorted(defs, key=len, reverse=True):
            text = re.sub(r"(?<![\w.])%s(?![\w])" % re.escape(k), defs[k], text)
        if text == before:
            break
    return text


_ABSURD = {"truthy(None)", "truthy(False)", "falsy(True)", "isnot(None,None)", "truthy(())", "truthy([])", "truthy(0)", "truthy('')"}


_CLS = re.compile(r"^(is|isnot|eq|ne)\(([A-Z]\w*|None),([A-Z]\w*|None)\)$")


def _absurd(a):
    a = a.replace("(None)", "None").replace("(False)", "False").replace("(True)", "True")
    if a in _ABSURD:
        return True
    # two different class names (or a class name and None) are different objects; a name is itself
    m = _CLS.match(a)
    if m:
        same = m.group(2) == m.group(3)
        return (not same) if m.group(1) in ("is", "eq") else same
    return False


def stmt_paths(stmts, facts, defs, flag, probe=None, opaque_loops=False):
    """enumerate the paths through a loop-free statement list: yields (outcome, facts, defs) with outcome one of
    'fall', 'reject' (the flag was cleared), ('return', expr), 'break', 'continue'; None when a statement is outside the template"""
    from .pairing import alts_of
    if not stmts:
        yield ("fall", facts, defs)
        return
    st, rest = stmts[0], stmts[1:]

    def cont(fa, df):
        for r in stmt_paths(rest, fa, df, flag, probe, opaque_loops):
            yield r
    if isinstance(st, ast.Assign) and len(st.targets) == 1 and isinstance(st.targets[0], ast.Name):
        nm = st.targets[0].id
        if flag is not None and nm == flag and isinstance(st.value, ast.Constant) and st.value.value is False:
            yield ("reject", facts, defs)
            return
        if probe is not None:
            probe(st, facts, defs)
        df = dict(defs)
        df[nm] = "(%s)" % expand(norm(st.value), defs) if not isinstance(st.value, (ast.Name, ast.Attribute, ast.Subscript)) else expand(norm(st.value), defs)
        for r in cont(facts, df):
            yield r
    elif isinstance(st, ast.Assign) and len(st.targets) == 1 and isinstance(st.targets[0], ast.Tuple) and isinstance(st.value, ast.Tuple) \
            and len(st.targets[0].elts) == len(st.value.elts) and all(isinstance(t, ast.Name) for t in st.targets[0].elts) \
            and not ({t.id for t in st.targets[0].elts} & {x.id for x in ast.walk(st.value) if isinstance(x, ast.Name)}):
        # a, b = x, y with x, y not reading a or b: two plain definitions
        df = dict(defs)
        for t, v in zip(st.targets[0].elts, st.value.elts):
            df[t.id] = "(%s)" % expand(norm(v), defs) if not isinstance(v, (ast.Name, ast.Attribute, ast.Subscript)) else expand(norm(v), defs)
        for r in cont(facts, df):
            yield r
    elif isinstance(st, ast.If):
        for pol, blk in ((True, st.body), (False, st.orelse)):
            for alt in alts_of(st.test, pol):
                new = frozenset(expand(a, defs) for a in alt)
                if any(_absurd(a) for a in new):
                    continue  # e.g. `if port:` on a path where port was just set to None
                fa = facts | new
                for (oc, f2, d2) in stmt_paths(blk, fa, defs, flag, probe, opaque_loops):
                    if oc is None:
                        yield (None, f2, d2)
                    elif oc == "fall":
                        for r in cont(f2, d2):
                            yield r
                    else:
                        yield (oc, f2, d2)
    elif isinstance(st, (ast.Assign, ast.AugAssign, ast.AnnAssign, ast.Delete)):
        # a store to an attribute / subscript / tuple: no local is (re)defined in a way the facts depend on, except that locals
        # bound by a tuple target are no longer what `defs` says
        df = dict(defs)
        for t in ast.walk(st):
            if isinstance(t, ast.Name) and isinstance(t.ctx, (ast.Store, ast.Del)):
                df.pop(t.id, None)
        if probe is not None and not opaque_loops:
            probe(st, facts, defs)
        for r in cont(facts, df):
            yield r
    elif isinstance(st, ast.Raise):
        yield ("raise", facts, defs)
    elif isinstance(st, ast.Assert):
        for alt in alts_of(st.test, True):
            for r in cont(facts | frozenset(expand(a, defs) for a in alt), defs):
                yield r
        yield ("raise", facts, defs)
    elif isinstance(st, ast.Return):
        yield (("return", st.value), facts, defs)
    elif isinstance(st, ast.Break):
        yield ("break", facts, defs)
    elif isinstance(st, ast.Continue):
        yield ("continue", facts, defs)
    elif isinstance(st, (ast.Expr, ast.Pass)):
        if probe is not None:
            probe(st, facts, defs)
        for r in cont(facts, defs):
            yield r
    elif isinstance(st, ast.Try) and not st.finalbody:
        # the protected block runs to its end (then the else clause), or is left for a handler at some point: the handler starts from
        # what held before the block, minus what the block may have rebound
        for (oc, f2, d2) in stmt_paths(st.body + st.orelse, facts, defs, flag, probe, opaque_loops):
            if oc is None:
                yield (None, f2, d2)
            elif oc == "fall":
                for r in cont(f2, d2):
                    yield r
            else:
                yield (oc, f2, d2)
        stored = {t.id for s_ in st.body for t in ast.walk(s_) if isinstance(t, ast.Name) and isinstance(t.ctx, (ast.Store, ast.Del))}
        dh = {k: v for k, v in defs.items() if k not in stored}
        for h in st.handlers:
            for (oc, f2, d2) in stmt_paths(h.body, facts, dh, flag, probe, opaque_loops):
                if oc is None:
                    yield (None, f2, d2)
                elif oc == "fall":
                    for r in cont(f2, d2):
                        yield r
                else:
                    yield (oc, f2, d2)
    elif opaque_loops and isinstance(st, (ast.For, ast.While)):
        if probe is not None:
            probe(st, facts, defs)
        for r in cont(facts, defs):
            yield r
    else:
        yield (None, facts, defs)


