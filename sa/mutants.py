"""Mutant catalogue driver (filled in per property; see DESIGN §8)."""
import ast
import time

from .core import Program, AnalysisError, REPO

CATALOGUE = {}  # prop -> list of Mutant


class Mutant:
    """edit: (relpath, old text, new text[, count]) applied to the current source;
    expect: substring of a finding key that must be reported (mutant) or None (benign twin)."""

    def __init__(self, name, edits, expect=None, rule=None):
        self.name = name
        self.edits = edits if isinstance(edits, list) else [edits]
        self.expect = expect
        self.rule = rule


def add(prop, *ms):
    CATALOGUE.setdefault(prop, []).extend(ms)


def build_overlay(m):
    import os
    ov = {}
    for e in m.edits:
        rel, old, new = e[0], e[1], e[2]
        src = ov.get(rel)
        if src is None:
            with open(os.path.join(REPO, rel), encoding="utf-8") as fh:
                src = fh.read()
        if old not in src:
            return None
        src = src.replace(old, new) if (len(e) > 3 and e[3] == 0) else src.replace(old, new, 1)
        try:
            compile(src, rel, "exec")
        except SyntaxError as ex:
            raise AnalysisError("self-test mutant %s is not valid Python: %s" % (m.name, ex))
        ov[rel] = src
    return ov


def _one(args):
    prop, idx, base_keys = args
    from .check import run_property
    m = CATALOGUE[prop][idx]
    ov = build_overlay(m)
    if ov is None:
        return (idx, "skipped", [], None)
    try:
        rc, run_ = run_property(prop, tier="quick", program=Program(overlay=ov), write=False, quiet=True)
        new = sorted({f.full_key for f in run_.findings} - set(base_keys))
        err = None
    except AnalysisError as ex:
        new, err = [], str(ex)
    except Exception as ex:  # a crash of the analysis on a mutant is a checker defect
        new, err = [], "internal error: %r" % (ex,)
    return (idx, "ran", new, err)


def run(prop, seed=0, jobs=None):
    import multiprocessing
    import os
    from .check import run_property
    from .rules import load_all
    load_all()
    t0 = time.time()
    out = {"mutants": 0, "caught": 0, "twins": 0, "silent": 0, "skipped": [], "failed": [], "cases": []}
    cat = CATALOGUE.get(prop, [])
    if not cat:
        out["wall_s"] = 0.0
        return out
    base_rc, base_run = run_property(prop, tier="quick", write=False, quiet=True)
    base_keys = sorted({f.full_key for f in base_run.findings})
    jobs = jobs or min(16, os.cpu_count() or 4, len(cat))
    ctx = multiprocessing.get_context("fork")
    with ctx.Pool(jobs) as pool:
        results = pool.map(_one, [(prop, i, base_keys) for i in range(len(cat))], chunksize=1)
    for idx, status, new, err in results:
        m = cat[idx]
        if status == "skipped":
            out["skipped"].append(m.name)
            continue
        if m.expect is None:
            out["twins"] += 1
            if new or err:
                out["failed"].append({"twin": m.name, "reported": new[:3], "error": err})
            else:
                out["silent"] += 1
        else:
            out["mutants"] += 1
            hit = [k for k in new if m.expect in k]
            if hit:
                out["caught"] += 1
            else:
                out["failed"].append({"mutant": m.name, "expected": m.expect, "reported": new[:3], "error": err})
        out["cases"].append({"name": m.name, "kind": "twin" if m.expect is None else "mutant", "new_findings": new[:3], "error": err})
    out["wall_s"] = round(time.time() - t0, 2)
    return out


if __name__ == "__main__":
    import json
    import os
    import sys
    sys.path.insert(0, os.path.dirname(os.path.dirname(os.path.abspath(__file__))))
    from sa.rules import load_all
    load_all()
    from sa import mutants as _m
    for prop in sys.argv[1:] or sorted(_m.CATALOGUE):
        r = _m.run(prop)
        print(prop, "mutants %d caught %d | twins %d silent %d | skipped %s | %.1fs" % (r["mutants"], r["caught"], r["twins"], r["silent"], r["skipped"], r["wall_s"]))
        for f in r["failed"]:
            print("   FAILED", json.dumps(f)[:600])
