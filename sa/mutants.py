"""Mutant catalogue driver (filled in per property; see DESIGN §8)."""
import ast
import time

from .core import Program, AnalysisError, REPO

CATALOGUE = {}  # prop -> list of Mutant


class Mutant:
    """edit: (relpath, old text, new text[, count]) applied to the current source;
    expect: substring of a finding key that must be reported (mutant) or None (benign twin)."""

    def __init__(self, name, edits, expect=None, rule=None):
        self.name = name
        self.edits = edits if isinstance(edits, list) else [edits]
        self.expect = expect
        self.rule = rule


def add(prop, *ms):
    CATALOGUE.setdefault(prop, []).extend(ms)


def build_overlay(m):
    import os
    ov = {}
    for e in m.edits:
        rel, old, new = e[0], e[1], e[2]
        src = ov.get(rel)
        if src is None:
            with open(os.path.join(REPO, rel), encoding="utf-8") as fh:
                src = fh.read()
        if old not in src:
            return None
        src = src.replace(old, new, 1)
        try:
            compile(src, rel, "exec")
        except SyntaxError as ex:
            raise AnalysisError("self-test mutant %s is not valid Python: %s" % (m.name, ex))
        ov[rel] = src
    return ov


def run(prop, seed=0):
    from .check import run_property
    from .rules import load_all
    load_all()
    t0 = time.time()
    out = {"mutants": 0, "caught": 0, "twins": 0, "silent": 0, "skipped": [], "failed": [], "cases": []}
    base_rc, base_run = run_property(prop, tier="quick", write=False, quiet=True)
    base_keys = {f.full_key for f in base_run.findings}
    for m in CATALOGUE.get(prop, []):
        ov = build_overlay(m)
        if ov is None:
            out["skipped"].append(m.name)
            continue
        try:
            rc, run_ = run_property(prop, tier="quick", program=Program(overlay=ov), write=False, quiet=True)
            new = sorted({f.full_key for f in run_.findings} - base_keys)
            err = None
        except AnalysisError as ex:
            new, err = [], str(ex)
        if m.expect is None:
            out["twins"] += 1
            if new or err:
                out["failed"].append({"twin": m.name, "reported": new[:3], "error": err})
            else:
                out["silent"] += 1
        else:
            out["mutants"] += 1
            hit = [k for k in new if m.expect in k]
            if hit:
                out["caught"] += 1
            else:
                out["failed"].append({"mutant": m.name, "expected": m.expect, "reported": new[:3], "error": err})
        out["cases"].append({"name": m.name, "kind": "twin" if m.expect is None else "mutant", "new_findings": new[:3], "error": err})
    out["wall_s"] = round(time.time() - t0, 2)
    return out
