"""CHECK* -> NOTIFY -> WRITE* typestate of the IR mutators, interprocedural.

For every function of spydrnet/ir (specialised, where a call site fixes some parameters
to None, by pruning `if p is not None:` branches) one forward dataflow computes

  dirty      may-set of shared-state writes already performed
  pending    may-set of event kinds dispatched whose announced effect has not happened yet
  maynot     may-set of event kinds dispatched so far
  must       must-set of event kinds dispatched on every path

and from them
  R1   a refusal point (own assert/raise, a refusable notification, a callee that can
       dispatch a refusable notification) reached with dirty != {}
  E2   an own assert/raise reached with pending != {}  (announced, then refused)
  E3   a write to a relation field with no announcing kind in `must`
       ("unannounced"; propagated to callers, which may have announced it, and reported
       at public entry points only)
plus the summaries callers need (writes, notifies, must-notifies, unannounced, pending).
"""
import ast

from .core import AnalysisError, norm, short, walk_local
from .cfg import forward, Branch
from .effects import root_and_depth
from .kinds import RELATIONS, OUTERPIN_KINDS, TOP_KINDS, DATA_KINDS, FIELD_TYPES

ANNOUNCERS = {}
REMOVE_KINDS = {}
for r in RELATIONS:
    ANNOUNCERS[(r.ccls, r.cfield)] = set(r.kinds)
    ANNOUNCERS.setdefault((r.ecls, r.efield), set()).update(r.kinds)
    REMOVE_KINDS[(r.ccls, r.cfield)] = set(r.rem_kinds)
for f in (("Instance", "_pins"), ("OuterPin", "_instance"), ("OuterPin", "_inner_pin")):
    ANNOUNCERS[f] = set(OUTERPIN_KINDS)
ANNOUNCERS[("Pin", "_wire")] = {"wire_connect_pin", "wire_disconnect_pin"}
ANNOUNCERS[("Netlist", "_top_instance")] = set(TOP_KINDS)
ANNOUNCERS[("FirstClassElement", "_data")] = set(DATA_KINDS)
ANNOUNCERS[("Definition", "_references")] = {"instance_reference"}
ANNOUNCERS[("Instance", "_reference")] = {"instance_reference"}
# Instance._is_top_instance is a derived flag with no announcement of its own: not in the table.

# pointer fields that lead out of the object being cloned (cross / back pointers)
CROSS_POINTERS = {"_reference", "_wire", "_inner_pin", "_instance", "_parent", "_library", "_netlist",
                  "_definition", "_cable", "_port", "reference", "wire", "inner_pin", "instance", "parent",
                  "library", "netlist", "definition", "cable", "port"}


def is_clone_family(func):
    return func.name.startswith("_clone") or func.name == "clone"


class FSum:
    """summary of one (function, none-params) instance"""

    def __init__(self):
        self.writes = frozenset()       # (rootspec, cls, field, op)
        self.notifies = frozenset()     # kinds (may)
        self.must = frozenset()         # kinds notified on every normal path
        self.unannounced = frozenset()  # (rootspec, cls, field, op, origin key, origin text, origin loc, why)
        self.pending = frozenset()      # kinds announced whose effect may not have happened at exit
        self.r1 = []
        self.e2 = []
        self.e5 = []

    def sig(self):
        return (self.writes, self.notifies, self.must, self.unannounced, self.pending)


def _prune(fe, nones):
    """edge filter that drops the infeasible side of `if p is not None` / `if p is None` / `if p`
    for parameters known to be None (and never reassigned)"""
    if not nones:
        return None
    assigned = set()
    for n in ast.walk(fe.func.node):
        if isinstance(n, ast.Name) and isinstance(n.ctx, ast.Store):
            assigned.add(n.id)
    nones = {p for p in nones if p not in assigned}
    if not nones:
        return None

    def truth(test):
        if isinstance(test, ast.Name) and test.id in nones:
            return False
        if isinstance(test, ast.UnaryOp) and isinstance(test.op, ast.Not):
            t = truth(test.operand)
            return None if t is None else (not t)
        if isinstance(test, ast.Compare) and len(test.ops) == 1:
            l, r = test.left, test.comparators[0]
            for a, b in ((l, r), (r, l)):
                if isinstance(a, ast.Name) and a.id in nones and isinstance(b, ast.Constant) and b.value is None:
                    if isinstance(test.ops[0], (ast.Is, ast.Eq)):
                        return True
                    if isinstance(test.ops[0], (ast.IsNot, ast.NotEq)):
                        return False
        if isinstance(test, ast.BoolOp):
            vals = [truth(v) for v in test.values]
            if isinstance(test.op, ast.And):
                if any(v is False for v in vals):
                    return False
                if all(v is True for v in vals):
                    return True
            else:
                if any(v is True for v in vals):
                    return True
                if all(v is False for v in vals):
                    return False
        return None

    def follow(n, s, lab):
        if n.kind == "test" and lab in ("true", "false"):
            t = truth(n.ast.test)
            if t is True and lab == "false":
                return False
            if t is False and lab == "true":
                return False
        return True

    return follow


def classify_set(func_node, ev):
    """what an assignment `X._f = value` to a container field does:
    filter   value is the old container filtered (comprehension over X._f with a condition, or a
             local list that only receives elements of X._f inside a loop over X._f)
    permute  value is list(<parameter>) / the parameter itself (reorder setters)
    reset    value is an empty container
    remap    value is a local list built by appending memo[...]/clones inside a loop (clone family)
    assign   anything else"""
    v = ev.value
    if v is None:
        return "assign"
    field = ev.field
    recv = norm(ev.recv)

    def over_same_field(it):
        t = norm(it)
        return t == "%s.%s" % (recv, field) or t == "%s.%s" % (recv, field.lstrip("_"))

    def filt(e):
        if isinstance(e, ast.Call) and norm(e.func) in ("list", "set", "tuple") and len(e.args) == 1:
            e = e.args[0]
        if isinstance(e, (ast.GeneratorExp, ast.ListComp, ast.SetComp)) and len(e.generators) == 1:
            g = e.generators[0]
            if over_same_field(g.iter) and g.ifs and norm(e.elt) == norm(g.target):
                return True
        return False

    if filt(v):
        return "filter"
    if isinstance(v, (ast.List, ast.Tuple, ast.Set)) and not v.elts:
        return "reset"
    if isinstance(v, ast.Call) and norm(v.func) in ("set", "list", "OrderedDict", "dict") and not v.args:
        return "reset"
    if isinstance(v, ast.Name):
        params = [a.arg for a in func_node.args.args]
        defs = [n for n in walk_local(func_node) if isinstance(n, ast.Assign) and any(isinstance(t, ast.Name) and t.id == v.id for t in n.targets)]
        if v.id in params and not defs:
            return "permute"
        if len(defs) == 1:
            d = defs[0].value
            if isinstance(d, ast.Call) and norm(d.func) == "list" and len(d.args) == 1 and isinstance(d.args[0], ast.Name) \
                    and d.args[0].id in params:
                return "permute"
            if filt(d):
                return "filter"
            empty = (isinstance(d, ast.List) and not d.elts) or (isinstance(d, ast.Call) and norm(d.func) in ("list", "set", "OrderedDict") and not d.args)
            if empty:
                # every growth of the local happens inside a loop over the same field, adding the loop variable
                grows = [n for n in walk_local(func_node) if isinstance(n, ast.Call) and isinstance(n.func, ast.Attribute)
                         and isinstance(n.func.value, ast.Name) and n.func.value.id == v.id and n.func.attr in ("append", "add", "insert", "extend")]
                subs = [n for n in walk_local(func_node) if isinstance(n, ast.Subscript) and isinstance(n.ctx, ast.Store)
                        and isinstance(n.value, ast.Name) and n.value.id == v.id]
                ok = bool(grows) and not subs
                for g in grows:
                    loop = None
                    p = getattr(g, "_parent", None)
                    while p is not None and p is not func_node:
                        if isinstance(p, ast.For):
                            loop = p
                            break
                        p = getattr(p, "_parent", None)
                    if loop is None or not over_same_field(loop.iter) or g.func.attr != "append" \
                            or norm(g.args[0]) != norm(loop.target):
                        ok = False
                if ok:
                    return "filter"
                if grows or subs:
                    return "remap"
    return "assign"


class TypeState:
    def __init__(self, M):
        self.M = M
        self.P = M.P
        self.table = {}  # (func key, nones) -> FSum
        self.funcs = {f.key: f for f in M.ir_funcs()}
        # a private module-level function of spydrnet/ir is code of the methods that call it (see pairing.Pairing): analysed spliced in
        modfuns = {f.name for f in self.funcs.values() if f.cls is None and f.name.startswith("_") and not f.name.startswith("__")}
        from .inline import inlined_view, calls_iterating_helper
        for k, f in list(self.funcs.items()):
            if calls_iterating_helper(self.P, f):
                self.funcs[k] = inlined_view(self.P, f)
        if modfuns:
            from .inline import inlined_view
            from .core import walk_local
            for k, f in list(self.funcs.items()):
                if f.cls is not None and any(isinstance(c, ast.Call) and isinstance(c.func, ast.Name) and c.func.id in modfuns for c in walk_local(f.node)):
                    self.funcs[k] = inlined_view(self.P, f)
        self._run()

    def get(self, func, nones=frozenset()):
        k = (func.key, nones)
        s = self.table.get(k)
        if s is None:
            if func.key not in self.funcs:
                return None
            s = self.table[k] = FSum()
            self._changed = True
        return s

    def _run(self):
        for f in self.funcs.values():
            self.get(f)
        rounds = 0
        while True:
            rounds += 1
            if rounds > 40:
                raise AnalysisError("typestate summaries did not converge")
            self._changed = False
            for (fkey, nones) in list(self.table):
                s = self.table[(fkey, nones)]
                before = s.sig()
                self._analyse(self.funcs[fkey], nones, s)
                if s.sig() != before:
                    self._changed = True
            if not self._changed:
                break
        # `unannounced` is not monotone in the other components (a write unannounced while a callee's
        # must-set was still empty stays in a recursive cycle): recompute it from empty sets now that
        # writes / notifies / must are final.
        for s in self.table.values():
            s.unannounced = frozenset()
        while True:
            rounds += 1
            if rounds > 80:
                raise AnalysisError("typestate summaries did not converge")
            changed = False
            for (fkey, nones) in list(self.table):
                s = self.table[(fkey, nones)]
                before = s.sig()
                self._analyse(self.funcs[fkey], nones, s)
                if s.sig() != before:
                    changed = True
            if not changed:
                break
        self.rounds = rounds

    # ---------------------------------------------------------------------------------------
    def _analyse(self, func, nones, out):
        M = self.M
        fe = M.events(func)
        params = func.params
        is_init = func.name == "__init__"
        clone_fam = is_clone_family(func)
        follow = _prune(fe, nones)
        # parameters that are None in this specialisation and never reassigned: handed on, they are None in the callee too
        assigned_ = {n_.id for n_ in ast.walk(func.node) if isinstance(n_, ast.Name) and isinstance(n_.ctx, ast.Store)}
        still_none = frozenset(p for p in nones if p not in assigned_)
        refusable = M.refusable
        r1, e2, unann, e5 = [], [], set(), []
        all_writes, all_not = set(), set()

        def spec_of(ev):
            root, depth = root_and_depth(ev.recv)
            return M.rootspec(fe, params, root, depth, is_init)

        def crosses_pointer(e):
            """receiver path goes through a cross / back pointer (leaves the cloned object)"""
            while isinstance(e, (ast.Attribute, ast.Subscript, ast.Call)):
                if isinstance(e, ast.Attribute):
                    if e.attr in CROSS_POINTERS:
                        return True
                    e = e.value
                elif isinstance(e, ast.Subscript):
                    e = e.value
                else:
                    e = e.func
            return False

        # local names bound to one another by plain `a = b` assignments denote (at some point) the same object
        alias = {}
        for n_ in walk_local(func.node):
            if isinstance(n_, ast.Assign) and len(n_.targets) == 1 and isinstance(n_.targets[0], ast.Name) and isinstance(n_.value, ast.Name):
                a_, b_ = n_.targets[0].id, n_.value.id
                grp = alias.get(a_, {a_}) | alias.get(b_, {b_})
                for x_ in grp:
                    alias[x_] = grp

        # what each local is computed from (transitively through plain local assignments): `outer_pin = instance.pins[inner_pin]` with
        # `instance = pin.instance` is derived from `pin`
        uses = {}
        for n_ in walk_local(func.node):
            if isinstance(n_, ast.Assign) and len(n_.targets) == 1 and isinstance(n_.targets[0], ast.Name):
                uses.setdefault(n_.targets[0].id, set()).update(y_.id for y_ in ast.walk(n_.value) if isinstance(y_, ast.Name))

        def mentions_closure(e):
            seen_ = set()
            todo_ = [y_.id for y_ in ast.walk(e) if isinstance(y_, ast.Name)]
            while todo_:
                v_ = todo_.pop()
                if v_ in seen_:
                    continue
                seen_.add(v_)
                todo_.extend(uses.get(v_, ()))
            return seen_

        def elem_of(ev):
            """text of the element a relation write concerns (added / removed element, owner of the back-pointer, new top)"""
            if ev.field in ("_libraries", "_definitions", "_ports", "_cables", "_children", "_wires") or (ev.cls == "Wire" and ev.field == "_pins"):
                return norm(ev.elem) if ev.elem is not None and ev.op in ("append", "insert", "remove", "add", "discard") else None
            if ev.field in ("_netlist", "_library", "_definition", "_parent", "_port", "_cable", "_wire"):
                return norm(ev.recv)
            if ev.field == "_top_instance":
                return norm(ev.value) if ev.value is not None else None
            return None

        def step(n, st, record):
            dirty, pend, maynot, must, margs = st
            for ev in fe.by_node[n.id]:
                if ev.kind == "check":
                    if record:
                        if dirty:
                            r1.append((ev, sorted(dirty, key=str), "own %s" % ev.how))
                        if pend:
                            e2.append((ev, sorted(pend)))
                elif ev.kind == "notify":
                    if ev.event in refusable and dirty and record:
                        r1.append((ev, sorted(dirty, key=str), "refusable notification %s" % ev.event))
                    all_not.add(ev.event)
                    maynot = maynot | {ev.event}
                    if not ev.event.startswith("create_"):
                        pend = pend | {ev.event}
                    must = must | {ev.event}
                    margs = margs | {(ev.event, tuple(norm(a) for a in ev.args))}
                elif ev.kind == "write":
                    sp = spec_of(ev)
                    all_writes.add((sp, ev.cls, ev.field, ev.op))
                    ann = ANNOUNCERS.get((ev.cls, ev.field))
                    if ann:
                        pend = pend - ann
                    if sp != "fresh":
                        dirty = dirty | {(ev.cls, ev.field, ev.op, short(ev.stmt, 70))}
                        if record and ann and not clone_fam:
                            el = elem_of(ev)
                            here = [(k, a) for (k, a) in margs if k in ann]
                            if el is not None and here and not any(x_ in a for (k, a) in here for x_ in alias.get(el, {el})):
                                e5.append((ev, el, sorted(here)))
                        if record:
                            why = None
                            if ev.cls is None and ev.field in ("_pins",):
                                why = "receiver kind unknown"
                            elif ann is not None:
                                if clone_fam:
                                    # clone-internal writes (objects the clone created) belong to C07;
                                    # what matters here are writes that leave the clone through a pointer
                                    if crosses_pointer(ev.recv):
                                        why = "clone bookkeeping on an object reached through a cross pointer"
                                elif ev.op == "set" and ev.field in ("_libraries", "_definitions", "_ports", "_cables", "_children", "_pins", "_wires") \
                                        and FIELD_TYPES.get((ev.cls, ev.field), ("",))[0] == "list":
                                    c = classify_set(func.node, ev)
                                    if c == "filter":
                                        if not (REMOVE_KINDS.get((ev.cls, ev.field), set()) & maynot):
                                            why = "container rebuilt by a filter with no removal announced on any path"
                                    elif c == "permute":
                                        why = "reorder: no event kind announces a permutation"
                                    elif not (ann & must):
                                        why = "container assigned with no announcement"
                                elif not (ann & must):
                                    why = "no announcing event dispatched on every path before the write"
                            if why:
                                unann.add((sp, ev.cls, ev.field, ev.op, func.key, short(ev.stmt, 90), func.loc(ev.stmt), why))
                elif ev.kind == "call":
                    for t in ev.targets or []:
                        cs = self.get(t, M.none_params(ev, t, still_none)) if t.key in self.funcs else None
                        if cs is None:
                            continue
                        amap = M.argmap(ev, t)
                        ref = cs.notifies & refusable
                        if ref and dirty and record:
                            r1.append((ev, sorted(dirty, key=str), "call to %s, which can dispatch %s" % (t.qualname, ",".join(sorted(ref)))))
                        for (sp, cls, field, op) in cs.writes:
                            sp2 = M.map_spec(fe, params, sp, amap, ev, is_init)
                            all_writes.add((sp2, cls, field, op))
                            if sp2 != "fresh":
                                dirty = dirty | {(cls, field, op, "via " + t.qualname)}
                        for (sp, cls, field, op, okey, otext, oloc, why) in cs.unannounced:
                            sp2 = M.map_spec(fe, params, sp, amap, ev, is_init)
                            if sp2 == "fresh":
                                continue
                            ann = ANNOUNCERS.get((cls, field), set())
                            if ann & must and not why.startswith(("reorder", "clone")):
                                continue
                            if record:
                                unann.add((sp2, cls, field, op, okey, otext, oloc, why))
                        all_not.update(cs.notifies)
                        maynot = maynot | cs.notifies
                        pend = pend | cs.pending
                        must = must | cs.must
            # a local re-bound to a different object (`instance = top`, `x = Instance()`) no longer is what an earlier announcement named
            a_ = n.ast
            if n.kind == "stmt" and isinstance(a_, ast.Assign) and len(a_.targets) == 1 and isinstance(a_.targets[0], ast.Name) and margs:
                x_ = a_.targets[0].id
                derived = x_ in mentions_closure(a_.value)
                if not derived and any(x_ in args_ for (_k, args_) in margs):
                    margs = frozenset((k_, tuple(("old:" + t_) if t_ == x_ else t_ for t_ in args_)) for (k_, args_) in margs)
            return (dirty, pend, maynot, must, margs)

        def join(a, b):
            # announced arguments hold on all paths (intersection); a tuple in which a name was re-bound on one path stays, as the
            # record that on some path the announcement named another object
            stale = frozenset(t_ for t_ in (a[4] | b[4]) if any(x_.startswith("old:") for x_ in t_[1]))
            return (a[0] | b[0], a[1] | b[1], a[2] | b[2], a[3] & b[3], (a[4] & b[4]) | stale)

        init = (frozenset(), frozenset(), frozenset(), frozenset(), frozenset())
        state = forward(fe.cfg, init, lambda n, st: step(n, st, False), join, follow=follow)
        for n in fe.cfg.nodes:
            if n.id in state:
                step(n, state[n.id], True)
        ex = state.get(fe.cfg.exit.id)
        out.must = ex[3] if ex is not None else frozenset()
        out.pending = ex[1] if ex is not None else frozenset()
        out.writes = frozenset(all_writes)
        out.notifies = frozenset(all_not)
        out.unannounced = frozenset(unann)
        out.r1 = r1
        out.e2 = e2
        out.e5 = e5


def is_public_entry(func):
    """functions a user can call: no leading underscore (setters, deleters, __setitem__,
    __delitem__ included); __init__ is reached through the constructor"""
    n = func.name
    if n in ("__setitem__", "__delitem__", "__init__"):
        return True
    return not n.startswith("_")
