"""Rule self-test (thorough tier): in-memory source mutants of the *current* tree that break
exactly one rule instance (the rule must report it) and benign twins (the rule must stay
silent).  Nothing is written to disk, nothing is executed; compile() only confirms a mutant is
valid Python.  Catalogue entries live next to the rules (MUTANTS in each rule module)."""
import os


def run_for(prop, seed=0):
    from sa import mutants
    return mutants.run(prop, seed=seed)
