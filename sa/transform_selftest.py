#!/venv/bin/python
"""Self-test of the loader's own rewrites (sa/normalise.py, sa/unroll.py): each rewrite claims to preserve meaning, so small synthetic
functions are compiled before and after the rewrite and must return the same results (and raise the same exceptions) on a grid of
inputs.  Nothing of spydrnet is imported or run — this exercises the checker's machinery, not the code under analysis.

Run by sa/selfcheck.py; a failing case stops the setup step."""
import ast
import itertools
import os
import sys

HERE = os.path.dirname(os.path.abspath(__file__))
sys.path.insert(0, os.path.dirname(HERE))

CASES = r'''
TABLE = ((int, "i", 1), (str, "s", 2), (float, "f", 3))
NESTED = ((int, (("a", 1), ("b", 2))), (str, (("c", 3),)))
NAMES = {"x": 10, "y": 20}
PICK = {False: (lambda v: v + 1), True: (lambda v: v * 2)}

class Box:
    def __init__(self, v):
        self.left = v
        self.right = v * 2

def search_break_carry(x):
    for kind, tag, n in TABLE:
        if isinstance(x, kind):
            break
    else:
        return "none"
    if n == 2:
        return tag + "!"
    return tag * n

def continue_rows(x, log):
    for kind, tag, n in TABLE:
        if not isinstance(x, kind):
            continue
        log.append(tag)
        if n > 1:
            continue
        log.append("one")
    return log

def nested_rows(x, key):
    for kind, members in NESTED:
        if isinstance(x, kind):
            for name, n in members:
                if name == key:
                    return n
            return -1
    return None

def break_no_carry(x, log):
    for kind, tag, n in TABLE:
        log.append(tag)
        if isinstance(x, kind):
            log.append("hit")
            break
        log.append("miss")
    else:
        log.append("else")
    log.append("after")
    return log

def last_row_after_loop(log):
    for kind, tag, n in TABLE:
        log.append(n)
    return tag

def reflect(v):
    b = Box(v)
    out = []
    for attr in ("left", "right"):
        out.append(getattr(b, attr))
        setattr(b, attr, 0)
    return out, b.left, b.right

def dict_items(x):
    total = 0
    for name, n in NAMES.items():
        if x == name:
            total += n
    return total

def two_way(flag, v):
    f = PICK[flag is True]
    return f(v)

def two_way_stmt(flag, v):
    out = []
    (out.append if flag else out.extend)([v])
    return out

def starred(x):
    for kind, *how in TABLE:
        if isinstance(x, kind):
            return how
    return None

def ifexp_iter(xs, flag):
    out = []
    for v in xs if flag else ():
        out.append(v)
    return out

def bulk(xs, seen):
    out = [0]
    out.extend(v * 2 for v in xs if v not in seen)
    out += [v for v in xs]
    s = set()
    s.update(v for v in xs)
    d = {}
    d.update((v, v + 1) for v in xs)
    return out, sorted(s), d

def raise_form(x):
    if x is None:
        raise AssertionError("no")
    return x

def _require(cond, msg):
    if not cond:
        raise AssertionError(msg() if callable(msg) else msg)

def require_form(x):
    _require(x != 3, lambda: "three")
    return x

def all_map(xs):
    def ok(v):
        return v > 0
    return all(map(ok, xs)), any(map(ok, xs))

HANDLERS = {"a": ("up", {}), "b": ("scale", {"k": 3})}
ATTRS = {"l": "left", "r": "right"}

class Mach:
    def up(self, k=1):
        return ("up", k)
    def scale(self, k=2):
        return ("scale", k)

def dispatch(tok, log):
    m = Mach()
    for t in (tok, "a"):
        st = HANDLERS.get(t)
        if st is None:
            log.append("skip")
            continue
        name, kw = st
        log.append(getattr(m, name)(**kw))
    return log

def attr_dispatch(side, v):
    b = Box(v)
    name = ATTRS.get(side)
    if name is not None:
        return getattr(b, name)
    return "?"

def prod(xs, ys):
    from itertools import product
    out = []
    for a, b in product(xs, ys):
        out.append((a, b))
    return out

def walrus(d, k):
    out = []
    if (v := d.get(k)) is not None:
        out.append(v)
    elif (w := len(d)) > 1 and not (z := k in out):
        out.append((w, z))
    else:
        out.append("none")
    return out

class Pt:
    def __init__(self, x):
        self.x = x

def matcher(v):
    match v:
        case int() | float():
            return "num"
        case "a" | "b":
            return "ab"
        case None:
            return "none"
        case Pt(x=0):
            return "origin"
        case Pt() if v.x > 5:
            return "far"
        case Box.__name__:
            return "boxname"
        case other:
            return ("other", type(other).__name__)

def matcher_expr(d, k):
    match d.get(k):
        case str():
            return "s"
        case _:
            return "?"

def op_helpers(b, d):
    from operator import attrgetter, itemgetter, methodcaller
    from functools import partial
    import contextlib
    get_left = attrgetter("left")
    first = itemgetter(0)
    up = methodcaller("upper")
    add = partial(max, 3)
    out = [get_left(b), attrgetter("right")(b), first([7, 8]), up("ab"), add(1), add(9)]
    with contextlib.suppress(KeyError):
        out.append(d["k"])
        out.append("after")
    return out

def _checked(fn):
    def wrapper(self, x, *args, **kwargs):
        if x is None:
            raise ValueError("none")
        self.left += 1
        return fn(self, x, *args, **kwargs)
    return wrapper

class Deco:
    def __init__(self):
        self.left = 0

    @_checked
    def add(self, value, extra=0):
        """doc"""
        return (self.left, value + extra)

def use_deco(v, e):
    d = Deco()
    return d.add(v, extra=e), d.add(v)

def match_pair(a, b):
    match (a, b):
        case (None, None):
            return "both none"
        case (None, new):
            return ("first", new)
        case (old, None):
            return ("release", old)
        case (old, new) if old == new:
            return "same"
        case _:
            return ("repoint", a, b)

def chained(rows):
    from itertools import chain
    out = []
    pairs = chain.from_iterable(zip(r, r[1:]) for r in rows if r)
    for a, b in pairs:
        out.append(a + b)
    return out

def partial_bind(k, b):
    if k == 1:
        rule = ("left", 3, 4)
    elif k == 2:
        rule = (b.left, 3, 4)
    else:
        rule = None
    if rule is None:
        return "none"
    a, n, m = rule
    return (getattr(b, a) if isinstance(a, str) else a, n, m)

def field_then_change(b):
    if b.left > 1:
        d = b.left
        b.left = 0
        f = (lambda v: v + 1)
    else:
        d = b.right
        b.right = 0
        f = (lambda v: v - 1)
    return f(d), d, b.left, b.right

def nested_continue(x, y, log):
    for kind, tag, n in TABLE:
        if isinstance(x, kind):
            if y:
                continue
        elif n == 3:
            log.append("three")
        log.append(tag)
    return log

def _bracketed(fn):
    def wrapper(self, *args, **kwargs):
        self.left += 10
        result = fn(self, *args, **kwargs)
        self.left -= 1
        return result
    return wrapper

import contextlib

class Brk:
    def __init__(self):
        self.left = 0
        self.log = []

    @_bracketed
    def run(self, v):
        if v is None:
            return self.left
        if v < 0:
            raise ValueError("neg")
        self.log.append(v)

    @contextlib.contextmanager
    def _flagged(self, tag):
        self.log.append("in " + tag)
        yield
        self.log.append("out " + tag)

    @contextlib.contextmanager
    def _safely(self):
        self.left += 1
        try:
            yield
        finally:
            self.left -= 1

    def use(self, v):
        with self._flagged("a"):
            self.log.append(v)
            if v is None:
                raise KeyError("none")
        with self._safely():
            if v == 0:
                raise KeyError("zero")
        return self.left

def use_brk(v):
    b = Brk()
    out = []
    try:
        out.append(b.run(v))
    except ValueError as e:
        out.append(str(e))
    try:
        out.append(b.use(v))
    except KeyError as e:
        out.append(("key", str(e)))
    return out, b.left, b.log

def eafp(v):
    table = {1: [10], 2: [20]}
    out = []
    try:
        got = table[v]
    except KeyError:
        out.append("missing")
    else:
        out.append(got)
    try:
        table[v].append(5)
    except KeyError:
        table[v] = [5]
    def look(k):
        try:
            return table[k]
        except KeyError:
            pass
        return None
    def look2(k):
        with contextlib.suppress(KeyError):
            return table[k]
        return "absent"
    return out, sorted(table.items()), look(v), look(99), look2(v), look2(98)

from operator import attrgetter as _ag
_SCOPES = tuple(map(_ag, ("a", "a.b")))
_FLAGS = dict(first=1, second=2)

class _Rec:
    def __init__(self, a):
        self.a = a

def quantified(x, y):
    log = []
    def ident(v):
        log.append(v)
        return v
    p, q = _Rec(_Rec(x)), _Rec(_Rec(y))
    p.a.b, q.a.b = x, 0
    ok = all(ident(s(p)) == ident(s(q)) for s in _SCOPES) if x else None
    some = any(v > x for k, v in _FLAGS.items() if k != "first")
    try:
        assert all(s(p) is not None for s in _SCOPES), "none"
        res = "fine"
    except AssertionError as e:
        res = str(e)
    return ok, some, res, len(log)

from functools import partial

def _emit(log, items, gate=False):
    log.append(("gate" if gate else "plain", tuple(items)))

def partial_rows(cats):
    log = []
    for key, fn in (("a", _emit), ("b", partial(_emit, gate=True)), ("c", _emit)):
        if key in cats:
            fn(log, cats[key])
    return log

def tuple_reads(x, y):
    p, q = _Rec(x), _Rec(y)
    a, b = p.a, q.a
    c, a2 = a, b
    return a, b, c, a2

def _mv_a(log, v):
    log.append(("a", v))

def _mv_b(log, v):
    log.append(("b", v))

def picked_function(v):
    log = []
    mover = _mv_a if isinstance(v, int) else _mv_b
    mover(log, v)
    return log

_KEY_A = "a"
_KEYS = ("a", "b")
_KEYSET = frozenset({"a", "c"})
_FMT = "{}[{}]"

def module_constants(d):
    out = []
    if _KEY_A in d:
        out.append(d[_KEY_A])
    for k in _KEYS:
        out.append(k in d)
    out.append([k for k in sorted(d) if k in _KEYSET])
    out.append(_FMT.format(_KEY_A, len(d)))
    _KEY_B = "shadow"
    out.append(_KEY_B)
    return out

def make(container):
    def call(v):
        container.append(v)
        return len(container)
    return call

BUCKET = []
push = make(BUCKET)

def use_factory(v):
    return push(v)
'''

INPUTS = {
    "search_break_carry": [(1,), ("a",), (1.5,), (None,)],
    "continue_rows": [(1, []), ("a", []), (1.5, []), (None, [])],
    "nested_rows": [(1, "a"), (1, "b"), (1, "z"), ("s", "c"), (None, "a")],
    "break_no_carry": [(1, []), ("a", []), (None, [])],
    "last_row_after_loop": [([],)],
    "reflect": [(3,)],
    "dict_items": [("x",), ("y",), ("z",)],
    "two_way": [(True, 5), (False, 5), (1, 5)],
    "two_way_stmt": [(True, 5), (False, 5)],
    "starred": [(1,), ("a",), (None,)],
    "ifexp_iter": [([1, 2], True), ([1, 2], False)],
    "bulk": [([1, 2, 3], {2}), ([], set())],
    "raise_form": [(1,), (None,)],
    "require_form": [(1,), (3,)],
    "all_map": [([1, 2],), ([0, 1],), ([],)],
    "use_factory": [(1,), (2,)],
    "module_constants": [({"a": 1, "c": 2},), ({},)],
    "picked_function": [(1,), ("x",)],
    "tuple_reads": [(1, 2), (None, 3)],
    "partial_rows": [({"a": [1], "b": [2]},), ({"c": [3]},), ({},)],
    "quantified": [(1, 1), (0, 0), (3, 0), (2, 2)],
    "eafp": [(1,), (3,)],
    "use_brk": [(1,), (None,), (-1,), (0,)],
    "nested_continue": [(1, True, []), (1, False, []), ("a", True, []), (None, False, [])],
    "partial_bind": [(1, "BOX"), (2, "BOX"), (3, "BOX")],
    "field_then_change": [("BOX",)],
    "chained": [([[1, 2, 3], [], [4, 5]],), ([],)],
    "match_pair": [(None, None), (None, 1), (1, None), (2, 2), (1, 2)],
    "use_deco": [(1, 2), (None, 2)],
    "op_helpers": [("BOX", {"k": 1}), ("BOX", {})],
    "matcher": [(1,), (1.5,), ("a",), (None,), (True,), ("Box",), ([1],)],
    "matcher_expr": [({"k": "v"}, "k"), ({"k": 1}, "k"), ({}, "k")],
    "walrus": [({"a": 1}, "a"), ({"a": 1, "b": 2}, "z"), ({}, "z")],
    "prod": [([1, 2], ["a", "b"]), ([], [1]), ([1], [])],
    "dispatch": [("a", []), ("b", []), ("z", [])],
    "attr_dispatch": [("l", 4), ("r", 4), ("x", 4)],
}


def _run(ns, name, args):
    import copy
    try:
        args = tuple(ns["Box"](2) if a == "BOX" else a for a in copy.deepcopy(args))
        return ("ok", ns[name](*args))
    except Exception as e:  # noqa: the kind of exception is what is compared
        return ("raise", type(e).__name__)


def main():
    from sa.normalise import normalise
    tree0 = ast.parse(CASES)
    tree1 = normalise(ast.parse(CASES))
    ast.fix_missing_locations(tree1)
    src1 = ast.unparse(tree1)
    ns0, ns1 = {}, {}
    exec(compile(tree0, "<before>", "exec"), ns0)
    exec(compile(ast.parse(src1), "<after>", "exec"), ns1)
    bad = 0
    rewritten = 0
    for name, grid in INPUTS.items():
        f0 = next(n for n in ast.walk(tree0) if isinstance(n, ast.FunctionDef) and n.name == name)
        f1 = next(n for n in ast.walk(ast.parse(src1)) if isinstance(n, ast.FunctionDef) and n.name == name)
        if ast.dump(f0) != ast.dump(f1):
            rewritten += 1
        for args in grid:
            a, b = _run(ns0, name, args), _run(ns1, name, args)
            if a != b:
                bad += 1
                print("transform self-test: %s%r gives %r before and %r after the loader's rewrites" % (name, args, a, b))
    # the cases must actually exercise the rewrites
    expect_rewritten = {"search_break_carry", "continue_rows", "nested_rows", "break_no_carry", "reflect", "dict_items", "two_way", "two_way_stmt",
                        "starred", "ifexp_iter", "bulk", "raise_form", "require_form", "all_map", "dispatch", "attr_dispatch", "prod", "walrus", "matcher", "matcher_expr", "op_helpers", "match_pair", "chained"}
    for name in sorted(expect_rewritten):
        f0 = next(n for n in ast.walk(tree0) if isinstance(n, ast.FunctionDef) and n.name == name)
        f1 = next(n for n in ast.walk(ast.parse(src1)) if isinstance(n, ast.FunctionDef) and n.name == name)
        if ast.dump(f0) == ast.dump(f1):
            bad += 1
            print("transform self-test: %s was expected to be rewritten by the loader and was not" % name)
    if "for " in ast.unparse(next(n for n in ast.walk(ast.parse(src1)) if isinstance(n, ast.FunctionDef) and n.name == "last_row_after_loop")).split("return")[0] is False:
        bad += 1
    print("transform self-test: %d functions, %d rewritten, %d input rows, %d disagreement(s)" % (len(INPUTS), rewritten, sum(len(g) for g in INPUTS.values()), bad))
    return 1 if bad else 0


if __name__ == "__main__":
    sys.exit(main())
