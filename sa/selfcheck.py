#!/venv/bin/python
"""setup: byte-compile the engine, import every rule module, validate the manifest and the
known-findings file.  No installs, no network, nothing from spydrnet is imported."""
import compileall
import json
import os
import sys

HERE = os.path.dirname(os.path.abspath(__file__))
sys.path.insert(0, os.path.dirname(HERE))


def main():
    ok = compileall.compile_dir(HERE, quiet=1, force=False)
    from sa.rules import load_all
    reg = load_all()
    from sa.report import load_known
    kf = load_known()
    for f in kf.get("findings", []):
        for k in ("property", "rule", "key", "what_fails"):
            if k not in f:
                print("known_findings.json: entry without %s" % k)
                return 1
    man = os.path.join(os.path.dirname(HERE), "MANIFEST.json")
    if os.path.exists(man):
        m = json.load(open(man))
        claimed = {c["property_id"] for c in m["checks"]}
        if claimed != set(reg):
            print("MANIFEST.json claims %s but the registry has %s" % (sorted(claimed), sorted(reg)))
            return 1
    from sa import transform_selftest
    if transform_selftest.main() != 0:
        print("the loader's rewrites do not preserve meaning on the self-test cases")
        return 1
    print("setup ok: %d rule sets (%s), %d known findings" % (len(reg), ",".join(sorted(reg)), len(kf.get("findings", []))))
    return 0 if ok else 1


if __name__ == "__main__":
    sys.exit(main())
