"""Load-time unrolling of loops over constant tables, and folding of reflective attribute access with constant names.

A maintainer may replace five hand-written branches by one loop over a table of (class, "attribute") rows.  The behaviour is the
same; the rules read branches.  So the loader undoes that step, exactly:

  for <targets> in <TABLE>: BODY        ->  BODY[row 1]; BODY[row 2]; ...        (TABLE a tuple/list/dict literal, written in place
                                                                                  or bound once to a module / class / local name)
  getattr(x, "name")                    ->  x.name
  setattr(x, "name", v)                 ->  x.name = v
  (lambda a, b: E)(x, y)                ->  E[a:=x, b:=y]                        (arguments that are plain names / attributes; also through a
                                                                                  local bound once to the lambda and only ever called)
  attrgetter("a.b")(x) / itemgetter(k)(x) / methodcaller("m", y)(x) / partial(f, a)(b)   ->  x.a.b / x[k] / x.m(y) / f(a, b)   (also through
                                            a local bound once to the helper and only ever called)
  {False: a, True: b}[<boolean test>]   ->  b if <test> else a
  (f if c else g)(a…)  as a statement   ->  if c: f(a…) else: g(a…)              (also  h = f if c else g; h(a…)  with h used once)

Inside an unrolled body, `continue` moves the statements after it into the complementary branch, `break` drops the remaining
rows, a `for ... else` keeps its else on the paths that did not break.  A loop is left alone when unrolling could change the
meaning: rows that are not side-effect-free expressions, targets that are stored to or captured by a closure in the body or read
after the loop, jumps inside try/with, tables that are mutated anywhere in the module, more than MAX_ROWS rows."""
import ast

from .core import copy_tree

MAX_ROWS = 12
MAX_STMTS = 600


def _pure(e):
    if isinstance(e, (ast.Name, ast.Constant)):
        return True
    if isinstance(e, ast.Attribute):
        return _pure(e.value)
    if isinstance(e, (ast.Tuple, ast.List)):
        return all(_pure(x) for x in e.elts)
    if isinstance(e, ast.Lambda):
        return True
    if isinstance(e, ast.Call) and isinstance(e.func, ast.Attribute) and isinstance(e.func.value, ast.Name) and e.func.value.id == "re" \
            and e.func.attr == "compile" and e.args and all(isinstance(a, ast.Constant) for a in e.args) and not e.keywords:
        return True  # a compiled constant pattern: immutable, and compiling it again gives an equal object
    if isinstance(e, ast.Call) and not isinstance(e, ast.Lambda) and _as_lambda(e) is not None:
        return True  # attrgetter("name") / itemgetter(k) / methodcaller("m", …) with constant arguments: immutable function objects
    if isinstance(e, ast.Call) and _is_partial(e) and all(isinstance(a, ast.Constant) for a in e.args[1:]) and all(isinstance(k.value, ast.Constant) for k in e.keywords) \
            and isinstance(e.args[0], (ast.Name, ast.Attribute)):
        return True  # partial(f, constants…): applied where it is called
    if isinstance(e, ast.Dict):
        # a row may carry keyword options: {"is_gate": True}; only ever spliced into a call as **options (checked at the use)
        return all(isinstance(k, ast.Constant) and isinstance(k.value, str) for k in e.keys) and all(_pure(v) and not isinstance(v, ast.Dict) for v in e.values)
    return False


def _simple(e):
    return isinstance(e, (ast.Name, ast.Constant)) or (isinstance(e, ast.Attribute) and _simple(e.value)) or \
        (isinstance(e, ast.Subscript) and _simple(e.value) and isinstance(e.slice, (ast.Name, ast.Constant)))


def _as_literal(v):
    """the tuple / list / dict literal that v spells: the literal itself, tuple(LIT) / list(LIT), tuple(map(f, LIT)) with f a plain name
    (each row is then f(element)), dict(a=…, b=…)"""
    if isinstance(v, (ast.Tuple, ast.List, ast.Dict)):
        return v
    if isinstance(v, ast.Call) and isinstance(v.func, ast.Name) and v.func.id in ("tuple", "list") and len(v.args) == 1 and not v.keywords:
        a = v.args[0]
        if isinstance(a, (ast.Tuple, ast.List)):
            return ast.copy_location(ast.Tuple(elts=list(a.elts), ctx=ast.Load()), v)
        if isinstance(a, ast.Call) and isinstance(a.func, ast.Name) and a.func.id == "map" and len(a.args) == 2 and not a.keywords \
                and isinstance(a.args[0], (ast.Name, ast.Attribute)) and isinstance(a.args[1], (ast.Tuple, ast.List)) \
                and not any(isinstance(x, ast.Starred) for x in a.args[1].elts):
            rows = [ast.copy_location(ast.Call(func=copy_tree(a.args[0]), args=[x], keywords=[]), x) for x in a.args[1].elts]
            return ast.copy_location(ast.Tuple(elts=rows, ctx=ast.Load()), v)
    comp = v.args[0] if isinstance(v, ast.Call) and isinstance(v.func, ast.Name) and v.func.id in ("tuple", "list") and len(v.args) == 1 and not v.keywords else v
    if isinstance(comp, (ast.GeneratorExp, ast.ListComp)) and (comp is not v or isinstance(comp, ast.ListComp)) and len(comp.generators) == 1:
        # tuple(E(x) for x in (a, b, c))  ->  (E(a), E(b), E(c))     constant elements, no filter
        g = comp.generators[0]
        if not g.ifs and not g.is_async and isinstance(g.target, ast.Name) and isinstance(g.iter, (ast.Tuple, ast.List)) \
                and all(isinstance(x, ast.Constant) for x in g.iter.elts) and g.iter.elts \
                and not any(isinstance(x, (ast.Lambda, ast.GeneratorExp, ast.ListComp, ast.NamedExpr)) for x in ast.walk(comp.elt)):
            rows = [_Sub({g.target.id: x}).visit(copy_tree(comp.elt)) for x in g.iter.elts]
            return ast.fix_missing_locations(ast.copy_location(ast.Tuple(elts=rows, ctx=ast.Load()), v))
    if isinstance(v, ast.Call) and isinstance(v.func, ast.Name) and v.func.id == "dict" and not v.args and v.keywords and all(k.arg for k in v.keywords):
        return ast.copy_location(ast.Dict(keys=[ast.Constant(value=k.arg) for k in v.keywords], values=[k.value for k in v.keywords]), v)
    return None


class _Tables:
    """constant tables of one module: names bound exactly once to a literal and never mutated"""
    MUTATORS = {"append", "extend", "insert", "update", "pop", "remove", "clear", "add", "discard", "setdefault", "sort", "reverse", "popitem"}

    def __init__(self, tree, nodes=None):
        self.module = {}
        self.cls = {}  # attribute name -> literal (class-level, unique across the module's classes)
        stores = {}
        mutated = set()
        cands = [st for st in tree.body if isinstance(st, ast.Assign) and self._literal(st.value)] + \
                [s2 for st in tree.body if isinstance(st, ast.ClassDef) for s2 in st.body if isinstance(s2, ast.Assign) and self._literal(s2.value)]
        if not cands:
            return
        for n in (nodes if nodes is not None else ast.walk(tree)):
            if isinstance(n, ast.Name) and isinstance(n.ctx, (ast.Store, ast.Del)):
                stores[n.id] = stores.get(n.id, 0) + 1
            if isinstance(n, ast.Attribute) and isinstance(n.ctx, (ast.Store, ast.Del)):
                stores["." + n.attr] = stores.get("." + n.attr, 0) + 1
            if isinstance(n, ast.Call) and isinstance(n.func, ast.Attribute) and n.func.attr in self.MUTATORS:
                b = n.func.value
                mutated.add(b.id if isinstance(b, ast.Name) else ("." + b.attr if isinstance(b, ast.Attribute) else None))
            if isinstance(n, ast.Subscript) and isinstance(n.ctx, (ast.Store, ast.Del)):
                b = n.value
                mutated.add(b.id if isinstance(b, ast.Name) else ("." + b.attr if isinstance(b, ast.Attribute) else None))
            if isinstance(n, ast.AugAssign):
                b = n.target
                mutated.add(b.id if isinstance(b, ast.Name) else ("." + b.attr if isinstance(b, ast.Attribute) else None))
        for st in tree.body:
            if isinstance(st, ast.Assign) and len(st.targets) == 1 and isinstance(st.targets[0], ast.Name):
                nm = st.targets[0].id
                if stores.get(nm) == 1 and nm not in mutated and self._literal(st.value):
                    self.module[nm] = _as_literal(st.value)
            if isinstance(st, ast.ClassDef):
                for s2 in st.body:
                    if isinstance(s2, ast.Assign) and len(s2.targets) == 1 and isinstance(s2.targets[0], ast.Name):
                        nm = s2.targets[0].id
                        if stores.get(nm) == 1 and not stores.get("." + nm) and nm not in mutated and ("." + nm) not in mutated and self._literal(s2.value):
                            if nm in self.cls:
                                self.cls[nm] = None
                            else:
                                # a class-level table may name functions of the class body: outside the class body they are C.f
                                fns = {x.name for x in st.body if isinstance(x, (ast.FunctionDef, ast.AsyncFunctionDef))}
                                val = _as_literal(s2.value)
                                if any(isinstance(x, ast.Name) and x.id in fns for x in ast.walk(val)):
                                    val = _Qualify(st.name, fns).visit(copy_tree(val))
                                self.cls[nm] = val
        self.cls = {k: v for k, v in self.cls.items() if v is not None}

    @staticmethod
    def _literal(v):
        return _as_literal(v) is not None

    def resolve(self, e, local):
        if isinstance(e, ast.Name):
            return local.get(e.id) or self.module.get(e.id)
        if isinstance(e, ast.Attribute) and isinstance(e.value, ast.Name) and e.attr in self.cls:
            return self.cls[e.attr]
        return e

    def rows(self, it, local):
        """row expressions of the iterable `it`, or None"""
        if isinstance(it, ast.Call) and isinstance(it.func, ast.Attribute) and it.func.attr in ("items", "keys", "values") and not it.args and not it.keywords:
            d = self.resolve(it.func.value, local)
            if isinstance(d, ast.Dict) and all(k is not None for k in d.keys):
                if it.func.attr == "items":
                    rows = [ast.Tuple(elts=[k, v], ctx=ast.Load()) for k, v in zip(d.keys, d.values)]
                elif it.func.attr == "keys":
                    rows = list(d.keys)
                else:
                    rows = list(d.values)
            else:
                return None
        else:
            lit = self.resolve(it, local)
            if isinstance(lit, ast.Dict) and all(k is not None for k in lit.keys):
                rows = list(lit.keys)
            elif isinstance(lit, (ast.Tuple, ast.List)):
                rows = list(lit.elts)
            else:
                return None
        if not rows or len(rows) > MAX_ROWS or not all(_pure(r) for r in rows):
            return None
        return rows

    def bind(self, target, row, local, out):
        if isinstance(target, ast.Name):
            out[target.id] = row
            return True
        if isinstance(target, (ast.Tuple, ast.List)):
            r = row
            if isinstance(r, (ast.Name, ast.Attribute)):
                r = self.resolve(r, local)
            if not isinstance(r, (ast.Tuple, ast.List)):
                return False
            stars = [i for i, x in enumerate(target.elts) if isinstance(x, ast.Starred)]
            if len(stars) > 1:
                return False
            if stars:
                # a, *rest, z = row: the starred name takes the list of what is left over
                i = stars[0]
                after = len(target.elts) - i - 1
                if len(r.elts) < len(target.elts) - 1 or not isinstance(target.elts[i].value, ast.Name):
                    return False
                mid = r.elts[i:len(r.elts) - after]
                out[target.elts[i].value.id] = ast.List(elts=list(mid), ctx=ast.Load())
                pairs = list(zip(target.elts[:i], r.elts[:i])) + (list(zip(target.elts[i + 1:], r.elts[len(r.elts) - after:])) if after else [])
                return all(self.bind(t, x, local, out) for t, x in pairs)
            if len(r.elts) != len(target.elts):
                return False
            return all(self.bind(t, x, local, out) for t, x in zip(target.elts, r.elts))
        return False


class _Qualify(ast.NodeTransformer):
    def __init__(self, cname, fns):
        self.cname, self.fns = cname, fns

    def visit_Lambda(self, n):
        return n

    def visit_Name(self, n):
        if isinstance(n.ctx, ast.Load) and n.id in self.fns:
            return ast.copy_location(ast.Attribute(value=ast.copy_location(ast.Name(id=self.cname, ctx=ast.Load()), n), attr=n.id, ctx=ast.Load()), n)
        return n


def _boolean(e):
    """an expression that evaluates to True or False (not merely truthy)"""
    if isinstance(e, ast.Compare):
        return True
    if isinstance(e, ast.UnaryOp) and isinstance(e.op, ast.Not):
        return True
    if isinstance(e, ast.Call) and isinstance(e.func, ast.Name) and e.func.id in ("isinstance", "bool", "callable", "hasattr", "issubclass"):
        return True
    if isinstance(e, ast.Call) and isinstance(e.func, ast.Attribute) and e.func.attr in (
            "startswith", "endswith", "isalpha", "isdigit", "isalnum", "isupper", "islower", "isspace", "isidentifier", "is_leaf", "issubset", "issuperset",
            "isdisjoint"):
        return True  # predicates of str / set (and of the IR) that answer True or False
    if isinstance(e, ast.BoolOp):
        return all(_boolean(v) for v in e.values)
    if isinstance(e, ast.Constant):
        return isinstance(e.value, bool)
    return False


class _Sub(ast.NodeTransformer):
    def __init__(self, mapping):
        self.mapping = mapping

    def visit_Name(self, n):
        if isinstance(n.ctx, ast.Load) and n.id in self.mapping:
            new = copy_tree(self.mapping[n.id])
            for x in ast.walk(new):
                if isinstance(x, ast.expr):
                    ast.copy_location(x, n)
                if hasattr(x, "ctx") and isinstance(x, (ast.Tuple, ast.List, ast.Name, ast.Attribute)) and not isinstance(x.ctx, ast.Load):
                    x.ctx = ast.Load()
            return new
        return n


def _level_jumps(stmts, kinds=(ast.Break, ast.Continue)):
    """break / continue statements that belong to the loop whose body is `stmts` (not to a nested loop); second result: whether
    one of them sits inside try / with / match (where moving statements around is not attempted)"""
    out, hard = [], False

    def go(lst, in_hard):
        nonlocal hard
        for st in lst:
            if isinstance(st, kinds):
                out.append(st)
                hard = hard or in_hard
            elif isinstance(st, (ast.For, ast.While, ast.AsyncFor)):
                go(st.orelse, in_hard)  # the else of a nested loop belongs to our level
            elif isinstance(st, ast.If):
                go(st.body, in_hard)
                go(st.orelse, in_hard)
            elif isinstance(st, (ast.Try, ast.With, ast.AsyncWith)) or st.__class__.__name__ in ("Match", "TryStar"):
                for fld in ("body", "orelse", "finalbody"):
                    go(getattr(st, fld, []) or [], True)
                for h in getattr(st, "handlers", []):
                    go(h.body, True)
    go(stmts, False)
    return out, hard


def _structure(stmts, on_jump):
    """rewrite so that a loop-level `continue` / `break` becomes on_jump(kind) and the statements after an `if` that jumped move
    into the complementary branch.  Returns (statements, falls_through)."""
    out = []
    for i, st in enumerate(stmts):
        if isinstance(st, (ast.Break, ast.Continue)):
            out.extend(on_jump(type(st)))
            return out, False
        if isinstance(st, (ast.Return, ast.Raise)):
            out.append(st)
            return out, False
        if isinstance(st, ast.If) and _level_jumps([st])[0]:
            # what follows the `if` is appended to both branches before they are structured: inside a branch it then lands exactly on
            # the paths that fall through (a nested `if` whose arms partly jump included)
            rest = stmts[i + 1:]
            body, b_falls = _structure(list(st.body) + [copy_tree(x) for x in rest], on_jump)
            orelse, o_falls = _structure(list(st.orelse) + [copy_tree(x) for x in rest], on_jump)
            falls = b_falls or o_falls
            new_if = ast.copy_location(ast.If(test=st.test, body=body or [ast.copy_location(ast.Pass(), st)], orelse=orelse), st)
            out.append(new_if)
            return out, falls
        out.append(st)
    return out, True


def _count(stmts):
    return sum(1 for s in stmts for x in ast.walk(s) if isinstance(x, ast.stmt))


class _LazyLocal:
    """local names of one function that are bound once to a literal and never mutated; computed on first use"""

    def __init__(self, fn):
        self.fn = fn
        self.d = None

    def get(self, name, default=None):
        if self.d is None:
            n = self.fn
            self.d = {}
            if any(isinstance(st, ast.Assign) and isinstance(st.value, (ast.Tuple, ast.List, ast.Dict)) for st in n.body):
                stores = {}
                for x in ast.walk(n):
                    if isinstance(x, ast.Name) and isinstance(x.ctx, (ast.Store, ast.Del)):
                        stores[x.id] = stores.get(x.id, 0) + 1
                t = _Tables(ast.Module(body=[s for s in n.body], type_ignores=[]))
                params = {a.arg for a in n.args.args}
                for nm, v in t.module.items():
                    if stores.get(nm) == 1 and nm not in params:
                        self.d[nm] = v
        return self.d.get(name, default)


def _bool_valued(e):
    """e evaluates to True or False whatever its operands"""
    if isinstance(e, ast.Compare):
        return True
    if isinstance(e, ast.Constant):
        return isinstance(e.value, bool)
    if isinstance(e, ast.UnaryOp) and isinstance(e.op, ast.Not):
        return True
    if isinstance(e, ast.BoolOp):
        return all(_bool_valued(v) for v in e.values)
    if isinstance(e, ast.Call) and isinstance(e.func, ast.Name) and e.func.id in ("isinstance", "issubclass", "bool", "callable", "hasattr", "all", "any"):
        return True
    return False


class _Unroller(ast.NodeTransformer):
    def __init__(self, tables):
        self.tables = tables
        self.local = [{}]
        self.func = [None]
        self.count = 0

    # -- scopes: a local name bound once to a literal in this function and never mutated is a table too ---------------------------
    def visit_FunctionDef(self, n):
        self.local.append(_LazyLocal(n))
        self.func.append(n)
        self.generic_visit(n)
        self.func.pop()
        self.local.pop()
        return n

    visit_AsyncFunctionDef = visit_FunctionDef

    def generic_visit(self, node):
        # only statements are rewritten: walk statement lists as blocks (an unrolled search loop may take the rest of its block with it)
        for field, old in ast.iter_fields(node):
            if isinstance(old, list) and old and isinstance(old[0], ast.stmt):
                setattr(node, field, self.block(old))
            elif isinstance(old, list):
                for x in old:
                    if isinstance(x, (ast.ExceptHandler, ast.stmt)) or x.__class__.__name__ == "match_case":
                        self.visit(x)
        return node

    def block(self, stmts):
        out = []
        i = 0
        while i < len(stmts):
            st = stmts[i]
            if isinstance(st, ast.For):
                rep = self.unroll(st, stmts[i + 1:])
                if rep is not None:
                    new, consumed = rep
                    out.extend(self.block(new))
                    if consumed:
                        return out or [ast.copy_location(ast.Pass(), st)]
                    i += 1
                    continue
            if self.func[-1] is not None and not isinstance(st, (ast.FunctionDef, ast.AsyncFunctionDef, ast.ClassDef)):
                self._quantifiers(st)
            r = self.visit(st)
            out.append(r if r is not None else st)
            i += 1
        return out

    def _quantifiers(self, st):
        """all(E(row) for row in TABLE) -> E(r1) and E(r2) and …   (any: or) when E is boolean-valued: same value, same evaluation
        order, same short circuit.  Only the statement's own expressions (header of a compound statement) are looked at."""
        outer = self

        class Q(ast.NodeTransformer):
            def visit_Lambda(self, n):
                return n

            def visit_Call(self, n):
                self.generic_visit(n)
                if not (isinstance(n.func, ast.Name) and n.func.id in ("all", "any") and len(n.args) == 1 and not n.keywords
                        and isinstance(n.args[0], ast.GeneratorExp) and len(n.args[0].generators) == 1):
                    return n
                g = n.args[0].generators[0]
                if g.is_async or not _bool_valued(n.args[0].elt) or not all(_bool_valued(t) for t in g.ifs):
                    return n
                rows = outer.tables.rows(g.iter, outer.local[-1])
                if rows is None:
                    return n
                vals = []
                for r in rows:
                    m = {}
                    if not outer.tables.bind(g.target, r, outer.local[-1], m):
                        return n
                    if any(isinstance(v, ast.Dict) for v in m.values()):
                        return n
                    e = _Fold().visit(_Sub(m).visit(copy_tree(n.args[0].elt)))
                    conds = [_Fold().visit(_Sub(m).visit(copy_tree(t))) for t in g.ifs]
                    if conds:
                        c = conds[0] if len(conds) == 1 else ast.BoolOp(op=ast.And(), values=conds)
                        if n.func.id == "all":
                            e = ast.BoolOp(op=ast.Or(), values=[ast.UnaryOp(op=ast.Not(), operand=c), e])
                        else:
                            e = ast.BoolOp(op=ast.And(), values=[c, e])
                    vals.append(e)
                new = vals[0] if len(vals) == 1 else ast.BoolOp(op=ast.And() if n.func.id == "all" else ast.Or(), values=vals)
                outer.count += 1
                return ast.fix_missing_locations(ast.copy_location(new, n))
        for fld, val in ast.iter_fields(st):
            if isinstance(val, ast.expr):
                if any(isinstance(x, ast.Call) and isinstance(x.func, ast.Name) and x.func.id in ("all", "any") for x in ast.walk(val)):
                    setattr(st, fld, Q().visit(val))

    def unroll(self, n, rest):
        """(replacement statements, whether the rest of the block was taken along) or None"""
        rows = self.tables.rows(n.iter, self.local[-1])
        if rows is None:
            return None
        binds = []
        for r in rows:
            m = {}
            if not self.tables.bind(n.target, r, self.local[-1], m):
                return None
            binds.append(m)
        names = set(binds[0])
        # the loop variables must be read-only inside the body, not captured, not shadowed
        for x in (y for s in n.body + n.orelse for y in ast.walk(s)):
            if isinstance(x, ast.Name) and x.id in names and not isinstance(x.ctx, ast.Load):
                return None
            if isinstance(x, (ast.FunctionDef, ast.AsyncFunctionDef, ast.Lambda, ast.ClassDef)) and any(
                    isinstance(z, ast.Name) and z.id in names for z in ast.walk(x)):
                return None
        scope = self.func[-1]
        if scope is None:
            return None  # module-level loops are left alone
        dict_names = {k for m in binds for k, v in m.items() if isinstance(v, ast.Dict)}
        if dict_names:
            # a dict-valued column is only read as **name in a call (a fresh literal per row is then indistinguishable from the shared one)
            star_uses = {id(kw.value) for s_ in list(n.body) + list(n.orelse) + list(rest) for c in ast.walk(s_) if isinstance(c, ast.Call)
                         for kw in c.keywords if kw.arg is None and isinstance(kw.value, ast.Name)}
            for s_ in list(n.body) + list(n.orelse) + list(rest):
                for x in ast.walk(s_):
                    if isinstance(x, ast.Name) and x.id in dict_names and id(x) not in star_uses:
                        return None
        # reads of the loop variables after the loop: a search loop (`break` on the matching row) followed by code that uses the
        # row.  Allowed when every such read sits in the rest of the loop's own block: that rest is then continued per row.
        end = getattr(n, "end_lineno", n.lineno)
        in_rest = {id(x) for s in rest for x in ast.walk(s)}
        carry = False
        for nm in names:
            later = [x for x in ast.walk(scope) if isinstance(x, ast.Name) and x.id == nm and x.lineno > end]
            rebinds = [x.lineno for x in later if not isinstance(x.ctx, ast.Load)]
            first = min(rebinds) if rebinds else None
            reads = [x for x in later if isinstance(x.ctx, ast.Load) and (first is None or x.lineno < first)]
            if reads:
                if not all(id(x) in in_rest for x in reads):
                    return None
                if any(isinstance(x, ast.Name) and x.id == nm and not isinstance(x.ctx, ast.Load) for s in rest for x in ast.walk(s)):
                    return None
                carry = True
        if carry and any(isinstance(x, (ast.FunctionDef, ast.AsyncFunctionDef, ast.Lambda, ast.ClassDef)) and any(
                isinstance(z, ast.Name) and z.id in names for z in ast.walk(x)) for s in rest for x in ast.walk(s)):
            return None
        jumps, hard = _level_jumps(n.body)
        if hard:
            return None
        has_break = any(isinstance(j, ast.Break) for j in jumps)
        tail = list(n.orelse)

        def rest_for(m):
            return [_Sub(m).visit(copy_tree(s)) for s in rest]

        def falls_through(stmts):
            return not (stmts and isinstance(stmts[-1], (ast.Return, ast.Raise, ast.Break, ast.Continue)))
        if not has_break:
            out = []
            for m in binds:
                body = [_Sub(m).visit(copy_tree(s)) for s in n.body]
                new, falls = _structure(body, lambda kind: [])
                out.extend(new)
                if _count(out) > MAX_STMTS:
                    return None
            # without a break the else clause always runs; rows are laid out one after the other
            out = out + tail
            if carry:
                if falls_through(out):
                    out = out + rest_for(binds[-1])  # after the loop the variables hold the last row
                return self._seal(out, n), True
            return self._seal(out, n), False
        after = tail  # what follows the last row on the paths that did not break
        if carry and falls_through(after):
            after = after + rest_for(binds[-1])
        for m in reversed(binds):
            body = [_Sub(m).visit(copy_tree(s)) for s in n.body]
            nxt = after

            def on_jump(kind, nxt=nxt, m=m):
                if kind is ast.Break:
                    return rest_for(m) if carry else []
                return copy_tree(nxt)
            # falling off the end of the body continues with the next row, exactly like `continue`: spelled out, so that the
            # continuation lands in the branches that fall through and nowhere else
            new, falls = _structure(body + [ast.copy_location(ast.Continue(), n)], on_jump)
            after = new
            if _count(after) > MAX_STMTS:
                return None
        return self._seal(after, n), carry

    def _seal(self, stmts, n):
        self.count += 1
        for s in stmts:
            ast.fix_missing_locations(s)
        return stmts or [ast.copy_location(ast.Pass(), n)]


class _Fold(ast.NodeTransformer):
    """reflective access with a constant name, immediately applied lambdas, two-way dispatch through a {False: a, True: b} table"""

    def __init__(self, tables=None, operator_names=()):
        self.tables = tables
        self.operator_names = set(operator_names)  # names imported from the operator module

    def visit_Subscript(self, n):
        self.generic_visit(n)
        # (a, b, c)[1]  ->  b      (a row of a table substituted for the name that stood for it)
        if isinstance(n.ctx, ast.Load) and isinstance(n.value, (ast.Tuple, ast.List)) and isinstance(n.slice, ast.Constant) and isinstance(n.slice.value, int) \
                and not isinstance(n.slice.value, bool) and -len(n.value.elts) <= n.slice.value < len(n.value.elts) and all(_pure(x) for x in n.value.elts):
            return ast.copy_location(copy_tree(n.value.elts[n.slice.value]), n)
        if isinstance(n.ctx, ast.Load) and _boolean(n.slice):
            d = n.value
            if self.tables is not None and isinstance(d, (ast.Name, ast.Attribute)):
                d = self.tables.resolve(d, {})
            if isinstance(d, ast.Dict) and len(d.keys) == 2 and all(isinstance(k, ast.Constant) and isinstance(k.value, bool) for k in d.keys) \
                    and {k.value for k in d.keys} == {True, False} and all(_pure(v) for v in d.values):
                pick = {k.value: v for k, v in zip(d.keys, d.values)}
                return ast.copy_location(ast.IfExp(test=n.slice, body=copy_tree(pick[True]), orelse=copy_tree(pick[False])), n)
        return n

    def visit_Call(self, n):
        self.generic_visit(n)
        if any(kw.arg is None and isinstance(kw.value, ast.Dict) for kw in n.keywords):
            # f(a, **{"k": v})  ->  f(a, k=v)
            kws = []
            for kw in n.keywords:
                if kw.arg is None and isinstance(kw.value, ast.Dict) and all(isinstance(k, ast.Constant) and isinstance(k.value, str) and k.value.isidentifier()
                                                                             for k in kw.value.keys):
                    kws.extend(ast.keyword(arg=k.value, value=v) for k, v in zip(kw.value.keys, kw.value.values))
                else:
                    kws.append(kw)
            n.keywords = kws
        if isinstance(n.func, ast.Name) and n.func.id == "getattr" and len(n.args) == 2 and not n.keywords \
                and isinstance(n.args[1], ast.Constant) and isinstance(n.args[1].value, str) and n.args[1].value.isidentifier():
            return ast.copy_location(ast.Attribute(value=n.args[0], attr=n.args[1].value, ctx=ast.Load()), n)
        # operator.contains(a, b) -> b in a     operator.eq / ne / is_ / is_not (a, b)     operator.not_(a) / truth(a)
        fn_ = n.func.attr if isinstance(n.func, ast.Attribute) and isinstance(n.func.value, ast.Name) and n.func.value.id == "operator" else (
            n.func.id if isinstance(n.func, ast.Name) else None)
        if fn_ in ("contains", "eq", "ne", "is_", "is_not") and len(n.args) == 2 and not n.keywords and (isinstance(n.func, ast.Attribute) or fn_ in self.operator_names):
            a_, b_ = n.args
            if fn_ == "contains":
                return ast.copy_location(ast.Compare(left=b_, ops=[ast.In()], comparators=[a_]), n)
            op_ = {"eq": ast.Eq, "ne": ast.NotEq, "is_": ast.Is, "is_not": ast.IsNot}[fn_]()
            return ast.copy_location(ast.Compare(left=a_, ops=[op_], comparators=[b_]), n)
        if isinstance(n.func, ast.Call) and _is_partial(n.func):
            # partial(f, a, k=v)(b, …)  ->  f(a, b, …, k=v)
            v = n.func
            return ast.copy_location(ast.Call(func=v.args[0], args=list(v.args[1:]) + list(n.args), keywords=list(v.keywords) + list(n.keywords)), n)
        if isinstance(n.func, ast.Call) and _as_lambda(n.func) is not None and not isinstance(n.func, ast.Lambda):
            n.func = _as_lambda(n.func)
        if isinstance(n.func, ast.Lambda) and not n.keywords:
            a = n.func.args
            if not (a.vararg or a.kwarg or a.kwonlyargs or a.defaults or a.posonlyargs) and len(a.args) == len(n.args) and all(_simple(x) for x in n.args):
                params = [p.arg for p in a.args]
                if not any(isinstance(x, (ast.Lambda, ast.ListComp, ast.SetComp, ast.DictComp, ast.GeneratorExp)) for x in ast.walk(n.func.body)):
                    return ast.copy_location(_Sub(dict(zip(params, n.args))).visit(copy_tree(n.func.body)), n)
        return n

    def visit_Expr(self, n):
        self.generic_visit(n)
        c = n.value
        if isinstance(c, ast.Call) and isinstance(c.func, ast.Name) and c.func.id == "setattr" and len(c.args) == 3 and not c.keywords \
                and isinstance(c.args[1], ast.Constant) and isinstance(c.args[1].value, str) and c.args[1].value.isidentifier():
            tgt = ast.Attribute(value=c.args[0], attr=c.args[1].value, ctx=ast.Store())
            return ast.fix_missing_locations(ast.copy_location(ast.Assign(targets=[ast.copy_location(tgt, c)], value=c.args[2]), n))
        return n


def unroll(tree, nodes=None):
    """returns (tree, number of loops unrolled)"""
    has_for = fold = choice = False
    if nodes is None:
        nodes = list(ast.walk(tree))
    for x in nodes:
        if isinstance(x, ast.For):
            has_for = True
        elif isinstance(x, ast.Call):
            if isinstance(x.func, ast.Name) and x.func.id in ("getattr", "setattr"):
                fold = True
            elif isinstance(x.func, ast.Lambda):
                fold = True
            elif isinstance(x.func, ast.IfExp):
                choice = True
        elif isinstance(x, ast.Dict) and len(x.keys) == 2 and all(isinstance(k, ast.Constant) and isinstance(k.value, bool) for k in x.keys):
            fold = choice = True
    def _callable_local(v):
        if isinstance(v, ast.Lambda):
            return True
        if isinstance(v, ast.Attribute) and isinstance(v.value, ast.Name):
            return v.attr in ("append", "add", "extend", "update", "remove", "discard", "pop", "popleft", "appendleft", "insert", "setdefault", "get", "write") \
                or v.attr in METHOD_NAMES
        if isinstance(v, ast.Call):
            f = v.func
            return (f.id if isinstance(f, ast.Name) else f.attr if isinstance(f, ast.Attribute) else None) in ("attrgetter", "itemgetter", "methodcaller", "partial")
        return False
    if any(isinstance(x, ast.Assign) and _callable_local(x.value) for x in nodes):
        _apply_local_lambdas(tree)
        fold = True
    quant = any(isinstance(x, ast.Call) and isinstance(x.func, ast.Name) and x.func.id in ("all", "any") and x.args and isinstance(x.args[0], ast.GeneratorExp)
                and isinstance(x.args[0].generators[0].iter, (ast.Name, ast.Tuple, ast.List, ast.Attribute)) for x in nodes)
    if not (has_for or fold or choice or quant) and not any(isinstance(x, ast.Assign) and isinstance(x.value, ast.Name) and x.value.id in METHOD_NAMES for x in nodes):
        return tree, 0
    tables = _Tables(tree, nodes)
    u = _Unroller(tables)
    if quant and not has_for:
        tree = u.visit(tree)
    if has_for and (tables.module or tables.cls or any(
            isinstance(x, ast.For) and not isinstance(x.iter, (ast.Call, ast.Attribute)) or
            (isinstance(x, ast.For) and isinstance(x.iter, ast.Call) and isinstance(x.iter.func, ast.Attribute) and x.iter.func.attr in ("items", "keys", "values")
             and isinstance(x.iter.func.value, (ast.Dict, ast.Name)))
            for x in nodes)):
        tree = u.visit(tree)
    dispatch = any(isinstance(x, ast.Call) and isinstance(x.func, ast.Attribute) and x.func.attr == "get" for x in nodes) and \
        any(isinstance(x, ast.Dict) and x.keys for x in nodes) and _dict_get_dispatch(tree, tables)
    if any(isinstance(x, ast.Call) and isinstance(x.func, ast.Name) and x.func.id == "next" and x.args and isinstance(x.args[0], ast.GeneratorExp) for x in nodes):
        dispatch = _next_dispatch(tree, tables) or dispatch
    op_names = {a.asname or a.name for x in nodes if isinstance(x, ast.ImportFrom) and x.module == "operator" for a in x.names}
    if op_names & {"contains", "eq", "ne", "is_", "is_not"}:
        fold = True
    # a local bound to one of several functions by a test and then called:  mover = f if c else g; mover(a…)
    fn_locals = {x.targets[0].id for x in nodes if isinstance(x, ast.Assign) and len(x.targets) == 1 and isinstance(x.targets[0], ast.Name)
                 and isinstance(x.value, ast.Name) and x.value.id in METHOD_NAMES}
    picked = bool(fn_locals) and any(isinstance(x, ast.Call) and isinstance(x.func, ast.Name) and x.func.id in fn_locals for x in nodes)
    if u.count or fold or dispatch or picked:
        tree = _Fold(tables, op_names).visit(tree)
        ast.fix_missing_locations(tree)
        choice = True
        # x = A if c else B produced by the folds above: a statement again
        _split_ifexp_assign(tree)
        # constants picked by a branch and used reflectively further down: read the continuation once per choice
        for fn in ast.walk(tree):
            if isinstance(fn, (ast.FunctionDef, ast.AsyncFunctionDef)) and (_reflective_use(fn.body, None) or _has_row_binding(fn.body) or (
                    picked and any(isinstance(x, ast.Call) and isinstance(x.func, ast.Name) and x.func.id in fn_locals for x in ast.walk(fn)))):
                assigned_ = {x.id for x in ast.walk(fn) if isinstance(x, ast.Name) and not isinstance(x.ctx, ast.Load)} | \
                    {a.arg for a in fn.args.args if a.arg not in ("self", "cls")}
                fn.body = _fold_constant_tests(specialise(fn.body, 0, assigned_)) or fn.body
        ast.fix_missing_locations(tree)
    if choice:
        tree = _Choice().visit(tree)
        ast.fix_missing_locations(tree)
    return tree, u.count


def _dict_get_dispatch(tree, tables):
    """x = TABLE.get(k[, d])  with TABLE a constant dict   ->   if k == K1: x = V1 elif k == K2: x = V2 … else: x = d
    (keys and values side-effect-free expressions; what a dict lookup does for keys with ordinary equality; a key expression that is
    not a plain name is evaluated once into a local first)"""
    changed = [False]
    counter = [0]

    def rewrite(st, local):
        if not (isinstance(st, ast.Assign) and len(st.targets) == 1 and isinstance(st.targets[0], ast.Name) and isinstance(st.value, ast.Call)):
            return None
        c = st.value
        if not (isinstance(c.func, ast.Attribute) and c.func.attr == "get" and 1 <= len(c.args) <= 2 and not c.keywords):
            return None
        d = tables.resolve(c.func.value, local) if isinstance(c.func.value, (ast.Name, ast.Attribute)) else c.func.value
        if not (isinstance(d, ast.Dict) and d.keys and len(d.keys) <= MAX_ROWS and all(k is not None and _simple(k) for k in d.keys) and all(_pure(v) for v in d.values)):
            return None
        default = c.args[1] if len(c.args) == 2 else ast.Constant(value=None)
        if not _pure(default):
            return None
        pre = []
        key = c.args[0]
        if not _simple(key):
            counter[0] += 1
            kname = "key__d%d" % counter[0]
            pre = [ast.copy_location(ast.Assign(targets=[ast.Name(id=kname, ctx=ast.Store())], value=key), st)]
            key = ast.copy_location(ast.Name(id=kname, ctx=ast.Load()), key)

        def asg(v):
            return ast.copy_location(ast.Assign(targets=[copy_tree(st.targets[0])], value=copy_tree(v)), st)
        node = [asg(default)]
        for k, v in reversed(list(zip(d.keys, d.values))):
            test = ast.Compare(left=copy_tree(key), ops=[ast.Eq()], comparators=[copy_tree(k)])
            node = [ast.copy_location(ast.If(test=test, body=[asg(v)], orelse=node), st)]
        for x in pre + node:
            ast.fix_missing_locations(x)
        changed[0] = True
        return pre + node

    def block(stmts, local):
        i = 0
        while i < len(stmts):
            st = stmts[i]
            if isinstance(st, (ast.FunctionDef, ast.AsyncFunctionDef)):
                block(st.body, _LazyLocal(st))
                i += 1
                continue
            r = rewrite(st, local)
            if r is not None:
                stmts[i:i + 1] = r
                i += len(r)
                continue
            for fld in ("body", "orelse", "finalbody"):
                sub = getattr(st, fld, None)
                if isinstance(sub, list) and sub and isinstance(sub[0], ast.stmt):
                    block(sub, local)
            for h in getattr(st, "handlers", []) or []:
                block(h.body, local)
            i += 1
    block(tree.body, {})
    return changed[0]


def _next_dispatch(tree, tables):
    """x = next((E for <targets> in TABLE if C), D)  with TABLE a constant table   ->   if C[row 1]: x = E[row 1] elif C[row 2]: … else: x = D
    (first matching row wins, as the generator would have it; without a default the else branch raises StopIteration as next() does)"""
    changed = [False]

    def rewrite(st, local):
        if not (isinstance(st, (ast.Assign, ast.Return)) and isinstance(st.value, ast.Call) and isinstance(st.value.func, ast.Name) and st.value.func.id == "next"
                and 1 <= len(st.value.args) <= 2 and not st.value.keywords and isinstance(st.value.args[0], ast.GeneratorExp)):
            return None
        if isinstance(st, ast.Assign) and not (len(st.targets) == 1 and (isinstance(st.targets[0], ast.Name) or (
                isinstance(st.targets[0], ast.Tuple) and all(isinstance(t, ast.Name) for t in st.targets[0].elts)))):
            return None
        g = st.value.args[0]
        if len(g.generators) != 1 or g.generators[0].is_async:
            return None
        comp = g.generators[0]
        rows = tables.rows(comp.iter, local)
        if rows is None:
            return None
        binds = []
        for r in rows:
            m = {}
            if not tables.bind(comp.target, r, local, m):
                return None
            binds.append(m)
        default = st.value.args[1] if len(st.value.args) == 2 else None
        if default is not None and not _pure(default):
            return None

        def out(v):
            if isinstance(st, ast.Return):
                return ast.copy_location(ast.Return(value=v), st)
            return ast.copy_location(ast.Assign(targets=[copy_tree(st.targets[0])], value=v), st)
        if default is None:
            node = [ast.copy_location(ast.Raise(exc=ast.Call(func=ast.Name(id="StopIteration", ctx=ast.Load()), args=[], keywords=[]), cause=None), st)]
        else:
            node = [out(copy_tree(default))]
        for m in reversed(binds):
            conds = [_Sub(m).visit(copy_tree(c)) for c in comp.ifs]
            val = _Sub(m).visit(copy_tree(g.elt))
            if not conds:
                node = [out(val)]
                continue
            test = conds[0] if len(conds) == 1 else ast.BoolOp(op=ast.And(), values=conds)
            node = [ast.copy_location(ast.If(test=test, body=[out(val)], orelse=node), st)]
        ast.fix_missing_locations(node[0])
        changed[0] = True
        return node[0]

    def block(stmts, local):
        for i, st in enumerate(stmts):
            if isinstance(st, (ast.FunctionDef, ast.AsyncFunctionDef)):
                block(st.body, _LazyLocal(st))
                continue
            r = rewrite(st, local)
            if r is not None:
                stmts[i] = r
                continue
            for fld in ("body", "orelse", "finalbody"):
                sub = getattr(st, fld, None)
                if isinstance(sub, list) and sub and isinstance(sub[0], ast.stmt):
                    block(sub, local)
            for h in getattr(st, "handlers", []) or []:
                block(h.body, local)
    block(tree.body, {})
    return changed[0]


def _as_lambda(v):
    """a Lambda, or the lambda an operator helper with constant arguments stands for:
       attrgetter("a.b") -> lambda o: o.a.b     itemgetter(k) -> lambda o: o[k]     methodcaller("m", x) -> lambda o: o.m(x)"""
    if isinstance(v, ast.Lambda):
        return v
    if not (isinstance(v, ast.Call) and not v.keywords):
        return None
    fn = v.func.attr if isinstance(v.func, ast.Attribute) else (v.func.id if isinstance(v.func, ast.Name) else None)
    o = ast.Name(id="o__op", ctx=ast.Load())
    args = ast.arguments(posonlyargs=[], args=[ast.arg(arg="o__op")], kwonlyargs=[], kw_defaults=[], defaults=[])
    if fn == "attrgetter" and len(v.args) == 1 and isinstance(v.args[0], ast.Constant) and isinstance(v.args[0].value, str) \
            and all(p.isidentifier() for p in v.args[0].value.split(".")):
        body = o
        for part in v.args[0].value.split("."):
            body = ast.Attribute(value=body, attr=part, ctx=ast.Load())
        return ast.fix_missing_locations(ast.copy_location(ast.Lambda(args=args, body=body), v))
    if fn == "itemgetter" and len(v.args) == 1 and _simple(v.args[0]):
        return ast.fix_missing_locations(ast.copy_location(ast.Lambda(args=args, body=ast.Subscript(value=o, slice=v.args[0], ctx=ast.Load())), v))
    if fn == "methodcaller" and v.args and isinstance(v.args[0], ast.Constant) and isinstance(v.args[0].value, str) and v.args[0].value.isidentifier() \
            and all(_simple(a) for a in v.args[1:]):
        call = ast.Call(func=ast.Attribute(value=o, attr=v.args[0].value, ctx=ast.Load()), args=list(v.args[1:]), keywords=[])
        return ast.fix_missing_locations(ast.copy_location(ast.Lambda(args=args, body=call), v))
    return None


def _is_partial(v):
    if not isinstance(v, ast.Call) or not v.args:
        return False
    fn = v.func.attr if isinstance(v.func, ast.Attribute) else (v.func.id if isinstance(v.func, ast.Name) else None)
    def ok(a):
        # plain reads, and live dict views (d.values() called again gives a view of the same dict)
        return _simple(a) or (isinstance(a, ast.Call) and not a.args and not a.keywords and isinstance(a.func, ast.Attribute)
                              and a.func.attr in ("values", "keys", "items") and _simple(a.func.value))
    return fn == "partial" and _simple(v.args[0]) and all(ok(a) for a in v.args[1:]) and all(k.arg is not None and _simple(k.value) for k in v.keywords)


def _apply_local_lambdas(tree):
    """f = lambda a: E   (a local bound once, only ever called)   …   f(x)   ->   E[a:=x]"""
    changed = False
    for fn in ast.walk(tree):
        if not isinstance(fn, (ast.FunctionDef, ast.AsyncFunctionDef)):
            continue
        lam = {}
        stores = {}
        for x in ast.walk(fn):
            if isinstance(x, ast.Name) and isinstance(x.ctx, (ast.Store, ast.Del)):
                stores[x.id] = stores.get(x.id, 0) + 1
        for st in ast.walk(fn):
            if isinstance(st, ast.Assign) and len(st.targets) == 1 and isinstance(st.targets[0], ast.Name) and stores.get(st.targets[0].id) == 1:
                v = _as_lambda(st.value)
                if v is not None:
                    a = v.args
                    if not (a.vararg or a.kwarg or a.kwonlyargs or a.defaults or a.posonlyargs):
                        lam[st.targets[0].id] = v
                elif _is_partial(st.value):
                    lam[st.targets[0].id] = st.value  # functools.partial(f, a…): applied by appending the call's arguments
                elif isinstance(st.value, ast.Attribute) and _simple(st.value) and isinstance(st.value.value, ast.Name) \
                        and stores.get(st.value.value.id, 0) <= 1 and (st.value.attr in ("append", "add", "extend", "update", "remove", "discard", "pop", "popleft",
                                                                                          "appendleft", "insert", "setdefault", "get", "write")
                                                                       or st.value.attr in METHOD_NAMES):
                    lam[st.targets[0].id] = st.value  # keep = kept.append … keep(x): a bound method of a container held in a local
        if not lam:
            continue
        # only when every use of the name is a call of it
        calls = {id(c.func) for c in ast.walk(fn) if isinstance(c, ast.Call) and isinstance(c.func, ast.Name) and c.func.id in lam}
        for nm in list(lam):
            if any(isinstance(x, ast.Name) and x.id == nm and isinstance(x.ctx, ast.Load) and id(x) not in calls for x in ast.walk(fn)):
                del lam[nm]
        if not lam:
            continue

        class T(ast.NodeTransformer):
            def visit_Call(self, n):
                self.generic_visit(n)
                if isinstance(n.func, ast.Name) and n.func.id in lam:
                    v = lam[n.func.id]
                    if isinstance(v, ast.Lambda):
                        if not n.keywords and len(n.args) == len(v.args.args):
                            n.func = ast.copy_location(copy_tree(v), n.func)
                    elif isinstance(v, ast.Attribute):
                        n.func = ast.copy_location(copy_tree(v), n.func)
                    else:
                        # partial(f, a, k=v)(b, …)  ->  f(a, b, …, k=v)
                        return ast.copy_location(ast.Call(func=copy_tree(v.args[0]), args=[copy_tree(x) for x in v.args[1:]] + list(n.args),
                                                          keywords=[copy_tree(k) for k in v.keywords] + list(n.keywords)), n)
                return n
        T().visit(fn)
        changed = True
    return changed


def _split_ifexp_assign(tree):
    def block(stmts):
        for i, st in enumerate(stmts):
            if isinstance(st, ast.Assign) and len(st.targets) == 1 and isinstance(st.value, ast.IfExp):
                a = ast.copy_location(ast.Assign(targets=[st.targets[0]], value=st.value.body), st)
                b = ast.copy_location(ast.Assign(targets=[copy_tree(st.targets[0])], value=st.value.orelse), st)
                stmts[i] = ast.copy_location(ast.If(test=st.value.test, body=[a], orelse=[b]), st)
                continue
            for fld in ("body", "orelse", "finalbody"):
                sub = getattr(st, fld, None)
                if isinstance(sub, list) and sub and isinstance(sub[0], ast.stmt) and not isinstance(st, ast.ClassDef):
                    block(sub)
            for h in getattr(st, "handlers", []) or []:
                block(h.body)
            if isinstance(st, ast.ClassDef):
                for x in st.body:
                    if isinstance(x, (ast.FunctionDef, ast.AsyncFunctionDef)):
                        block(x.body)
    for st in tree.body:
        if isinstance(st, (ast.FunctionDef, ast.AsyncFunctionDef)):
            block(st.body)
        elif isinstance(st, ast.ClassDef):
            block([st])


def _const_truth(e):
    """True / False when the test is decided by literals alone: `<literal> is [not] None`, a literal, `not <such>`; else None"""
    if isinstance(e, ast.Constant):
        return bool(e.value)
    if isinstance(e, (ast.Tuple, ast.List, ast.Dict)) and not isinstance(getattr(e, "ctx", None), ast.Store):
        return bool(e.elts) if not isinstance(e, ast.Dict) else bool(e.keys)
    if isinstance(e, ast.UnaryOp) and isinstance(e.op, ast.Not):
        t = _const_truth(e.operand)
        return None if t is None else (not t)
    if isinstance(e, ast.Compare) and len(e.ops) == 1 and isinstance(e.ops[0], (ast.Is, ast.IsNot)) and isinstance(e.comparators[0], ast.Constant) \
            and e.comparators[0].value is None and isinstance(e.left, (ast.Constant, ast.Tuple, ast.List, ast.Dict)):
        is_none = isinstance(e.left, ast.Constant) and e.left.value is None
        return is_none if isinstance(e.ops[0], ast.Is) else not is_none
    return None


def _side_effect_free(e):
    return all(isinstance(x, (ast.Name, ast.Attribute, ast.Constant, ast.Compare, ast.BoolOp, ast.UnaryOp, ast.Load, ast.cmpop, ast.boolop, ast.unaryop,
                              ast.Subscript, ast.Tuple)) for x in ast.walk(e))


def _fold_constant_tests(stmts):
    """if <literal> is [not] None: A else: B  ->  A or B   (left behind when a constant is substituted for a name)"""
    out = []
    for st in stmts:
        for fld in ("body", "orelse", "finalbody"):
            sub = getattr(st, fld, None)
            if isinstance(sub, list) and sub and isinstance(sub[0], ast.stmt) and not isinstance(st, (ast.FunctionDef, ast.AsyncFunctionDef, ast.ClassDef)):
                setattr(st, fld, _fold_constant_tests(sub) or [ast.copy_location(ast.Pass(), st)])
        truth = _const_truth(st.test) if isinstance(st, ast.If) else None
        if isinstance(st, ast.If) and truth is None and isinstance(st.test, ast.BoolOp):
            # literal operands of and / or: dropped when neutral, decisive otherwise (only ahead of the first non-literal operand,
            # or when every later operand is side-effect free — names, attributes, comparisons of those)
            vals = list(st.test.values)
            is_and = isinstance(st.test.op, ast.And)
            kept = []
            decided = None
            for v in vals:
                tv = _const_truth(v)
                if tv is None:
                    kept.append(v)
                elif tv is (not is_and):
                    if not kept or all(_side_effect_free(k) for k in kept):
                        decided = tv
                        break
                    kept.append(v)
                # a neutral literal (True in `and`, False in `or`) is dropped
            if decided is not None:
                truth = decided
            elif len(kept) < len(vals):
                if not kept:
                    truth = is_and
                else:
                    st.test = kept[0] if len(kept) == 1 else ast.copy_location(ast.BoolOp(op=st.test.op, values=kept), st.test)
        if isinstance(st, ast.If) and truth is not None:
            out.extend(st.body if truth else st.orelse)
            if out and isinstance(out[-1], (ast.Return, ast.Raise, ast.Continue, ast.Break)):
                return out  # what followed the folded test in this block can no longer be reached
            continue
        out.append(st)
    return out


class _Choice(ast.NodeTransformer):
    """a callee picked by a conditional expression becomes a conditional statement:
         (f if c else g)(a…)                 ->  if c: f(a…) else: g(a…)           (statement, assignment or return)
         h = f if c else g; h(a…)            ->  the same, when h is used for nothing else"""

    def _split(self, st):
        v = st.value if isinstance(st, (ast.Expr, ast.Assign, ast.Return)) else None
        if isinstance(v, ast.Call) and isinstance(v.func, ast.IfExp):
            out = []
            for pick in (v.func.body, v.func.orelse):
                c = copy_tree(st)
                c.value.func = copy_tree(pick)
                out.append(c)
            return ast.copy_location(ast.If(test=v.func.test, body=[out[0]], orelse=[out[1]]), st)
        return None

    def _block(self, stmts, scope):
        out = []
        i = 0
        while i < len(stmts):
            st = stmts[i]
            if isinstance(st, ast.Assign) and len(st.targets) == 1 and isinstance(st.targets[0], ast.Name) and isinstance(st.value, ast.IfExp) \
                    and i + 1 < len(stmts) and scope is not None:
                nm = st.targets[0].id
                nxt = stmts[i + 1]
                uses = [x for x in ast.walk(scope) if isinstance(x, ast.Name) and x.id == nm]
                v = nxt.value if isinstance(nxt, (ast.Expr, ast.Assign, ast.Return)) else None
                if len(uses) == 2 and isinstance(v, ast.Call) and isinstance(v.func, ast.Name) and v.func.id == nm and all(_pure(p) for p in (st.value.body, st.value.orelse)):
                    c = copy_tree(nxt)
                    c.value.func = ast.copy_location(copy_tree(st.value), v.func)
                    ast.copy_location(c, nxt)
                    out.append(self._split(c))
                    i += 2
                    continue
            r = self._split(st)
            out.append(r if r is not None else st)
            i += 1
        return out

    def generic_visit(self, node, scope=None):
        if isinstance(node, (ast.FunctionDef, ast.AsyncFunctionDef)):
            scope = node
        for field, old in ast.iter_fields(node):
            if isinstance(old, list) and old and isinstance(old[0], ast.stmt):
                new = self._block(old, scope)
                setattr(node, field, new)
                for x in new:
                    self.generic_visit(x, scope)
            elif isinstance(old, list):
                for x in old:
                    if isinstance(x, ast.ExceptHandler) or x.__class__.__name__ == "match_case":
                        self.generic_visit(x, scope)
        return node

    def visit(self, node):
        return self.generic_visit(node)



# ------------------------------------------------------------------------------------------------------------------------------
# specialisation of a continuation on constants picked by a branch (used on inlined views, see inline.inlined_view)
METHOD_NAMES = set()  # names of plain (non-property) functions and methods seen anywhere in the program: filled by the loader's pre-scan


def _stable(v, assigned):
    """the value does not depend on when it is read: literals, functions, classes, bound methods — not object fields (`e.definition`
    reads differently after `d.remove_cable(e)`)"""
    if isinstance(v, ast.Constant) or isinstance(v, ast.Lambda):
        return True
    if isinstance(v, (ast.Tuple, ast.List)):
        return all(_stable(x, assigned) for x in v.elts)
    if isinstance(v, ast.Dict):
        return all(k is not None and _stable(k, assigned) for k in v.keys) and all(_stable(x, assigned) for x in v.values)
    if isinstance(v, ast.Call):
        return _pure(v)  # re.compile(<constant>)
    if isinstance(v, ast.Name):
        return v.id not in assigned
    if isinstance(v, ast.Attribute):
        root = v
        while isinstance(root, ast.Attribute):
            root = root.value
        if not isinstance(root, ast.Name) or root.id in assigned:
            return False
        return root.id[:1].isupper() or v.attr in METHOD_NAMES or v.attr[:1].isupper()  # Class.x, obj.method, module.Class / module.CONSTANT
    return False


def _const_binding(st, out, assigned=None):
    """`n = <constant>` / `a, b = ("x", "y")`: adds name -> constant expression to out; False when st is not of that kind"""
    if not (isinstance(st, ast.Assign) and len(st.targets) == 1):
        return False
    t, v = st.targets[0], st.value
    if isinstance(t, ast.Name) and not isinstance(v, ast.Lambda) and _as_lambda(v) is not None:
        out[t.id] = _as_lambda(v)  # methodcaller("add_cable", e) and the like: the function it stands for
        return True
    ok = (lambda x: _pure(x) and _stable(x, assigned)) if assigned is not None else _pure
    if isinstance(t, ast.Name) and ok(v) and (not isinstance(v, ast.Name) or (v.id in METHOD_NAMES and v.id not in (assigned or ()))):
        out[t.id] = v
        return True
    if isinstance(t, (ast.Tuple, ast.List)) and isinstance(v, (ast.Tuple, ast.List)) and len(t.elts) == len(v.elts) \
            and all(isinstance(x, ast.Name) for x in t.elts) and all(ok(x) for x in v.elts):
        for x, y in zip(t.elts, v.elts):
            out[x.id] = y
        return True
    return False


def _leaves(st):
    """the branches of an if / elif / else tree: [(statement list, owner node, field)]"""
    out = []
    for fld in ("body", "orelse"):
        blk = getattr(st, fld)
        if len(blk) == 1 and isinstance(blk[0], ast.If) and fld == "orelse":
            out.extend(_leaves(blk[0]))
        elif blk and isinstance(blk[-1], ast.If) and all(_const_binding(x, {}) for x in blk[:-1]) and False:
            out.extend(_leaves(blk[-1]))
        else:
            out.append((blk, st, fld))
    return out


def _strategy(m, st):
    """the constants bound are parameters of behaviour rather than plain data: a row of a table unpacked into several names, a
    compiled pattern, a function"""
    vals = list(m.values())
    if any(isinstance(v, ast.Lambda) or (isinstance(v, ast.Call) and isinstance(v.func, ast.Attribute) and v.func.attr == "compile") for v in vals):
        return True
    return len(vals) >= 3  # a table row spread over three or more names


def _has_row_binding(stmts):
    for s_ in stmts:
        for x in ast.walk(s_):
            if isinstance(x, ast.Assign) and len(x.targets) == 1 and isinstance(x.targets[0], ast.Tuple) and len(x.targets[0].elts) >= 3 \
                    and isinstance(x.value, (ast.Tuple, ast.List)) and len(x.value.elts) == len(x.targets[0].elts):
                return True
    return False


def _reflective_use(stmts, names):
    """a name (one of `names`; any name when names is None) is used as the attribute name of getattr/setattr/hasattr — or, for given
    names, as the callee"""
    if names is not None:
        # names unpacked from the given ones count too:  method_name, kwargs = statement
        names = set(names)
        grew = True
        while grew:
            grew = False
            for s_ in stmts:
                for x in ast.walk(s_):
                    if isinstance(x, ast.Assign) and len(x.targets) == 1 and isinstance(x.value, ast.Name) and x.value.id in names:
                        for t in ast.walk(x.targets[0]):
                            if isinstance(t, ast.Name) and t.id not in names:
                                names.add(t.id)
                                grew = True
    for s_ in stmts:
        for x in ast.walk(s_):
            if isinstance(x, ast.Call):
                if isinstance(x.func, ast.Name) and x.func.id in ("getattr", "setattr", "hasattr") and len(x.args) >= 2 \
                        and isinstance(x.args[1], ast.Name) and (names is None or x.args[1].id in names):
                    return True
                if names is not None and isinstance(x.func, ast.Name) and x.func.id in names:
                    return True
    if names is None:
        # a local that is called: f = <one of several functions>; f(…)
        stored = {x.id for s_ in stmts for x in ast.walk(s_) if isinstance(x, ast.Name) and isinstance(x.ctx, ast.Store)}
        return any(isinstance(x, ast.Call) and isinstance(x.func, ast.Name) and x.func.id in stored for s_ in stmts for x in ast.walk(s_))
    return False


def specialise(stmts, depth=0, assigned=None):
    """if c: n = "a" else: n = "b"; REST   ->   if c: n = "a"; REST[n:="a"] else: n = "b"; REST[n:="b"]
    when every branch that falls through does nothing but bind the same names to constants, REST does not rebind them and uses one
    of them reflectively (getattr(x, n), n(…)).  A branch that cannot fall through (return / raise, or an unpacking that must fail)
    keeps its statements and gets no continuation.  Returns the new statement list (the input is not modified in place)."""
    out = []
    for i, st in enumerate(stmts):
        for fld in ("body", "orelse", "finalbody"):
            sub = getattr(st, fld, None)
            if isinstance(sub, list) and sub and isinstance(sub[0], ast.stmt) and not isinstance(st, (ast.FunctionDef, ast.AsyncFunctionDef, ast.ClassDef)):
                setattr(st, fld, specialise(sub, depth, assigned))
        rest = stmts[i + 1:]
        m0 = {}
        if assigned is None:
            assigned = {x.id for s_ in stmts for x in ast.walk(s_) if isinstance(x, ast.Name) and not isinstance(x.ctx, ast.Load)}
        if rest and _const_binding(st, m0, assigned - {t_.id for t_ in ast.walk(st.targets[0]) if isinstance(t_, ast.Name)} if isinstance(st, ast.Assign) else assigned) and depth < 6:
            # n = "name" … getattr(x, n): the constant is read where the name was (the name is not rebound further down)
            names0 = set(m0)
            rebound = any(isinstance(x, ast.Name) and x.id in names0 and not isinstance(x.ctx, ast.Load) for s_ in rest for x in ast.walk(s_))
            captured = any(isinstance(x, (ast.FunctionDef, ast.Lambda)) and any(isinstance(z, ast.Name) and z.id in names0 for z in ast.walk(x))
                           for s_ in rest for x in ast.walk(s_))
            dicts = {k for k, v in m0.items() if isinstance(v, ast.Dict)}
            star_only = True
            if dicts:
                star = {id(kw.value) for s_ in rest for c_ in ast.walk(s_) if isinstance(c_, ast.Call) for kw in c_.keywords if kw.arg is None}
                star_only = all(id(x) in star for s_ in rest for x in ast.walk(s_) if isinstance(x, ast.Name) and x.id in dicts)
            if not rebound and not captured and star_only and (_reflective_use(rest, names0) or _strategy(m0, st)):
                cont = [_Fold().visit(_Sub(m0).visit(copy_tree(s_))) for s_ in rest]
                for s_ in cont:
                    ast.fix_missing_locations(s_)
                out.append(st)
                out.extend(specialise(cont, depth + 1, assigned))
                return out
        if isinstance(st, ast.If) and rest and depth < 3:
            leaves = _leaves(st)
            if not st.orelse:
                leaves = None  # the implicit else falls through binding nothing
            binds = []
            ok = leaves is not None
            for blk, owner, fld in (leaves or []):
                if not ok:
                    break
                if blk and isinstance(blk[-1], (ast.Return, ast.Raise, ast.Continue, ast.Break)):
                    binds.append(None)
                    continue
                m = {}
                if not blk:
                    ok = False
                    break
                for x in blk:
                    if not _const_binding(x, m, assigned - {t_.id for t_ in ast.walk(x) if isinstance(t_, ast.Name) and isinstance(t_.ctx, ast.Store)}):
                        # `a, b = None` cannot succeed: the branch does not fall through
                        if isinstance(x, ast.Assign) and isinstance(x.targets[0], (ast.Tuple, ast.List)) and isinstance(x.value, ast.Constant) and len(blk) == 1:
                            m = None
                            break
                        # any other statement: allowed as long as it does not touch the names the branch binds to constants
                        # (checked below, once those names are known)
                if m is not None:
                    stored_elsewhere = {n_.id for x in blk if not _const_binding(x, {}, assigned - {t_.id for t_ in ast.walk(x) if isinstance(t_, ast.Name) and isinstance(t_.ctx, ast.Store)})
                                        for n_ in ast.walk(x) if isinstance(n_, ast.Name) and not isinstance(n_.ctx, ast.Load)}
                    m = {k_: v_ for k_, v_ in m.items() if k_ not in stored_elsewhere}
                    # a lambda that reads a local the branch assigns must see that value: only constants and the branch's own plain locals
                binds.append(m)
            live = [m for m in binds if m]
            if ok and live and len(live) == len([m for m in binds if m is not None]):
                common = set(live[0])
                for m in live[1:]:
                    common &= set(m)
                binds = [({k_: v_ for k_, v_ in m.items() if k_ in common} if m else m) for m in binds]
                live = [m for m in binds if m]
            falling = [m for m in binds if m is not None]
            if ok and live and len(live) == len(falling) and all(set(m) == set(live[0]) for m in live) and live[0]:
                names = set(live[0])
                rebound = any(isinstance(x, ast.Name) and x.id in names and not isinstance(x.ctx, ast.Load) for s_ in rest for x in ast.walk(s_))
                captured = any(isinstance(x, (ast.FunctionDef, ast.Lambda)) and any(isinstance(z, ast.Name) and z.id in names for z in ast.walk(x))
                               for s_ in rest for x in ast.walk(s_))
                strategic = all(_strategy(m, None) for m in live)
                if not rebound and not captured and (_reflective_use(rest, names) or strategic) and _count(rest) * len(live) <= MAX_STMTS:
                    for (blk, owner, fld), m in zip(leaves, binds):
                        if m:
                            cont = [_Sub(m).visit(copy_tree(s_)) for s_ in rest]
                            cont = [_Fold().visit(s_) for s_ in cont]
                            for s_ in cont:
                                ast.fix_missing_locations(s_)
                            getattr(owner, fld).extend(specialise(cont, depth + 1, assigned))
                    out.append(st)
                    return out
        out.append(st)
    return out
