"""Statement-level control-flow graph for the statement kinds this repository uses,
plus a generic forward dataflow solver (may / must lattices supplied by the rule).

Node kinds
  entry, exit (normal return / fall off the end), raise (exceptional exit)
  stmt    simple statement (Expr, Assign, AugAssign, AnnAssign, Delete, Pass, Import,
          Global, Nonlocal, nested FunctionDef/ClassDef as a definition)
  test    the test expression of an If / While            labels: true, false
  assert  an Assert statement                             labels: true, false(->raise)
  iter    evaluation of a For loop's iterable
  next    a For loop's fetch of the next item             labels: item, done
  with    evaluation of With items
  return  a Return statement
  raisestmt  a Raise statement
  handler entry of an except clause
  join    no-op
Edge label 'exc' = implicit exception out of the node's expression (any evaluating
node may raise); explicit raise / assert-fail edges are labelled 'raise' / 'false'.
`finally` bodies are copied once per continuation that crosses them.
"""
import ast

from .core import AnalysisError


class Node:
    __slots__ = ("id", "kind", "ast", "succ", "pred", "in_finally")

    def __init__(self, nid, kind, node=None):
        self.id = nid
        self.kind = kind
        self.ast = node
        self.succ = []
        self.pred = []
        self.in_finally = False

    def __repr__(self):
        return "<%d %s L%s>" % (self.id, self.kind, getattr(self.ast, "lineno", "-"))


_SIMPLE = (ast.Expr, ast.Assign, ast.AugAssign, ast.AnnAssign, ast.Delete, ast.Pass, ast.Import,
           ast.ImportFrom, ast.Global, ast.Nonlocal, ast.FunctionDef, ast.AsyncFunctionDef, ast.ClassDef)

_CATCH_ALL = {"Exception", "BaseException"}


class CFG:
    def __init__(self, func_node):
        self.func = func_node
        self.nodes = []
        self.entry = self._new("entry")
        self.exit = self._new("exit")
        self.raise_exit = self._new("raise")
        frames = []
        ends = self._block(func_node.body, [(self.entry, "next")], frames)
        for n, lab in ends:
            self._edge(n, self.exit, lab)

    # -- construction -------------------------------------------------------------
    def _new(self, kind, node=None):
        n = Node(len(self.nodes), kind, node)
        self.nodes.append(n)
        return n

    def _edge(self, a, b, label="next"):
        a.succ.append((b, label))
        b.pred.append((a, label))

    def _connect(self, preds, node):
        for p, lab in preds:
            self._edge(p, node, lab)

    def _block(self, stmts, preds, frames):
        for st in stmts:
            if not preds:
                break  # unreachable code after return/raise/break/continue
            preds = self._stmt(st, preds, frames)
        return preds

    _RAISING = (ast.Call, ast.Subscript, ast.BinOp, ast.UnaryOp, ast.Compare, ast.Await, ast.Yield, ast.YieldFrom,
                ast.ListComp, ast.SetComp, ast.DictComp, ast.GeneratorExp, ast.JoinedStr, ast.Starred)

    def _evaluating(self, node, frames):
        """add the implicit-exception edge for a node whose evaluation can raise (a plain `x.a = name`
        or `x = name` cannot)"""
        a = node.ast
        parts = []
        if node.kind == "stmt":
            parts = [a]
        elif node.kind in ("test", "assert"):
            parts = [a.test]
        elif node.kind == "iter":
            parts = [a.iter]
        elif node.kind == "next":
            parts = [a.target, a.iter]
        elif node.kind == "with":
            parts = [i.context_expr for i in a.items]
        elif node.kind == "return":
            parts = [a.value] if a.value is not None else []
        can = node.kind in ("next", "with")
        for p in parts:
            for x in ast.walk(p):
                if isinstance(x, self._RAISING) or (isinstance(x, ast.Attribute) and isinstance(x.ctx, ast.Load)) or isinstance(x, (ast.Import, ast.ImportFrom, ast.Delete)):
                    can = True
        if can:
            self._route_raise(node, "exc", frames)

    def _stmt(self, st, preds, frames):
        if isinstance(st, _SIMPLE):
            n = self._new("stmt", st)
            self._connect(preds, n)
            if not isinstance(st, (ast.Pass, ast.Global, ast.Nonlocal, ast.FunctionDef,
                                   ast.AsyncFunctionDef, ast.ClassDef)):
                self._evaluating(n, frames)
            return [(n, "next")]
        if isinstance(st, ast.Return):
            n = self._new("return", st)
            self._connect(preds, n)
            if st.value is not None:
                self._evaluating(n, frames)
            self._route_jump(n, "return", "return", frames)
            return []
        if isinstance(st, ast.Raise):
            n = self._new("raisestmt", st)
            self._connect(preds, n)
            self._route_raise(n, "raise", frames)
            return []
        if isinstance(st, ast.Assert):
            n = self._new("assert", st)
            self._connect(preds, n)
            self._route_raise(n, "false", frames)
            self._evaluating(n, frames)
            if isinstance(st.test, ast.Constant) and not st.test.value:
                return []  # `assert False`: never continues
            return [(n, "true")]
        if isinstance(st, ast.If):
            t = self._new("test", st)
            self._connect(preds, t)
            self._evaluating(t, frames)
            a = self._block(st.body, [(t, "true")], frames)
            b = self._block(st.orelse, [(t, "false")], frames) if st.orelse else [(t, "false")]
            return a + b
        if isinstance(st, ast.While):
            t = self._new("test", st)
            self._connect(preds, t)
            self._evaluating(t, frames)
            after = self._new("join")
            frames.append(("loop", after, t))
            body_end = self._block(st.body, [(t, "true")], frames)
            frames.pop()
            self._connect(body_end, t)
            const_true = isinstance(st.test, ast.Constant) and bool(st.test.value)
            if not const_true:
                else_end = self._block(st.orelse, [(t, "false")], frames) if st.orelse else [(t, "false")]
                self._connect(else_end, after)
            return [(after, "next")] if after.pred else []
        if isinstance(st, (ast.For, ast.AsyncFor)):
            it = self._new("iter", st)
            self._connect(preds, it)
            self._evaluating(it, frames)
            nx = self._new("next", st)
            self._edge(it, nx)
            self._evaluating(nx, frames)
            after = self._new("join")
            frames.append(("loop", after, nx))
            body_end = self._block(st.body, [(nx, "item")], frames)
            frames.pop()
            self._connect(body_end, nx)
            else_end = self._block(st.orelse, [(nx, "done")], frames) if st.orelse else [(nx, "done")]
            self._connect(else_end, after)
            return [(after, "next")]
        if isinstance(st, (ast.With, ast.AsyncWith)):
            w = self._new("with", st)
            self._connect(preds, w)
            self._evaluating(w, frames)
            return self._block(st.body, [(w, "next")], frames)
        if isinstance(st, ast.Try):
            return self._try(st, preds, frames)
        if isinstance(st, ast.Break):
            n = self._new("stmt", st)
            self._connect(preds, n)
            self._route_jump(n, "break", "break", frames)
            return []
        if isinstance(st, ast.Continue):
            n = self._new("stmt", st)
            self._connect(preds, n)
            self._route_jump(n, "continue", "continue", frames)
            return []
        raise AnalysisError("unsupported statement kind %s at line %s" % (type(st).__name__, getattr(st, "lineno", "?")))

    def _try(self, st, preds, frames):
        if st.finalbody:
            frames.append(("finally", st.finalbody))
        ends = []
        if st.handlers:
            hentries = []
            catch_all = False
            for h in st.handlers:
                hn = self._new("handler", h)
                hentries.append(hn)
                if h.type is None:
                    catch_all = True
                else:
                    names = [h.type] if not isinstance(h.type, ast.Tuple) else h.type.elts
                    for nm in names:
                        if isinstance(nm, ast.Name) and nm.id in _CATCH_ALL:
                            catch_all = True
            frames.append(("try", hentries, catch_all))
            body_end = self._block(st.body, preds, frames)
            frames.pop()
            body_end = self._block(st.orelse, body_end, frames) if st.orelse else body_end
            ends.extend(body_end)
            for hn, h in zip(hentries, st.handlers):
                if hn.pred:
                    ends.extend(self._block(h.body, [(hn, "next")], frames))
        else:
            body_end = self._block(st.body, preds, frames)
            body_end = self._block(st.orelse, body_end, frames) if st.orelse else body_end
            ends.extend(body_end)
        if st.finalbody:
            frames.pop()
            if ends:
                j = self._new("join")
                self._connect(ends, j)
                ends = self._finally_copy(st.finalbody, [(j, "next")], frames)
        return ends

    def _finally_copy(self, body, preds, frames):
        first = len(self.nodes)
        ends = self._block(body, preds, frames)
        for n in self.nodes[first:]:
            n.in_finally = True
        return ends

    def _route_jump(self, node, label, kind, frames):
        """return / break / continue: run every finally between here and the target"""
        preds = [(node, label)]
        i = len(frames) - 1
        while i >= 0:
            fr = frames[i]
            if fr[0] == "finally":
                preds = self._finally_copy(fr[1], preds, frames[:i])
                if not preds:
                    return
            elif fr[0] == "loop" and kind in ("break", "continue"):
                self._connect(preds, fr[1] if kind == "break" else fr[2])
                return
            i -= 1
        if kind != "return":
            raise AnalysisError("break/continue outside loop")
        self._connect(preds, self.exit)

    def _route_raise(self, node, label, frames):
        for t in self._raise_targets(frames, len(frames) - 1):
            self._edge(node, t, label)

    def _raise_targets(self, frames, i):
        """where an exception raised under frames[:i+1] goes; one shared copy of each
        finally body per enclosing frame (not one per raising statement)"""
        if i < 0:
            return [self.raise_exit]
        fr = frames[i]
        cache = self.__dict__.setdefault("_rt_cache", {})
        hit = cache.get(id(fr))
        if hit is not None and hit[0] is fr:
            return hit[1]
        if fr[0] == "try":
            targets = list(fr[1])
            if not fr[2]:
                targets = targets + self._raise_targets(frames, i - 1)
        elif fr[0] == "finally":
            j = self._new("join")
            cache[id(fr)] = (fr, [j])  # a raise inside the finally body itself goes outward
            ends = self._finally_copy(fr[1], [(j, "next")], frames[:i])
            outer = self._raise_targets(frames, i - 1)
            for e, lab in ends:
                for t in outer:
                    self._edge(e, t, lab)
            targets = [j]
        else:
            targets = self._raise_targets(frames, i - 1)
        cache[id(fr)] = (fr, targets)
        return targets

    # -- queries ----------------------------------------------------------------------
    def reachable(self, follow=None):
        seen = {self.entry.id}
        todo = [self.entry]
        while todo:
            n = todo.pop()
            for s, lab in n.succ:
                if follow is not None and not follow(n, s, lab):
                    continue
                if s.id not in seen:
                    seen.add(s.id)
                    todo.append(s)
        return seen


class Branch(dict):
    """labelled out-states of a transfer function: {edge label: state, None: default}"""


def forward(cfg, init, transfer, join, follow=None, max_iter=200000):
    """Generic forward dataflow.
    transfer(node, state) -> state  or  Branch({label: state, None: default state})
    join(a, b) -> state ; states must support ==.
    Returns {node id: in-state} for reachable nodes."""
    state_in = {cfg.entry.id: init}
    work = [cfg.entry]
    inwork = {cfg.entry.id}
    it = 0
    while work:
        it += 1
        if it > max_iter:
            raise AnalysisError("dataflow did not converge")
        n = work.pop(0)
        inwork.discard(n.id)
        out = transfer(n, state_in[n.id])
        for s, lab in n.succ:
            if follow is not None and not follow(n, s, lab):
                continue
            if lab == "exc":
                o = state_in[n.id]  # an implicit exception leaves before the node's effect takes place
            elif isinstance(out, Branch):
                o = out.get(lab, out.get(None))
            else:
                o = out
            if o is None:
                continue
            if s.id in state_in:
                new = join(state_in[s.id], o)
                if new == state_in[s.id]:
                    continue
                state_in[s.id] = new
            else:
                state_in[s.id] = o
            if s.id not in inwork:
                inwork.add(s.id)
                work.append(s)
    return state_in


_cfg_cache = {}


def cfg_of(func_node):
    c = _cfg_cache.get(id(func_node))
    if c is None or c.func is not func_node:
        c = CFG(func_node)
        _cfg_cache[id(func_node)] = c
    return c


def no_exc(n, s, lab):
    return lab != "exc"


# -- evaluation-ordered events of one CFG node ---------------------------------------------

def node_exprs(n):
    """the expressions a CFG node evaluates, in order, with the store targets last"""
    a = n.ast
    k = n.kind
    if k == "stmt":
        if isinstance(a, ast.Expr):
            return [a.value], []
        if isinstance(a, ast.Assign):
            return [a.value], list(a.targets)
        if isinstance(a, ast.AugAssign):
            return [a.value], [a.target]
        if isinstance(a, ast.AnnAssign):
            return ([a.value] if a.value is not None else []), ([a.target] if a.value is not None else [])
        if isinstance(a, ast.Delete):
            return [], list(a.targets)
        return [], []
    if k == "test":
        return [a.test], []
    if k == "assert":
        return [a.test], []
    if k == "iter":
        return [a.iter], []
    if k == "next":
        return [], [a.target]
    if k == "with":
        ex = [i.context_expr for i in a.items]
        tg = [i.optional_vars for i in a.items if i.optional_vars is not None]
        return ex, tg
    if k == "return":
        return ([a.value] if a.value is not None else []), []
    if k == "raisestmt":
        return ([a.exc] if a.exc is not None else []), []
    return [], []


def calls_in_order(expr):
    """Call nodes of an expression in evaluation order (arguments before the call,
    lambda bodies excluded: they do not run here)."""
    out = []

    def rec(e):
        if isinstance(e, ast.Lambda):
            return
        if isinstance(e, ast.Call):
            rec(e.func)
            for a in e.args:
                rec(a)
            for kw in e.keywords:
                rec(kw.value)
            out.append(e)
            return
        for c in ast.iter_child_nodes(e):
            rec(c)

    rec(expr)
    return out
