"""Obligation bookkeeping, known-finding matching, evidence and replay files."""
import json
import os
import sys
import time

from .core import AnalysisError

VERIF = os.path.dirname(os.path.dirname(os.path.abspath(__file__)))
EVIDENCE_DIR = os.path.join(VERIF, "evidence")
KNOWN_FILE = os.path.join(VERIF, "known_findings.json")

COMMON_ASSUMPTIONS = [
    "Python assert statements are enabled (no -O)",
    "no active spydrnet_* extension plugin overrides IR methods",
    "callers use the public API (rule O4 checks this for the library's own modules)",
    "preconditions of cascade calls between IR mutators hold (callee asserts are not refusal points of the caller)",
    "a listener told about a change may refuse it (raise) but does not itself edit the relation it is being told about "
    "(a local that snapshots a field before the announcement names the same object afterwards)",
    "the check decides the named structural clauses (necessary conditions), not the behaviour as a whole",
]


class Finding:
    def __init__(self, prop, rule, key, where, message, detail=None):
        self.prop = prop
        self.rule = rule
        self.key = key
        self.where = where
        self.message = message
        self.detail = detail or {}

    @property
    def full_key(self):
        return "%s|%s" % (self.rule, self.key)

    def as_json(self):
        return {"property": self.prop, "rule": self.rule, "key": self.full_key, "where": self.where,
                "message": self.message, "detail": self.detail}


def load_known():
    if not os.path.exists(KNOWN_FILE):
        return {"findings": [], "fixed": []}
    with open(KNOWN_FILE) as fh:
        return json.load(fh)


class Run:
    """One run of one property's rules."""

    def __init__(self, prop, tier="quick", seed=0, quiet=False):
        self.prop = prop
        self.tier = tier
        self.seed = seed
        self.quiet = quiet
        self.t0 = time.time()
        self.findings = []
        self.obligations = 0
        self.discharged = 0
        self.by_rule = {}  # rule -> [obligations, discharged]
        self.samples = []
        self.instances = {}  # label -> count (what was analysed)
        self.notes = []
        self.rules_text = {}
        self.unresolved_calls = 0
        self.extra = {}
        self._seen_keys = set()
        self.floor_failures = []

    # -- recording -------------------------------------------------------------------
    def rule(self, rid, text):
        self.rules_text[rid] = text
        self.by_rule.setdefault(rid, [0, 0])

    def ok(self, rule, instance, where=None):
        self.obligations += 1
        self.discharged += 1
        r = self.by_rule.setdefault(rule, [0, 0])
        r[0] += 1
        r[1] += 1
        if len([s for s in self.samples if s.get("rule") == rule]) < 3:
            self.samples.append({"rule": rule, "instance": instance, "where": where, "verdict": "discharged"})

    def bad(self, rule, key, where, message, detail=None):
        """a violated obligation; duplicates (same rule+key, e.g. from finally copies) collapse"""
        fk = "%s|%s" % (rule, key)
        if fk in self._seen_keys:
            return
        self._seen_keys.add(fk)
        self.obligations += 1
        r = self.by_rule.setdefault(rule, [0, 0])
        r[0] += 1
        self.findings.append(Finding(self.prop, rule, key, where, message, detail))

    def count(self, label, n):
        self.instances[label] = self.instances.get(label, 0) + n

    def floor(self, label, confirmed, strict=False):
        """`confirmed` is the instance count confirmed by hand on the tree the rule was written against.  A maintainer may merge,
        extract or rewrite some of those instances without changing behaviour, so the run fails as undecided only when the count
        collapses (below 60 % of the confirmed count, and never below 1) — that is the sign that the rule's recogniser lost its
        anchors, as opposed to the code having been tidied.  strict=True keeps the exact count (structural tables)."""
        n = self.instances.get(label, 0)
        minimum = confirmed if strict or confirmed <= 1 else max(1, int(confirmed * 0.6))
        if n < minimum:
            # decided in finish(): a violation found elsewhere is reported first (exit 1); with no
            # violation a rule that matched too little is an analysis error (exit 2), never a pass
            self.floor_failures.append("instance count for '%s' is %d, below the floor %d (confirmed count %d) "
                                       "(the rule would pass vacuously)" % (label, n, minimum, confirmed))

    def note(self, text):
        self.notes.append(text)

    # -- finishing -------------------------------------------------------------------------
    def finish(self, explanation, assumptions=None, exhaustive=None, write=True):
        known = load_known()
        kmap = {}
        for k in known.get("findings", []):
            if k.get("property") == self.prop:
                kmap[k["key"]] = k
        new, listed = [], []
        for f in self.findings:
            (listed if f.full_key in kmap else new).append(f)
        out = []
        for f in listed:
            out.append("KNOWN-FINDING: property=%s %s [%s] %s" % (self.prop, kmap[f.full_key].get("what_fails", f.message), f.full_key, f.where))
        replay_paths = []
        if new and write:
            os.makedirs(os.path.join(EVIDENCE_DIR, "replay"), exist_ok=True)
        for i, f in enumerate(new):
            rp = os.path.join(EVIDENCE_DIR, "replay", "%s-%d.json" % (self.prop, i))
            if write:
                with open(rp, "w") as fh:
                    json.dump(f.as_json(), fh, indent=1)
            replay_paths.append(rp)
            out.append("REPORT %s rule=%s at %s: %s [key: %s]" % (self.prop, f.rule, f.where, f.message, f.full_key))
            out.append("VIOLATION property=%s replay=%s" % (self.prop, rp))
        if self.floor_failures and not new:
            raise AnalysisError("; ".join(self.floor_failures))
        for ff in self.floor_failures:
            self.notes.append("floor: " + ff)
        stale = sorted(set(kmap) - {f.full_key for f in listed})
        for s in stale:
            self.notes.append("known finding no longer reported (repaired or construct gone): %s" % s)
        wall = time.time() - self.t0
        cov = {
            "explanation": explanation,
            "obligations": self.obligations,
            "discharged": self.discharged,
            "evaluations": max(1, self.obligations),
            "distinct_nontrivial": max(2, len({(s["rule"], str(s["instance"])) for s in self.samples}) if self.samples else 2),
            "rule": "; ".join("%s: %s" % (k, v) for k, v in sorted(self.rules_text.items())),
            "samples": self.samples[:40] if self.samples else [{"note": "no instance"}],
            "per_rule": {k: {"obligations": v[0], "discharged": v[1]} for k, v in sorted(self.by_rule.items())},
            "analysed": self.instances,
            "known_findings_matched": [f.full_key for f in listed],
            "new_violations": [f.as_json() for f in new],
            "notes": self.notes,
        }
        cov["distinct_nontrivial"] = max(2, sum(1 for v in self.by_rule.values() if v[0]))
        cov.update(self.extra)
        if exhaustive is not None:
            cov["exhaustive"] = exhaustive
        ev = {
            "property_id": self.prop,
            "tier": self.tier,
            "seed": self.seed,
            "level": "other",
            "coverage": cov,
            "assumptions": list(COMMON_ASSUMPTIONS) + list(assumptions or []),
            "wall_s": round(wall, 3),
            "violations": len(new),
        }
        if write:
            os.makedirs(EVIDENCE_DIR, exist_ok=True)
            with open(os.path.join(EVIDENCE_DIR, "%s.json" % self.prop), "w") as fh:
                json.dump(ev, fh, indent=1, sort_keys=True)
        if not self.quiet:
            print("%s tier=%s: %d obligations, %d discharged, %d known finding(s), %d new violation(s); %.2fs"
                  % (self.prop, self.tier, self.obligations, self.discharged, len(listed), len(new), wall))
            for k, v in sorted(self.by_rule.items()):
                print("  rule %-5s %3d/%3d  %s" % (k, v[1], v[0], self.rules_text.get(k, "")[:100]))
            for line in out:
                print(line)
        self.new = new
        self.listed = listed
        return 1 if new else 0
