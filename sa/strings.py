"""String templates: the constant pieces and the holes of an expression that builds a string, whatever the notation —
f-string, str.format with positional `{}` fields, the % operator with a literal left side, concatenation with str(), "".join of a
literal list.  A rule that asks "does this function put an index between brackets" asks it of the template, not of the spelling."""
import ast
import re

_FIELD = re.compile(r"\{(\d*)(?:![rsa])?(?::[^{}]*)?\}|\{\{|\}\}")
_PCT = re.compile(r"%(?:\(\w+\))?[-#0 +]*\d*(?:\.\d+)?[sdirxXof]|%%")


def template(e):
    """list of pieces, a piece being a str (constant text) or an ast expression (a hole); None when e builds no string the
    function can read"""
    if isinstance(e, ast.Constant) and isinstance(e.value, str):
        return [e.value]
    if isinstance(e, ast.JoinedStr):
        out = []
        for v in e.values:
            if isinstance(v, ast.Constant):
                out.append(str(v.value))
            elif isinstance(v, ast.FormattedValue):
                out.append(v.value)
        return _merge(out)
    if isinstance(e, ast.Call) and isinstance(e.func, ast.Attribute) and e.func.attr == "format" and isinstance(e.func.value, ast.Constant) \
            and isinstance(e.func.value.value, str) and not e.keywords and not any(isinstance(a, ast.Starred) for a in e.args):
        text, out, pos, auto = e.func.value.value, [], 0, 0
        for m in _FIELD.finditer(text):
            out.append(text[pos:m.start()])
            pos = m.end()
            if m.group(0) == "{{":
                out.append("{")
            elif m.group(0) == "}}":
                out.append("}")
            else:
                k = int(m.group(1)) if m.group(1) else auto
                auto += 1
                if k >= len(e.args):
                    return None
                out.append(e.args[k])
        out.append(text[pos:])
        return _merge(out)
    if isinstance(e, ast.BinOp) and isinstance(e.op, ast.Mod) and isinstance(e.left, ast.Constant) and isinstance(e.left.value, str):
        args = list(e.right.elts) if isinstance(e.right, ast.Tuple) else [e.right]
        text, out, pos, k = e.left.value, [], 0, 0
        for m in _PCT.finditer(text):
            out.append(text[pos:m.start()])
            pos = m.end()
            if m.group(0) == "%%":
                out.append("%")
            else:
                if k >= len(args):
                    return None
                out.append(args[k])
                k += 1
        out.append(text[pos:])
        return _merge(out)
    if isinstance(e, ast.BinOp) and isinstance(e.op, ast.Add):
        a, b = template(e.left), template(e.right)
        if a is None and b is None:
            return None
        return _merge((a if a is not None else [e.left]) + (b if b is not None else [e.right]))
    if isinstance(e, ast.Call) and isinstance(e.func, ast.Name) and e.func.id == "str" and len(e.args) == 1 and not e.keywords:
        return [e.args[0]]
    if isinstance(e, ast.Call) and isinstance(e.func, ast.Attribute) and e.func.attr == "join" and isinstance(e.func.value, ast.Constant) \
            and e.func.value.value == "" and len(e.args) == 1 and isinstance(e.args[0], (ast.List, ast.Tuple)):
        out = []
        for x in e.args[0].elts:
            t = template(x)
            out.extend(t if t is not None else [x])
        return _merge(out)
    return None


def _merge(pieces):
    out = []
    for p in pieces:
        if isinstance(p, str):
            if not p:
                continue
            if out and isinstance(out[-1], str):
                out[-1] += p
                continue
        out.append(p)
    return out


def templates_in(node):
    """(expression, template) for every outermost string-building expression under node"""
    out, todo = [], [node]
    while todo:
        n = todo.pop()
        t = template(n) if isinstance(n, ast.expr) and not (isinstance(n, ast.Constant)) else None
        if t is not None and any(not isinstance(p, str) for p in t):
            out.append((n, t))
            todo.extend(p for p in t if not isinstance(p, str))
            continue
        todo.extend(ast.iter_child_nodes(n))
    return out


def bracketed_holes(t, open_="[", close="]"):
    """the holes of template t that sit directly between `open_` and `close`"""
    return [p for i, p in enumerate(t) if not isinstance(p, str) and i and i + 1 < len(t) and isinstance(t[i - 1], str) and t[i - 1].endswith(open_)
            and isinstance(t[i + 1], str) and t[i + 1].startswith(close)]
