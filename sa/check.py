#!/venv/bin/python
"""Driver: /venv/bin/python /verif/sa/check.py <property id> [--tier quick|thorough]
          /venv/bin/python /verif/sa/check.py --replay <replay file>
exit 0 = every claimed clause held (known findings are listed, not failed)
exit 1 = VIOLATION property=<id> replay=<path>
exit 2 = ANALYSIS-ERROR (the analysis could not decide; never a silent pass)"""
import json
import os
import sys
import time
import traceback

sys.path.insert(0, os.path.dirname(os.path.dirname(os.path.abspath(__file__))))

from sa.core import Program, AnalysisError  # noqa: E402
from sa.report import Run  # noqa: E402


class Ctx:
    """shared, lazily built analyses for one program"""

    def __init__(self, P):
        self.P = P
        self._model = None
        self._ts = None

    @property
    def model(self):
        if self._model is None:
            from sa.effects import Model
            self._model = Model(self.P)
        return self._model

    @property
    def typestate(self):
        if self._ts is None:
            from sa.typestate import TypeState
            self._ts = TypeState(self.model)
        return self._ts


def run_property(prop, tier="quick", seed=0, program=None, write=True, quiet=False):
    from sa.rules import load_all
    reg = load_all()
    if prop not in reg:
        raise AnalysisError("no check registered for %s" % prop)
    fn, explanation, assumptions, exhaustive = reg[prop]
    P = program if program is not None else Program()
    ctx = Ctx(P)
    run = Run(prop, tier, seed, quiet=quiet)
    run.extra["files_analysed"] = None
    fn(ctx, run)
    digests = P.digests()
    run.extra["files_analysed"] = {"count": len(digests), "sha256_16": digests if len(digests) <= 120 else None}
    if tier == "thorough" and program is None:
        from sa import selftest
        st = selftest.run_for(prop, seed=seed)
        run.extra["selftest"] = st
        if st.get("failed"):
            raise AnalysisError("rule self-test failed for %s: %s" % (prop, st["failed"][:5]))
    rc = run.finish(explanation, assumptions, exhaustive, write=write)
    return rc, run


def main(argv):
    tier = os.environ.get("VERIF_TIER", "quick")
    seed = int(os.environ.get("VERIF_SEED", "0") or 0)
    args = list(argv)
    prop = None
    replay = None
    nowrite = False
    while args:
        a = args.pop(0)
        if a == "--tier":
            tier = args.pop(0)
        elif a == "--replay":
            replay = args.pop(0)
        elif a == "--no-write":
            nowrite = True  # development runs against a scratch tree: leave evidence/ alone
        else:
            prop = a
    try:
        if replay:
            with open(replay) as fh:
                rec = json.load(fh)
            prop = rec["property"]
            rc, run = run_property(prop, tier="quick", seed=seed, write=False, quiet=True)
            hits = [f for f in run.findings if f.full_key == rec["key"]]
            if hits:
                for f in hits:
                    print("REPLAY %s rule=%s at %s: %s" % (prop, f.rule, f.where, f.message))
                    print(json.dumps(f.detail, indent=1, default=str))
                print("VIOLATION property=%s replay=%s" % (prop, replay))
                return 1
            print("REPLAY %s: the recorded violation [%s] is not reported on the current tree" % (prop, rec["key"]))
            return 0
        if not prop:
            print(__doc__)
            return 2
        rc, run = run_property(prop, tier=tier, seed=seed, write=not nowrite)
        return rc
    except AnalysisError as e:
        print("ANALYSIS-ERROR property=%s %s" % (prop, e))
        return 2
    except Exception:
        print("ANALYSIS-ERROR property=%s internal error" % prop)
        traceback.print_exc()
        return 2


if __name__ == "__main__":
    import signal
    try:
        signal.signal(signal.SIGPIPE, signal.SIG_DFL)
    except (AttributeError, ValueError):
        pass
    sys.exit(main(sys.argv[1:]))
