"""C17 — EDIF export gives every object a legal, case-insensitively unique identifier: I1-I3."""
import ast
import re

from ..core import parent_chain, reaching_assign, AnalysisError, norm, short, walk_local, stale_loop_uses
from ..cfg import cfg_of, forward
from . import register
from ..inline import inlined_view

EN = "spydrnet/composers/edif/edifify_names.py"
NS_EDIF = "spydrnet/plugins/namespace_manager/edif_namespace.py"
DOMAIN = [chr(c) for c in range(0x20, 0x7F)]


class _Unknown(Exception):
    pass


def eval_pred(e, ch, var):
    """evaluate a boolean expression over one character `ch`; `var` is the source text that denotes the character"""
    if isinstance(e, ast.BoolOp):
        vals = [eval_pred(v, ch, var) for v in e.values]
        return all(vals) if isinstance(e.op, ast.And) else any(vals)
    if isinstance(e, ast.UnaryOp) and isinstance(e.op, ast.Not):
        return not eval_pred(e.operand, ch, var)
    if isinstance(e, ast.Call) and isinstance(e.func, ast.Attribute) and norm(e.func.value) == var and not e.args:
        m = e.func.attr
        if m in ("isalnum", "isalpha", "isdigit", "isupper", "islower", "isspace", "isascii", "isidentifier", "isnumeric", "isdecimal", "isprintable"):
            return getattr(ch, m)()
        raise _Unknown(norm(e))
    if isinstance(e, ast.Compare) and len(e.ops) == 1:
        l, r = e.left, e.comparators[0]

        def val(x):
            if norm(x) == var:
                return ch
            if isinstance(x, ast.Constant):
                return x.value
            if isinstance(x, (ast.Set, ast.List, ast.Tuple)) and all(isinstance(y, ast.Constant) for y in x.elts):
                return [y.value for y in x.elts]
            raise _Unknown(norm(x))
        a, b = val(l), val(r)
        op = e.ops[0]
        if isinstance(op, ast.Eq):
            return a == b
        if isinstance(op, ast.NotEq):
            return a != b
        if isinstance(op, ast.In):
            return a in b
        if isinstance(op, ast.NotIn):
            return a not in b
        if isinstance(op, (ast.Is,)):
            return a is b
        if isinstance(op, (ast.IsNot,)):
            return a is not b
    if isinstance(e, ast.Compare) and len(e.ops) == 1 and isinstance(e.comparators[0], ast.Constant) and isinstance(e.comparators[0].value, bool):
        pass
    if isinstance(e, ast.Call) and norm(e.func) in ("re.match", "re.fullmatch", "re.search") and len(e.args) >= 2 and isinstance(e.args[0], ast.Constant) and norm(e.args[1]) == var:
        return bool(getattr(re, norm(e.func).split(".")[1])(e.args[0].value, ch))
    if isinstance(e, ast.Constant):
        return bool(e.value)
    raise _Unknown(norm(e))


def naming_role(P, role):
    """the helper of the EDIF naming code that plays `role`, by its name when it still has it, otherwise by what it does (a private
    helper may be renamed; the public entry points make_valid / is_valid_identifier / is_name_valid may not):
      chars_good   the validity predicate over the characters      chars_fix   the repair that prefixes `&` and replaces characters
      length_good  the length predicate                             length_fix  the truncation to name_length_target
      conflicts_good  the scan over the siblings                    conflicts_fix  the recursive search for a free identifier
      policy_check the classmethod of EdifNamespace that is_name_valid asks"""
    en = P.cls(EN, "EdififyNames")
    names = {"chars_good": "_characters_good", "chars_fix": "_characters_fix", "length_good": "_length_good", "length_fix": "_length_fix",
             "conflicts_good": "_conflicts_good", "conflicts_fix": "_conflicts_fix"}
    if role == "policy_check":
        ec = P.cls("spydrnet/plugins/namespace_manager/edif_namespace.py", "EdifNamespace")
        f = ec.methods.get("_check_" + "EDIF_identifier")
        if f is None:
            inv = ec.methods.get("is_name_valid")
            called = [c.func.attr for c in walk_local(inv.node) if isinstance(c, ast.Call) and isinstance(c.func, ast.Attribute)
                      and norm(c.func.value) in ("cls", "self", ec.name) and c.func.attr in ec.methods] if inv is not None else []
            f = ec.methods[called[0]] if len(set(called)) == 1 else None
        return f
    f = en.methods.get(names[role])
    if f is not None:
        return f

    def src(m):
        return norm(m.node)
    cands = [m for m in en.methods.values() if m.name.startswith("_") and not m.name.startswith("__")]

    def returns_bool(m):
        rs = [r for r in walk_local(m.node) if isinstance(r, ast.Return)]
        return bool(rs) and all(r.value is not None and (isinstance(r.value, (ast.Compare, ast.BoolOp)) or (isinstance(r.value, ast.UnaryOp) and isinstance(r.value.op, ast.Not))
                                                         or (isinstance(r.value, ast.Constant) and isinstance(r.value.value, bool))
                                                         or (isinstance(r.value, ast.Call) and norm(r.value.func) in ("all", "any", "bool"))) for r in rs)

    def recursive(m):
        return any(isinstance(c, ast.Call) and isinstance(c.func, ast.Attribute) and c.func.attr == m.name for c in walk_local(m.node))
    pick = {
        "chars_good": lambda m: returns_bool(m) and "isalnum" in src(m) and len(m.params) == 2,
        "chars_fix": lambda m: not returns_bool(m) and "isalnum" in src(m) and "'&'" in src(m),
        "length_good": lambda m: returns_bool(m) and "name_length_target" in src(m) and "len(" in src(m),
        "length_fix": lambda m: not returns_bool(m) and "name_length_target" in src(m) and any(isinstance(x, ast.Slice) for x in ast.walk(m.node)) and not recursive(m),
        "conflicts_good": lambda m: returns_bool(m) and len(m.params) == 4 and ".lower()" in src(m),
        "conflicts_fix": lambda m: recursive(m) and len(m.params) == 4,
    }[role]
    hit = [m for m in cands if pick(m)]
    return hit[0] if len(hit) == 1 else None


def _lengthens(v):
    """v builds a string out of other strings and literal text (concatenation, f-string, format, %): it can be longer than its parts"""
    from ..strings import template
    t = template(v)
    return t is not None and len(t) >= 2 and any(not isinstance(p, str) for p in t)


def _as_guards(f):
    """view of a predicate in which `return A and B` reads `if not A: return False` / `return B` (and `return A or B` reads
    `if A: return True` / `return B`): one shape for a validity test written as guards or as one boolean expression"""
    from ..core import FuncInfo, copy_tree
    node = copy_tree(f.node)

    def split(st):
        v = st.value
        if isinstance(v, ast.BoolOp) and len(v.values) >= 2:
            first, rest = v.values[0], v.values[1:]
            tail = ast.copy_location(ast.Return(value=rest[0] if len(rest) == 1 else ast.copy_location(ast.BoolOp(op=v.op, values=rest), v)), st)
            if isinstance(v.op, ast.And):
                g = ast.If(test=ast.UnaryOp(op=ast.Not(), operand=first), body=[ast.Return(value=ast.Constant(value=False))], orelse=[])
            else:
                g = ast.If(test=first, body=[ast.Return(value=ast.Constant(value=True))], orelse=[])
            ast.copy_location(g, st)
            ast.fix_missing_locations(g)
            return [g] + split(tail)
        return [st]

    def block(stmts):
        out = []
        for st in stmts:
            for fld in ("body", "orelse"):
                sub = getattr(st, fld, None)
                if isinstance(sub, list) and sub and isinstance(sub[0], ast.stmt) and not isinstance(st, ast.FunctionDef):
                    setattr(st, fld, block(sub))
            if isinstance(st, ast.Return) and st.value is not None:
                out.extend(split(st))
            else:
                out.append(st)
        return out
    node.body = block(node.body)
    for parent in ast.walk(node):
        for child in ast.iter_child_nodes(parent):
            child._parent = parent
    node._parent = getattr(f.node, "_parent", None)
    return FuncInfo(f.name, f.qualname, f.module, f.cls, node, f.role, f.prop)


def writer_classes(f_good):
    """(first-char accept set, body accept set) of the writer's validity predicate over DOMAIN.
    recognised shape: guards of the form `if <pred over identifier[0] or identifier[i]>: return False`"""
    f_good = _as_guards(f_good)
    first_rej, body_rej = [], []
    for n in walk_local(f_good.node):
        if isinstance(n, ast.If) and any(isinstance(s, ast.Return) and isinstance(s.value, ast.Constant) and s.value.value is False for s in n.body):
            t = norm(n.test)
            if "identifier[0]" in t:
                first_rej.append((n.test, "identifier[0]"))
            else:
                m = re.search(r"identifier\[(\w+)\]", t)
                if m:
                    body_rej.append((n.test, "identifier[%s]" % m.group(1)))
                else:
                    # e.g. `for ch in identifier: if not ch.isalnum() ...`
                    for lp in walk_local(f_good.node):
                        if isinstance(lp, ast.For) and norm(lp.iter) == "identifier" and isinstance(lp.target, ast.Name) and lp.target.id in t:
                            body_rej.append((n.test, lp.target.id))
    body_acc = []  # `return all(<pred over ch> for ch in identifier)`: accepted when the predicate holds
    for r in walk_local(f_good.node):
        if isinstance(r, ast.Return) and isinstance(r.value, ast.Call) and norm(r.value.func) == "all" and r.value.args \
                and isinstance(r.value.args[0], (ast.GeneratorExp, ast.ListComp)) and len(r.value.args[0].generators) == 1:
            g = r.value.args[0].generators[0]
            if norm(g.iter).startswith("identifier") and isinstance(g.target, ast.Name) and not g.ifs:
                body_acc.append((r.value.args[0].elt, g.target.id))
            elif isinstance(g.iter, ast.Call) and norm(g.iter.func) == "range" and "len(identifier)" in norm(g.iter) and isinstance(g.target, ast.Name) and not g.ifs:
                body_acc.append((r.value.args[0].elt, "identifier[%s]" % g.target.id))
    if not first_rej and not body_rej and not body_acc:
        raise AnalysisError("I1: cannot recognise the shape of %s" % f_good.qualname)
    try:
        first = {c for c in DOMAIN if not any(eval_pred(t, c, v) for t, v in first_rej)}
        body = {c for c in DOMAIN if not any(eval_pred(t, c, v) for t, v in body_rej) and all(eval_pred(t, c, v) for t, v in body_acc)}
        if body_acc and not first_rej:
            pass
        first = first & body if body_acc else first
    except _Unknown as ex:
        raise AnalysisError("I1: predicate `%s` is outside the character-class evaluator" % ex)
    return first, body


def reader_classes(f_check):
    """(first-char accept set without &, body accept set) of the reader's identifier check"""
    pats = [c.args[0].value for c in walk_local(f_check.node) if isinstance(c, ast.Call) and norm(c.func) in ("re.match", "re.fullmatch")
            and c.args and isinstance(c.args[0], ast.Constant)]
    # the same through a compiled pattern: re.compile(<constant>).match(identifier), or a module-level name bound to one
    for c in walk_local(f_check.node):
        if isinstance(c, ast.Call) and isinstance(c.func, ast.Attribute) and c.func.attr in ("match", "fullmatch"):
            rc = c.func.value
            if isinstance(rc, ast.Name) and rc.id in f_check.module.assigns:
                rc = f_check.module.assigns[rc.id]
            if isinstance(rc, ast.Call) and norm(rc.func) == "re.compile" and rc.args and isinstance(rc.args[0], ast.Constant):
                pats.append(rc.args[0].value)
    plain = [p for p in pats if "&" not in p]
    amp = [p for p in pats if "&" in p]
    if not plain or not amp:
        raise AnalysisError("I1: cannot find the reader's identifier regular expressions")
    # per position: what the pattern lets through as the first character, and as a later one behind a first character it accepts
    first = {c for c in DOMAIN if re.match(plain[0], c)}
    lead = sorted(first)[0] if first else None
    body = {c for c in DOMAIN if lead is not None and re.match(plain[0], lead + c)}
    body_amp = {c for c in DOMAIN if re.match(amp[0], "&" + c)}
    for n in walk_local(f_check.node):
        if isinstance(n, ast.If) and "identifier[0]" in norm(n.test) and any(isinstance(s, ast.Return) and isinstance(s.value, ast.Constant) and s.value.value is False for s in n.body):
            t = n.test
            # `identifier[0].isalpha() is False` -> reject when not alpha
            if isinstance(t, ast.Compare) and isinstance(t.comparators[0], ast.Constant) and t.comparators[0].value is False:
                first = {c for c in first if eval_pred(t.left, c, "identifier[0]")}
            else:
                first = {c for c in first if not eval_pred(t, c, "identifier[0]")}
    lens = sorted({c.value for n in walk_local(f_check.node) for c in ast.walk(n) if isinstance(c, ast.Constant) and isinstance(c.value, int) and c.value > 100})
    return first, body, body_amp, lens


@register("C17",
          "Static analysis of EdififyNames against the reader's identifier rule: I1 the writer's validity predicate and its repair are "
          "evaluated abstractly over the printable-ASCII domain (isalnum/isalpha/comparisons/boolean structure) and the reader's character "
          "class is read from its regular expressions — accept(writer) must be included in accept(reader) for the first and the body "
          "characters, and the repair's replacement character must be accepted; I2 the writer's length bound is within the reader's, and "
          "every path of the conflict repair that lengthens the identifier re-applies the length repair before recursing or returning; "
          "I3 the conflict test compares case-folded values on both sides and scans every sibling (no break / early exit). Decides "
          "legality of the character set, the bound and the folding; termination/uniqueness of the _sdn_N_ search is not decided.")
def check_c17(ctx, R):
    P = ctx.P
    en = P.cls(EN, "EdififyNames")
    ec = P.cls(NS_EDIF, "EdifNamespace")
    good = naming_role(P, "chars_good")
    fix = naming_role(P, "chars_fix")
    chk = naming_role(P, "policy_check")
    if None in (good, fix, chk):
        raise AnalysisError("anchor vanished: _characters_good / _characters_fix / _check_EDIF_identifier")
    R.rule("I1", "character-class inclusion: what the writer accepts or produces, the reader accepts")
    wf, wb = writer_classes(good)
    rf, rb, rba, lens = reader_classes(chk)
    R.count("characters evaluated (I1)", len(DOMAIN))
    R.floor("characters evaluated (I1)", 90)
    extra_b = sorted(wb - rb)
    extra_f = sorted(wf - rf)
    if extra_b:
        R.bad("I1", "%s|body|%s" % (good.key, "".join(extra_b)), good.loc(),
              "_characters_good accepts %r inside an identifier, the reader's class does not: a name containing it is written unrepaired and the file is rejected on read" % "".join(extra_b))
    else:
        R.ok("I1", "writer body class (%d chars) within reader body class (%d chars)" % (len(wb), len(rb)), good.loc())
    if extra_f:
        R.bad("I1", "%s|first|%s" % (good.key, "".join(extra_f)), good.loc(), "_characters_good accepts %r as a first character, the reader does not" % "".join(extra_f))
    else:
        R.ok("I1", "writer first-char class within reader first-char class", good.loc())
    # the repair: replacement character and prefix
    repl = None
    keep_pred = None
    for n in walk_local(fix.node):
        mm = re.search(r"identifier\[(\w+)\]", norm(n.test)) if isinstance(n, ast.If) else None
        if isinstance(n, ast.If) and isinstance(n.test, ast.UnaryOp) and isinstance(n.test.op, ast.Not) and mm and mm.group(1) != "0":
            keep_pred = n.test.operand
            keep_var = "identifier[%s]" % mm.group(1)
            for a in ast.walk(n):
                if isinstance(a, ast.Assign) and isinstance(a.value, ast.BinOp):
                    consts = [c.value for c in ast.walk(a.value) if isinstance(c, ast.Constant) and isinstance(c.value, str)]
                    if consts:
                        repl = consts[0]
    prefix = [c.value for n in walk_local(fix.node) if isinstance(n, ast.Assign) and isinstance(n.value, ast.BinOp) and isinstance(n.value.left, ast.Constant)
              for c in [n.value.left] if isinstance(c.value, str)]
    if repl is None or keep_pred is None:
        # comprehension form: "".join(ch if <keep>(ch) else "_" for ch in identifier[start:])
        for n in walk_local(fix.node):
            if isinstance(n, ast.IfExp) and isinstance(n.orelse, ast.Constant) and isinstance(n.orelse.value, str) and isinstance(n.body, ast.Name):
                keep_pred, keep_var, repl = n.test, n.body.id, n.orelse.value
            elif isinstance(n, ast.IfExp) and isinstance(n.body, ast.Constant) and isinstance(n.body.value, str) and isinstance(n.orelse, ast.Name):
                keep_pred, keep_var, repl = ast.UnaryOp(op=ast.Not(), operand=n.test), n.orelse.id, n.body.value
    def appended(stmts):
        """the single `X.append(<e>)` a branch consists of -> <e>"""
        if len(stmts) == 1 and isinstance(stmts[0], ast.Expr) and isinstance(stmts[0].value, ast.Call) and isinstance(stmts[0].value.func, ast.Attribute) \
                and stmts[0].value.func.attr == "append" and len(stmts[0].value.args) == 1:
            return stmts[0].value.args[0]
        return None
    if repl is None or keep_pred is None:
        # pieces form: for ch in identifier: if <keep>(ch): pieces.append(ch) else: pieces.append("_")   …   "".join(pieces)
        for lp in walk_local(fix.node):
            if isinstance(lp, ast.For) and isinstance(lp.target, ast.Name) and len(lp.body) == 1 and isinstance(lp.body[0], ast.If) and lp.body[0].orelse:
                i_ = lp.body[0]
                a_, b_ = appended(i_.body), appended(i_.orelse)
                if isinstance(a_, ast.Name) and a_.id == lp.target.id and isinstance(b_, ast.Constant) and isinstance(b_.value, str):
                    keep_pred, keep_var, repl = i_.test, lp.target.id, b_.value
                elif isinstance(b_, ast.Name) and b_.id == lp.target.id and isinstance(a_, ast.Constant) and isinstance(a_.value, str):
                    keep_pred, keep_var, repl = ast.UnaryOp(op=ast.Not(), operand=i_.test), lp.target.id, a_.value
    if repl is None or keep_pred is None:
        raise AnalysisError("I1: cannot recognise the repair loop of _characters_fix")
    if repl in rb and repl in rba:
        R.ok("I1", "repair replaces with %r, accepted by the reader" % repl, fix.loc())
    else:
        R.bad("I1", "%s|replacement|%s" % (fix.key, repl), fix.loc(), "_characters_fix replaces illegal characters with %r, which the reader's class rejects" % repl)
    try:
        kept = {c for c in DOMAIN if eval_pred(keep_pred, c, keep_var)}
    except _Unknown as ex:
        raise AnalysisError("I1: repair predicate `%s` is outside the evaluator" % ex)
    if kept - rb:
        R.bad("I1", "%s|kept|%s" % (fix.key, "".join(sorted(kept - rb))), fix.loc(), "_characters_fix keeps %r, which the reader rejects" % "".join(sorted(kept - rb)))
    else:
        R.ok("I1", "characters kept by the repair are accepted by the reader", fix.loc())
    # which first characters get the prefix: whatever is NOT prefixed goes through the replacement loop from position 0, so it
    # must end up as a character the reader accepts at the start of an identifier without `&`
    pguard = None
    for n in walk_local(fix.node):
        if isinstance(n, ast.If) and any(isinstance(a, ast.Assign) and isinstance(a.value, ast.BinOp) and isinstance(a.value.left, ast.Constant)
                                         and isinstance(a.value.left.value, str) for a in n.body):
            pguard = n.test
    if pguard is None:
        # conditional-expression form: prefix = "" if identifier[0].isalpha() else "&"
        for n in walk_local(fix.node):
            if isinstance(n, ast.IfExp) and isinstance(n.body, ast.Constant) and isinstance(n.orelse, ast.Constant) \
                    and isinstance(n.body.value, str) and isinstance(n.orelse.value, str) and (n.body.value == "") != (n.orelse.value == ""):
                if n.body.value == "":
                    pguard, prefix = ast.UnaryOp(op=ast.Not(), operand=n.test), [n.orelse.value]
                else:
                    pguard, prefix = n.test, [n.body.value]
    if pguard is None:
        # the same choice as statements (how the loader reads the conditional expression): if c: prefix = "" else: prefix = "&"
        for n in walk_local(fix.node):
            if isinstance(n, ast.If) and len(n.body) == 1 and len(n.orelse) == 1 and all(
                    isinstance(b, ast.Assign) and isinstance(b.targets[0], ast.Name) and isinstance(b.value, ast.Constant) and isinstance(b.value.value, str)
                    for b in (n.body[0], n.orelse[0])) and n.body[0].targets[0].id == n.orelse[0].targets[0].id \
                    and (n.body[0].value.value == "") != (n.orelse[0].value.value == ""):
                if n.body[0].value.value == "":
                    pguard, prefix = ast.UnaryOp(op=ast.Not(), operand=n.test), [n.orelse[0].value.value]
                else:
                    pguard, prefix = n.test, [n.body[0].value.value]
    if pguard is None:
        # pieces form: if <guard on identifier[0]>: pieces.append("&")   (no else), outside the repair loop
        for n in walk_local(fix.node):
            if isinstance(n, ast.If) and not n.orelse and "identifier[0]" in norm(n.test) and not any(isinstance(p_, (ast.For, ast.While)) for p_ in parent_chain(n)):
                a_ = appended(n.body)
                if isinstance(a_, ast.Constant) and isinstance(a_.value, str) and a_.value:
                    pguard, prefix = n.test, [a_.value]
    if pguard is None:
        # pieces = [] if <first char fine> else ["&"]   (read as if / else by the loader)
        for n in walk_local(fix.node):
            if isinstance(n, ast.If) and len(n.body) == 1 and len(n.orelse) == 1 and all(
                    isinstance(b, ast.Assign) and isinstance(b.targets[0], ast.Name) and isinstance(b.value, ast.List) for b in (n.body[0], n.orelse[0])) \
                    and n.body[0].targets[0].id == n.orelse[0].targets[0].id:
                a_, b_ = n.body[0].value.elts, n.orelse[0].value.elts
                one = lambda es: len(es) == 1 and isinstance(es[0], ast.Constant) and isinstance(es[0].value, str) and es[0].value
                if not a_ and one(b_):
                    pguard, prefix = ast.UnaryOp(op=ast.Not(), operand=n.test), [b_[0].value]
                elif not b_ and one(a_):
                    pguard, prefix = n.test, [a_[0].value]
    if pguard is None:
        raise AnalysisError("I1: cannot find the guard of the prefix in _characters_fix")
    try:
        prefixed = {c for c in DOMAIN if eval_pred(pguard, c, "identifier[0]")}
    except _Unknown as ex:
        raise AnalysisError("I1: prefix guard `%s` is outside the evaluator" % ex)
    bad_first = sorted(c for c in DOMAIN if c not in prefixed and (c if c in kept else repl) not in rf)
    if bad_first:
        R.bad("I1", "%s|unprefixed-first|%s" % (fix.key, "".join(bad_first)), fix.loc(),
              "_characters_fix does not prefix a name starting with %r; the repair loop then leaves or produces a first character (%r) that the "
              "reader rejects without the & prefix" % ("".join(bad_first), "".join(sorted({(c if c in kept else repl) for c in bad_first}))))
    else:
        R.ok("I1", "every first character the reader would reject gets the & prefix (%d of %d prefixed)" % (len(prefixed), len(DOMAIN)), fix.loc())
    if prefix == ["&"]:
        R.ok("I1", "non-alphabetic first character gets the & prefix", fix.loc())
    else:
        R.bad("I1", "%s|prefix" % fix.key, fix.loc(), "_characters_fix prefixes %r instead of '&' when the first character is not alphabetic" % prefix)
    # the repair must run whenever the predicate rejects, and the predicate must reject whatever the repair would change
    changed_by_fix = set(DOMAIN) - kept - {repl}  # replacing the replacement character by itself changes nothing
    if changed_by_fix - (set(DOMAIN) - wb):
        R.bad("I1", "%s|good-vs-fix|%s" % (good.key, "".join(sorted(changed_by_fix & wb))), good.loc(),
              "_characters_good accepts %r, which _characters_fix would replace: identifiers containing it skip the repair" % "".join(sorted(changed_by_fix & wb)))
    else:
        R.ok("I1", "the validity predicate rejects everything the repair replaces", good.loc())

    # I2
    R.rule("I2", "length agreement and re-application of the length repair")
    init = en.methods.get("__init__")
    tgt = None
    for a in walk_local(init.node):
        if isinstance(a, ast.Assign) and norm(a.targets[0]) == "self.name_length_target" and isinstance(a.value, ast.Constant):
            tgt = a.value.value
    lg = naming_role(P, "length_good")
    strict = any(isinstance(c, ast.Compare) and isinstance(c.ops[0], ast.Lt) and "name_length_target" in norm(c) for c in walk_local(lg.node))
    lte = any(isinstance(c, ast.Compare) and isinstance(c.ops[0], ast.LtE) and "name_length_target" in norm(c) for c in walk_local(lg.node))
    if tgt is None or not (strict or lte):
        raise AnalysisError("I2: cannot read the writer's length bound")
    wmax = tgt - 1 if strict else tgt
    if len(lens) < 2:
        raise AnalysisError("I2: cannot read the reader's length bounds")
    rmax_plain, rmax_amp = min(lens), max(lens)
    if wmax <= rmax_plain:
        R.ok("I2", "writer bound %d <= reader bound %d (%d with &)" % (wmax, rmax_plain, rmax_amp), lg.loc())
    else:
        R.bad("I2", "%s|bound|%d>%d" % (lg.key, wmax, rmax_plain), lg.loc(), "the writer lets identifiers reach %d characters, the reader accepts at most %d" % (wmax, rmax_plain))
    lf = naming_role(P, "length_fix")
    slices = [norm(s) for s in walk_local(lf.node) if isinstance(s, ast.Subscript) and isinstance(s.slice, ast.Slice)]
    if any("name_length_target" in s for s in slices):
        R.ok("I2", "_length_fix truncates to the bound", lf.loc())
    else:
        R.bad("I2", "%s|no-truncate" % lf.key, lf.loc(), "_length_fix no longer truncates to name_length_target")
    # after _length_fix the result must itself satisfy _length_good: slice end must be < target when the test is strict
    if strict and any(re.search(r"\[:\s*self\.name_length_target\s*\]", s) for s in slices):
        # (keyed by the helper's role, not by the name it carries today: the finding is the same finding after a rename)
        R.bad("I2", "%s:EdififyNames._length_fix|off-by-one" % EN, lf.loc(),
              "_length_fix truncates to name_length_target (%d) characters but _length_good requires fewer than that: the repaired identifier is still too long (%d > %d accepted by the reader without &)" % (tgt, tgt, rmax_plain))
    cf = naming_role(P, "conflicts_fix")
    kept_ = tuple(m_.name for m_ in (naming_role(P, r_) for r_ in ("length_fix", "length_good", "chars_fix", "chars_good", "conflicts_good", "conflicts_fix")) if m_ is not None)
    cf = inlined_view(P, cf, keep=kept_) if cf is not None else None
    if cf is None:
        raise AnalysisError("anchor vanished: _conflicts_fix")
    cfg = cfg_of(cf.node)

    def transfer(n, st, rec=None):
        a = n.ast
        if n.kind == "stmt" and isinstance(a, ast.Assign) and isinstance(a.targets[0], ast.Name):
            v = a.value
            name = a.targets[0].id
            if isinstance(v, ast.Call) and norm(v.func) == "self." + lf.name and v.args and norm(v.args[0]) in st | {name}:
                return st - {norm(v.args[0]), name}
            if _lengthens(v):
                return st | {name}
            if isinstance(v, ast.Name) and v.id in st:
                return st | {name}
            if isinstance(v, ast.Call) and norm(v.func) == "self." + cf.name:
                if rec is not None:
                    for arg in v.args:
                        if norm(arg) in st:
                            rec.append((a, norm(arg)))
                return st - {name}
        if n.kind == "return" and a.value is not None and rec is not None:
            if norm(a.value) in st:
                rec.append((a, norm(a.value)))
        return st

    state = forward(cfg, frozenset(), lambda n, st: transfer(n, st), lambda x, y: x | y, follow=lambda n, s, l: l != "exc")
    bad = []
    for n in cfg.nodes:
        if n.id in state:
            transfer(n, state[n.id], bad)
    grow = [a for a in walk_local(cf.node) if isinstance(a, ast.Assign) and _lengthens(a.value)]
    R.count("identifier-lengthening statements in _conflicts_fix (I2)", len(grow))
    R.floor("identifier-lengthening statements in _conflicts_fix (I2)", 2)
    if bad:
        for a, v in bad:
            R.bad("I2", "%s|grown-unfixed|%s" % (cf.key, v), cf.loc(a),
                  "_conflicts_fix lengthens `%s` (suffix added or counter incremented) and uses it at `%s` without re-applying _length_fix on some path: an identifier at the limit grows past it" % (v, short(a, 50)))
    else:
        R.ok("I2", "every lengthening path of _conflicts_fix re-applies _length_fix", cf.loc())
    mv = en.methods.get("make_valid")
    order = [norm(c.func).split(".")[-1] for a in mv.node.body if isinstance(a, ast.Assign) for c in [a.value] if isinstance(c, ast.Call)]
    want_order = [m_.name if m_ is not None else "?" for m_ in (naming_role(P, "length_fix"), naming_role(P, "chars_fix"), naming_role(P, "conflicts_fix"))]
    if order == want_order:
        R.ok("I2", "make_valid = length fix -> character fix -> conflict fix", mv.loc())
    else:
        R.bad("I2", "%s|pipeline" % mv.key, mv.loc(), "make_valid applies %s; the conflict test must see the final, legal spelling (length -> characters -> conflicts)" % order)

    # I3
    R.rule("I3", "case-folded conflict test over every sibling")
    cg = naming_role(P, "conflicts_good")
    if cg is None:
        raise AnalysisError("anchor vanished: _conflicts_good")
    caller_folds = any(isinstance(a, ast.Assign) and isinstance(a.value, ast.Call) and isinstance(a.value.func, ast.Attribute) and a.value.func.attr in ("lower", "casefold")
                       for a in walk_local(cf.node))
    passed = [norm(c.args[1]) for c in walk_local(cf.node) if isinstance(c, ast.Call) and norm(c.func) == "self._conflicts_good" and len(c.args) >= 2]

    # locals that stand for the candidate: wanted = identifier.lower()
    cand = {cg.params[2]}
    folded_names = set()
    grew = True
    while grew:
        grew = False
        for a in ast.walk(cg.node):
            if isinstance(a, ast.Assign) and len(a.targets) == 1 and isinstance(a.targets[0], ast.Name) and a.targets[0].id not in cand \
                    and any(isinstance(x, ast.Name) and x.id in cand for x in ast.walk(a.value)):
                cand.add(a.targets[0].id)
                grew = True
                v = a.value
                if isinstance(v, ast.Call) and isinstance(v.func, ast.Attribute) and v.func.attr in ("lower", "casefold", "upper"):
                    folded_names.add(a.targets[0].id)

    def folded(e):
        if isinstance(e, ast.Call) and isinstance(e.func, ast.Attribute) and e.func.attr in ("lower", "casefold", "upper"):
            return True
        if isinstance(e, ast.Name) and e.id in folded_names:
            return True
        if isinstance(e, ast.Name) and e.id == cg.params[2] and caller_folds and all("lower" in p for p in passed):
            return True  # the candidate is folded by the only caller
        return False

    ncmp = 0
    for c in ast.walk(cg.node):
        if isinstance(c, ast.Compare) and len(c.ops) == 1 and isinstance(c.ops[0], (ast.Eq, ast.NotEq)) and any(isinstance(x, ast.Name) and x.id in cand for x in ast.walk(c)):
            ncmp += 1
            l, r = c.left, c.comparators[0]
            unf = [norm(x) for x in (l, r) if not folded(x)]
            if unf:
                R.bad("I3", "%s|unfolded|%s" % (cg.key, unf[0]), cg.loc(c),
                      "_conflicts_good compares `%s`: %s is not case-folded while the candidate is, so two siblings that differ only in letter case both keep their spelling and "
                      "collide under EDIF's case-insensitive rule" % (short(c, 60), unf[0]))
            else:
                R.ok("I3", "folded comparison %s" % short(c, 50), cg.loc(c))
        # membership form: <candidate> [not] in <collection of folded sibling values>
        if isinstance(c, ast.Compare) and len(c.ops) == 1 and isinstance(c.ops[0], (ast.In, ast.NotIn)) and any(isinstance(x, ast.Name) and x.id in cand for x in ast.walk(c.left)):
            coll = c.comparators[0]
            if isinstance(coll, ast.Name):
                d = next((a.value for a in ast.walk(cg.node) if isinstance(a, ast.Assign) and len(a.targets) == 1 and norm(a.targets[0]) == coll.id), None)
                coll = d if d is not None else coll
            elts = []
            for x in ast.walk(coll):
                if isinstance(x, (ast.SetComp, ast.ListComp, ast.GeneratorExp)):
                    elts.append(x.elt)
            if elts:
                ncmp += len(elts)
                for e_ in [c.left] + elts:
                    if not folded(e_):
                        R.bad("I3", "%s|unfolded|%s" % (cg.key, norm(e_)), cg.loc(c),
                              "_conflicts_good tests `%s`: %s is not case-folded, so two siblings that differ only in letter case collide under EDIF's case-insensitive rule"
                              % (short(c, 60), norm(e_)))
                    else:
                        R.ok("I3", "folded membership operand %s" % short(e_, 40), cg.loc(c))
    # the test looks at both things a sibling can clash through: its name and the identifier it was already given
    srcs = norm(cg.node)
    for hname in sorted({x.attr for x in ast.walk(cg.node) if isinstance(x, ast.Attribute) and isinstance(x.value, ast.Name) and x.value.id == "self" and x.attr in en.methods}):
        srcs += norm(en.methods[hname].node)
    for what, present in (("sibling names", ".name" in srcs), ("identifiers already given to siblings", "'EDIF.identifier'" in srcs)):
        if present:
            R.ok("I3", "_conflicts_good looks at %s" % what, cg.loc())
        else:
            R.bad("I3", "%s|ignores %s" % (cg.key, what.split()[0]), cg.loc(),
                  "_conflicts_good never looks at the %s: two siblings can be given the same identifier (the file then declares two objects under one name and is rejected on read)" % what)
    # … and at each of them on its own: the identifier a sibling was given is consulted whether or not the sibling has a name
    # (`taken = element.name or element.data.get("EDIF.identifier")` reads it for nameless siblings only)
    def reads_identifier(x):
        return (isinstance(x, ast.Subscript) and isinstance(x.slice, ast.Constant) and x.slice.value == "EDIF.identifier") or \
            (isinstance(x, ast.Call) and isinstance(x.func, ast.Attribute) and x.func.attr == "get" and x.args and isinstance(x.args[0], ast.Constant)
             and x.args[0].value == "EDIF.identifier")

    def bare_name_read(e):
        return isinstance(e, ast.Attribute) and e.attr == "name" or (isinstance(e, ast.Call) and isinstance(e.func, ast.Attribute) and e.func.attr == "get"
                                                                      and e.args and isinstance(e.args[0], ast.Constant) and e.args[0].value == ".NAME")
    id_reads = [x for x in walk_local(cg.node) if reads_identifier(x)]
    shadowed = []
    for x in id_reads:
        prev = x
        for p_ in parent_chain(x):
            if isinstance(p_, ast.BoolOp) and isinstance(p_.op, ast.Or):
                k_ = next((i for i, v in enumerate(p_.values) if v is prev or any(v is z for z in ast.walk(prev)) or any(prev is z for z in ast.walk(v))), None)
                if k_ and any(bare_name_read(v) for v in p_.values[:k_]):
                    shadowed.append(x)
                    break
            if isinstance(p_, ast.IfExp) and any(prev is z for z in ast.walk(p_.orelse)) and bare_name_read(p_.test):
                shadowed.append(x)
                break
            if isinstance(p_, (ast.FunctionDef, ast.AsyncFunctionDef)):
                break
            prev = p_
    if id_reads and len(shadowed) == len(id_reads):
        R.bad("I3", "%s|identifier only for nameless siblings" % cg.key, cg.loc(shadowed[0]),
              "_conflicts_good reads a sibling's EDIF.identifier only when the sibling has no name (`%s`): a named sibling whose identifier was changed by "
              "the repair (`a.b` -> `a_b`) does not block the same identifier being given again" % short(getattr(shadowed[0], "_parent", shadowed[0]), 70))
    elif id_reads:
        R.ok("I3", "a sibling's identifier is consulted whether or not it has a name", cg.loc(id_reads[0]))
    R.count("candidate comparisons in _conflicts_good (I3)", ncmp)
    R.floor("candidate comparisons in _conflicts_good (I3)", 2)
    loops = [lp for lp in walk_local(cg.node) if isinstance(lp, ast.For)]
    comps = [g for c in walk_local(cg.node) if isinstance(c, (ast.GeneratorExp, ast.ListComp, ast.SetComp)) for g in c.generators
             if norm(g.iter) in cg.params]
    for g in comps:
        # any(... for element in objects if <not the element itself>): every sibling is visited; the filter may only drop the element itself
        extra = [c for c in g.ifs if not any(isinstance(x, ast.Name) and x.id == cg.params[1] for x in ast.walk(c))]
        if extra:
            R.bad("I3", "%s|filtered scan" % cg.key, cg.loc(extra[0]), "_conflicts_good leaves siblings out of the conflict test (`%s`)" % short(extra[0], 50))
        else:
            R.ok("I3", "the scan visits every sibling (comprehension)", cg.loc())
    if not loops and not comps:
        raise AnalysisError("I3: _conflicts_good no longer scans the siblings")
    for lp in loops:
        brk = [x for x in ast.walk(lp) if isinstance(x, ast.Break)]
        rets = [x for x in ast.walk(lp) if isinstance(x, ast.Return) and not (isinstance(x.value, ast.Constant) and x.value.value is False)]
        if brk:
            R.bad("I3", "%s|break" % cg.key, cg.loc(brk[0]), "_conflicts_good stops scanning the siblings at a `break`: siblings listed after that point are never checked for a conflict")
        elif rets:
            R.bad("I3", "%s|early-true" % cg.key, cg.loc(rets[0]), "_conflicts_good returns `%s` from inside the sibling scan" % norm(rets[0].value))
        else:
            R.ok("I3", "the scan visits every sibling", cg.loc(lp))


def _i4(ctx, R):
    """every element is made unique against ITS OWN siblings; no sibling is exempted from the conflict test"""
    P = ctx.P
    R.rule("I4", "each element's identifier is checked against the container it is listed in; every sibling takes part in the conflict test")
    comp = P.cls("spydrnet/composers/edif/composer.py", "ComposeEdif")
    en = P.cls(EN, "EdififyNames")
    ed = comp.methods.get("_edifify_netlist")
    ed = inlined_view(P, ed, keep=("_add_rename_property", "_topological_sort")) if ed is not None else None
    if ed is None:
        raise AnalysisError("anchor vanished: ComposeEdif._edifify_netlist")
    n = 0
    for x, lp in stale_loop_uses(ed.node):
        R.bad("I4", "%s|stale %s" % (ed.key, x.id), ed.loc(x),
              "_edifify_netlist uses `%s` after the loop over `%s` has ended: elements are made unique against the siblings of the LAST container only, so identifiers collide elsewhere" % (x.id, short(lp.iter, 40)))
    # which parameter of _add_rename_property is the element and which its siblings: read from what the helper hands to make_valid
    # (not from positions — the signature may be reordered, made keyword-only or given a default)
    arp = comp.methods.get("_add_rename_property")
    roles = None
    if arp is not None:
        mv = next((x for x in walk_local(arp.node) if isinstance(x, ast.Call) and isinstance(x.func, ast.Attribute) and x.func.attr == "make_valid" and len(x.args) >= 2), None)
        all_params = {x.arg for x in arp.node.args.posonlyargs + arp.node.args.args + arp.node.args.kwonlyargs}
        if mv is not None and all(isinstance(a_, ast.Name) and a_.id in all_params for a_ in mv.args[:2]):
            roles = (mv.args[0].id, mv.args[1].id)

    def bound(c):
        """{parameter: argument expression} of a call of _add_rename_property (defaults filled in)"""
        a = arp.node.args
        names = [x.arg for x in a.posonlyargs + a.args]
        if arp.role == "method":
            names = names[1:]  # (a static method has no self to skip)
        m = dict(zip(names, c.args))
        for k in c.keywords:
            if k.arg:
                m[k.arg] = k.value
        for nm, d in zip(names[len(names) - len(a.defaults):], a.defaults):
            m.setdefault(nm, d)
        for x, d in zip(a.kwonlyargs, a.kw_defaults):
            if d is not None:
                m.setdefault(x.arg, d)
        return m
    for c in walk_local(ed.node):
        if isinstance(c, ast.Call) and norm(c.func) == "self._add_rename_property" and (len(c.args) + len(c.keywords)) >= 1:
            if roles is not None:
                m_ = bound(c)
                if roles[0] not in m_ or roles[1] not in m_:
                    continue
                obj, ns = m_[roles[0]], m_[roles[1]]
                if isinstance(ns, ast.Tuple) and not ns.elts:
                    ns = ast.copy_location(ast.List(elts=[], ctx=ast.Load()), ns)
            elif len(c.args) >= 2:
                obj, ns = c.args[0], c.args[1]
            else:
                continue
            n += 1
            if isinstance(ns, ast.Name):
                # the sibling container held in a local bound just before the call (`siblings = netlist.libraries`)
                d_ = reaching_assign(c, ns.id)
                if d_ is not None and d_.value is not None and isinstance(d_.value, (ast.Attribute, ast.List, ast.Call)):
                    ns = d_.value
            loops = []
            p_ = getattr(c, "_parent", None)
            while p_ is not None and p_ is not ed.node:
                if isinstance(p_, ast.For):
                    loops.append(p_)
                p_ = getattr(p_, "_parent", None)
            binder = next((lp for lp in loops if norm(lp.target) == norm(obj)), None)
            if binder is None:
                if isinstance(ns, ast.List) and not ns.elts:
                    R.ok("I4", "%s: stand-alone element, no siblings" % short(c, 50), ed.loc(c))
                else:
                    R.bad("I4", "%s|siblings of %s" % (ed.key, norm(obj)), ed.loc(c), "`%s`: %s is not enumerated by a loop, yet is checked against %s" % (short(c, 60), norm(obj), norm(ns)))
            elif norm(binder.iter) == norm(ns):
                R.ok("I4", "%s checked against %s" % (norm(obj), norm(ns)), ed.loc(c))
            else:
                R.bad("I4", "%s|siblings of %s" % (ed.key, norm(obj)), ed.loc(c),
                      "`%s`: %s comes from `%s` but is made unique against `%s` — a different container, so it can collide with its real siblings" % (short(c, 60), norm(obj), norm(binder.iter), norm(ns)))
    R.count("identifier assignments (I4)", n)
    R.floor("identifier assignments (I4)", 6)
    cg = naming_role(P, "conflicts_good")
    # the identifier comparison may only be guarded by the presence test of that key
    for b in walk_local(cg.node):
        if isinstance(b, ast.BoolOp) and isinstance(b.op, ast.And) and any("'EDIF.identifier']" in norm(v) and isinstance(v, ast.Compare) and isinstance(v.ops[0], ast.Eq) for v in b.values):
            extra = [v for v in b.values if not ("'EDIF.identifier']" in norm(v) and isinstance(v, ast.Compare) and isinstance(v.ops[0], ast.Eq))
                     and not (isinstance(v, ast.Compare) and isinstance(v.ops[0], ast.In) and isinstance(v.left, ast.Constant) and v.left.value == "EDIF.identifier")]
            if extra:
                R.bad("I4", "%s|identifier-guard" % cg.key, cg.loc(b),
                      "_conflicts_good only looks at a sibling's EDIF.identifier when `%s` also holds: siblings outside that condition can be given the same identifier" % short(extra[0], 50))
            else:
                R.ok("I4", "sibling identifiers are compared whenever present", cg.loc(b))


_check_c17_base = check_c17


def _i5(ctx, R):
    """every identifier the exporter hands out went through make_valid — the only place where the candidate is compared with the
    siblings' names and identifiers.  A shortcut (`rename = name` when the name is already legal) skips that comparison."""
    R.rule("I5", "every value stored under 'EDIF.identifier' by the EDIF writer is the result of make_valid (legal form and sibling conflict test) on every path")
    P = ctx.P
    n = 0
    # wherever the exporter keeps that bookkeeping: the composer class or the naming helper class
    owners = [f0 for rel in ("spydrnet/composers/edif/composer.py", EN) for c in P.module(rel).classes.values() for f0 in c.all_funcs()]
    for f0 in sorted(owners, key=lambda x: x.key):
        f = inlined_view(P, f0, keep=("make_valid",))
        for a in walk_local(f.node):
            if not (isinstance(a, ast.Assign) and any(isinstance(t_, ast.Subscript) and isinstance(t_.slice, ast.Constant) and t_.slice.value == "EDIF.identifier"
                                                       for t_ in a.targets)):
                continue
            n += 1

            def from_make_valid(v, depth=0):
                if isinstance(v, ast.Call) and isinstance(v.func, ast.Attribute) and v.func.attr == "make_valid":
                    return True
                if isinstance(v, ast.Name) and depth < 3:
                    defs = [x.value for x in walk_local(f.node) if isinstance(x, ast.Assign) and any(isinstance(t, ast.Name) and t.id == v.id for t in x.targets)]
                    return bool(defs) and all(from_make_valid(d, depth + 1) for d in defs)
                return False
            if from_make_valid(a.value):
                R.ok("I5", "%s: %s" % (f.qualname, short(a, 50)), f.loc(a))
            else:
                R.bad("I5", "%s|identifier not from make_valid" % f.key, f.loc(a),
                      "%s stores `%s` as the EDIF identifier on a path that does not go through make_valid: that identifier was never compared with the "
                      "siblings' (case-insensitively), so two siblings can be written under one identifier and the file is rejected on read" % (f.qualname, short(a.value, 40)))
    R.count("identifier assignments in the EDIF writer (I5)", n)
    R.floor("identifier assignments in the EDIF writer (I5)", 1)


@register("C17",
          "Static analysis of EdififyNames against the reader's identifier rule: I1 the writer's validity predicate and its repair are "
          "evaluated abstractly over the printable-ASCII domain (isalnum/isalpha/comparisons/boolean structure) and the reader's character "
          "class is read from its regular expressions — accept(writer) must be included in accept(reader) for the first and the body "
          "characters, and the repair's replacement character must be accepted; I2 the writer's length bound is within the reader's, and "
          "every path of the conflict repair that lengthens the identifier re-applies the length repair before recursing or returning; "
          "I3 the conflict test compares case-folded values on both sides, scans every sibling (no break / early exit) and looks at both the names and the identifiers already given to siblings — the identifier whether or not the sibling has a name; I5 every value stored under 'EDIF.identifier' comes from make_valid on every path; I4 every element "
          "is made unique against the container it is listed in (no stale loop variable, sibling list = iterated container) and no sibling "
          "identifier is exempted from the test. Decides legality of the character set, the bound, the folding and the scope of the "
          "uniqueness test; termination/uniqueness of the _sdn_N_ search is not decided.")
def check_c17_all(ctx, R):
    _check_c17_base(ctx, R)
    _i4(ctx, R)
    _i5(ctx, R)
