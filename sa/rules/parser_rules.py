"""C15 — rejected input fails cleanly and leaves no process-wide residue: P1 policy restore on all
exits, P2 token-loop progress, P3 dangling references rejected, P5 exception-handler discipline."""
import ast

from ..core import AnalysisError, norm, short, walk_local, parent_chain
from ..cfg import cfg_of, forward, node_exprs, Branch
from . import register

PARSER_MODULES = [
    "spydrnet/parsers/__init__.py",
    "spydrnet/parsers/edif/parser.py", "spydrnet/parsers/edif/tokenizer.py",
    "spydrnet/parsers/verilog/parser.py", "spydrnet/parsers/verilog/tokenizer.py",
    "spydrnet/parsers/eblif/eblif_parser.py", "spydrnet/parsers/eblif/eblif_tokenizer.py",
    "spydrnet/parsers/primitive_library_reader.py",
]
# Reviewed exception handlers that do not re-raise (DESIGN §3 C15 P5): function -> exception types, reason
REVIEWED_HANDLERS = {
    ("EdifParser.parse_library_like_element", "ValueError"): "duplicate cell name: retried under the EDIF identifier; the saved exception is re-raised when that fails too",
    ("EdifParser.parse_contents", "ValueError"): "duplicate instance name: retried under the EDIF identifier and re-raised otherwise; duplicate net name: the bits are merged into the existing multi-bit cable",
}


def _idiom(f, tr, h):
    """structurally accepted non-re-raising handlers"""
    types = [norm(t) for t in (h.type.elts if isinstance(h.type, ast.Tuple) else [h.type])] if h.type is not None else []
    if types == ["StopIteration"] and f.name == "has_next" and len(h.body) == 1 and isinstance(h.body[0], ast.Return) \
            and isinstance(h.body[0].value, ast.Constant) and h.body[0].value.value is False:
        return "end of input answers has_next() with False"
    if types == ["KeyError"] and len(tr.body) == 1 and isinstance(tr.body[0], ast.Expr) and isinstance(tr.body[0].value, ast.Subscript) \
            and len(h.body) == 1 and isinstance(h.body[0], ast.Assign) and norm(h.body[0].targets[0]) == norm(tr.body[0].value) \
            and isinstance(h.body[0].value, (ast.List, ast.Dict, ast.Set, ast.Constant)):
        return "default-initialiser: a missing data key is created empty"
    if types == ["AttributeError"] and len(tr.body) == 1 and isinstance(tr.body[0], ast.Expr) and isinstance(tr.body[0].value, ast.Attribute) \
            and tr.body[0].value.attr == "parent" and any(isinstance(x, ast.Break) for x in h.body):
        return "climb to the root: the first object without a parent ends the walk"
    return None


def _tokenizer_methods(P):
    """(module relpath, class name) of tokenizer classes and the names of their consuming / peeking methods"""
    toks = {}
    for rel in PARSER_MODULES:
        m = P.module(rel)
        for cname, c in m.classes.items():
            if "Tokenizer" in cname or "tokenizer" in rel:
                if "next" in c.methods and "peek" in c.methods:
                    toks[cname] = c
    return toks


class Consume:
    """interprocedural must-consume / consumes-when-true summaries for parser methods"""

    def __init__(self, P):
        self.P = P
        self.toks = _tokenizer_methods(P)
        if len(self.toks) < 3:
            raise AnalysisError("anchor vanished: tokenizer classes with next()/peek() (%d found)" % len(self.toks))
        self.funcs = {}
        for rel in PARSER_MODULES:
            for f in P.module(rel).all_funcs():
                self.funcs[(f.cls.name if f.cls else "", f.name)] = f
        self.must = {}
        self.when_true = {}
        for k, f in self.funcs.items():
            self.must[k] = False
            self.when_true[k] = False
        for cname in self.toks:
            self.must[(cname, "next")] = True
        changed = True
        rounds = 0
        while changed:
            rounds += 1
            if rounds > 30:
                raise AnalysisError("consume summaries did not converge")
            changed = False
            for k, f in self.funcs.items():
                if k[0] in self.toks and k[1] in ("next", "peek", "has_next", "peek_equals", "token_equals", "expect", "equals"):
                    continue
                m, wt = self._summarise(f)
                if m != self.must[k] or wt != self.when_true[k]:
                    self.must[k], self.when_true[k] = m, wt
                    changed = True

    def callee_keys(self, f, call):
        fn = call.func
        if isinstance(fn, ast.Attribute):
            recv = norm(fn.value)
            if recv == "self":
                return [(f.cls.name, fn.attr)] if f.cls else []
            if recv.endswith("tokenizer") or recv.endswith("tokenizer_"):
                return [(c, fn.attr) for c in self.toks]
            if recv == "self.parser":
                return [("VerilogParser", fn.attr)]
        elif isinstance(fn, ast.Name):
            return [("", fn.id)]
        return []

    def call_consumes(self, f, call):
        """must this call consume a token?  (every candidate callee must)"""
        ks = [k for k in self.callee_keys(f, call) if k in self.must]
        if not ks:
            # parse_construct(self.parse_x): consumes the opening parenthesis itself
            return False
        return all(self.must[k] for k in ks)

    def call_true_consumes(self, f, call):
        ks = [k for k in self.callee_keys(f, call) if k in self.when_true]
        return bool(ks) and all(self.when_true[k] or self.must[k] for k in ks)

    def node_consumes(self, f, n):
        ex, tg = node_exprs(n)
        for e in ex:
            for c in ast.walk(e):
                if isinstance(c, ast.Call) and self.call_consumes(f, c):
                    return True
                # inside a tokenizer, pulling from the character/token generator is consumption
                if isinstance(c, ast.Call) and norm(c.func) == "next" and f.cls is not None and f.cls.name in self.toks:
                    return True
        return False

    def _summarise(self, f):
        if any(isinstance(x, (ast.Yield, ast.YieldFrom)) for x in walk_local(f.node)):
            return False, False
        # a private helper that is handed the method to fetch tokens with (`self._skip(self.next_token)`): read in place, with the
        # parameter replaced by the method that was passed
        if any(isinstance(c, ast.Call) and isinstance(c.func, ast.Attribute) and norm(c.func.value) == "self" and c.func.attr.startswith("_")
               and any(isinstance(a, ast.Attribute) and norm(a.value) == "self" for a in c.args) for c in walk_local(f.node)):
            from ..inline import inlined_view
            f = inlined_view(self.P, f)
        cfg = cfg_of(f.node)
        rets_true = []

        def tr(n, st):
            if self.node_consumes(f, n):
                st = True
            if n.kind in ("test", "assert"):
                t = n.ast.test
                if isinstance(t, ast.Call) and self.call_true_consumes(f, t):
                    return Branch({"true": True, "false": st, None: st})
            return st

        state = forward(cfg, False, tr, lambda a, b: a and b, follow=lambda n, s, l: l != "exc")
        must = bool(state.get(cfg.exit.id, False)) if cfg.exit.id in state else False
        wt = True
        any_true = False
        for n in cfg.nodes:
            if n.kind == "return" and n.id in state and n.ast.value is not None:
                v = n.ast.value
                if isinstance(v, ast.Constant) and v.value is True:
                    any_true = True
                    if not (state[n.id] or self.node_consumes(f, n)):
                        wt = False
                elif not (isinstance(v, ast.Constant) and v.value in (False, None)):
                    any_true = True
                    if not (state[n.id] or self.node_consumes(f, n)):
                        wt = False
        return must, (wt and any_true)


def _is_token_loop(f, w):
    t = norm(w.test)
    if any(k in t for k in ("tokenizer", "token", "begin_construct", "not_end_construct", "has_next", "peek")):
        return True
    if isinstance(w.test, ast.Constant) and w.test.value is True:
        body = " ".join(norm(s) for s in w.body)
        return "tokenizer" in body or "next_token" in body or "peek_token" in body
    return False


def _p2(ctx, R):
    R.rule("P2", "loop progress: every token-driven loop consumes at least one token (or exits) on every path from its head back to its head")
    P = ctx.P
    C = Consume(P)
    n = 0
    for rel in PARSER_MODULES:
        mod = P.module(rel)
        for f in mod.all_funcs():
            loops = [w for w in walk_local(f.node) if isinstance(w, ast.While) and _is_token_loop(f, w)]
            if not loops:
                continue
            cfg = cfg_of(f.node)
            for w in loops:
                n += 1
                heads = [x for x in cfg.nodes if x.kind == "test" and x.ast is w]
                if not heads:
                    # `while True:` has no test node; its head is the first body statement's predecessor join: analyse via body
                    heads = []
                # token variable idiom: while token != X: ... token = <consuming call>
                tokvars = {nm.id for nm in ast.walk(w.test) if isinstance(nm, ast.Name)} - {"self", "vt", "et", "True", "False", "None", "len"}
                body_nodes = set()
                for s in w.body:
                    for x in ast.walk(s):
                        body_nodes.add(id(x))

                def consumes_here(cn):
                    if C.node_consumes(f, cn):
                        return True
                    a = cn.ast
                    # re-assignment of the loop's token variable from a call that yields the next token (next_token / peek+next wrappers)
                    if cn.kind == "stmt" and isinstance(a, ast.Assign) and any(isinstance(t, ast.Name) and t.id in tokvars for t in a.targets) \
                            and isinstance(a.value, ast.Call):
                        return C.call_consumes(f, a.value) or (isinstance(a.value.func, ast.Attribute) and a.value.func.attr in ("next_token", "next"))
                    return False

                # dataflow restricted to the loop: start at the head with consumed=False, see whether a back edge can arrive unconsumed
                in_loop = [cn for cn in cfg.nodes if cn.ast is not None and (id(cn.ast) in body_nodes or cn.ast is w)]
                ids = {cn.id for cn in in_loop}
                start_nodes = heads or [cn for cn in in_loop if cn.ast is w.body[0]]
                if not start_nodes:
                    raise AnalysisError("P2: cannot locate the head of a loop in %s" % f.qualname)
                head = start_nodes[0]
                bad_paths = []
                state = {}
                work = []
                # successors of the head that lie inside the loop
                init_st = False
                if head.kind == "test" and isinstance(w.test, ast.Call) and C.call_true_consumes(f, w.test):
                    init_st = True
                if head.kind == "test" and isinstance(w.test, ast.BoolOp) and isinstance(w.test.op, ast.And) and any(isinstance(v, ast.Call) and C.call_true_consumes(f, v) for v in w.test.values):
                    init_st = True
                def first_iteration_guaranteed(iw):
                    """inner `while X != C2` entered right under `if X == C1` (C1 != C2): the first iteration always runs"""
                    t = iw.test
                    conj = t.values if isinstance(t, ast.BoolOp) and isinstance(t.op, ast.And) else [t]
                    neq = [(norm(c.left), norm(c.comparators[0])) for c in conj if isinstance(c, ast.Compare) and len(c.ops) == 1 and isinstance(c.ops[0], ast.NotEq)]
                    if len(neq) != len(conj) or not neq:
                        return False
                    par = getattr(iw, "_parent", None)
                    if not isinstance(par, ast.If) or iw not in par.body:
                        return False
                    pt = par.test
                    if not (isinstance(pt, ast.Compare) and len(pt.ops) == 1 and isinstance(pt.ops[0], ast.Eq)):
                        return False
                    var, c1 = norm(pt.left), norm(pt.comparators[0])
                    if any(v != var or c2 == c1 for v, c2 in neq):
                        return False
                    for st_ in par.body[: par.body.index(iw)]:
                        if any(isinstance(x, ast.Name) and x.id == var and isinstance(x.ctx, ast.Store) for x in ast.walk(st_)):
                            return False
                    return True

                def inner_body_ids(iw):
                    return {id(x) for s_ in iw.body for x in ast.walk(s_)}

                for s, lab in head.succ:
                    if lab == "exc" or (head.kind == "test" and lab == "false"):
                        continue
                    if s.id in ids or s.kind == "join":
                        work.append((s, init_st or (head.kind != "test" and consumes_here(head)), head))
                seen = {}
                while work:
                    cn, st, pred = work.pop()
                    if cn is head:
                        if not st:
                            bad_paths.append(cn)
                        continue
                    if cn.id not in ids and cn.kind != "join":
                        continue  # left the loop
                    key = (cn.id, st)
                    if key in seen:
                        continue
                    seen[key] = True
                    st2 = st or consumes_here(cn)
                    skip_false = False
                    if cn.kind == "test" and isinstance(cn.ast, ast.While) and cn.ast is not w:
                        came_from_inside = pred is not None and pred.ast is not None and id(pred.ast) in inner_body_ids(cn.ast)
                        if not came_from_inside and first_iteration_guaranteed(cn.ast):
                            skip_false = True
                    for s, lab in cn.succ:
                        if lab == "exc" or (skip_false and lab == "false"):
                            continue
                        st3 = st2
                        if cn.kind == "test" and lab == "true" and isinstance(cn.ast.test, ast.Call) and C.call_true_consumes(f, cn.ast.test):
                            st3 = True
                        if s is head or s.id in ids or s.kind == "join":
                            work.append((s, st3, cn))
                if bad_paths:
                    R.bad("P2", "%s|%s" % (f.key, short(w.test, 50)), f.loc(w),
                          "%s: the loop `while %s` can return to its head without consuming a token on some path: on malformed input the reader spins forever instead of failing" % (f.qualname, short(w.test, 60)))
                else:
                    R.ok("P2", "%s: while %s" % (f.qualname, short(w.test, 40)), f.loc(w))
    R.count("token-driven loops (P2)", n)
    R.floor("token-driven loops (P2)", 45)


def _p1(ctx, R):
    R.rule("P1", "the process-wide naming policy switched by a reader is restored on every exit, exceptional ones included")
    P = ctx.P
    n = 0
    for rel in PARSER_MODULES + ["spydrnet/composers/edif/composer.py", "spydrnet/composers/verilog/composer.py", "spydrnet/composers/eblif/eblif_composer.py"]:
        mod = P.module(rel)
        for f in mod.all_funcs():
            sets = [a for a in walk_local(f.node) if isinstance(a, ast.Assign) and any(norm(t).endswith("namespace_manager.default") or norm(t) == "NamespaceManager.default" for t in a.targets)]
            if not sets:
                continue
            n += 1
            # the saved value: `saved = namespace_manager.default`
            saved = [norm(a.targets[0]) for a in walk_local(f.node) if isinstance(a, ast.Assign) and norm(a.value).endswith("namespace_manager.default") and isinstance(a.targets[0], ast.Name)]
            cfg = cfg_of(f.node)

            def tr(n_, st):
                a = n_.ast
                if n_.kind == "stmt" and isinstance(a, ast.Assign):
                    if any(norm(t).endswith("namespace_manager.default") for t in a.targets):
                        if isinstance(a.value, ast.Name) and norm(a.value) in st[1]:
                            return ("restored", st[1])
                        return ("switched", st[1])
                    if norm(a.value).endswith("namespace_manager.default") and isinstance(a.targets[0], ast.Name):
                        if st[0] == "switched":
                            return ("switched-then-saved", st[1] | {a.targets[0].id})
                        return (st[0], st[1] | {a.targets[0].id})
                return st

            def jn(a, b):
                rank = {"clean": 0, "restored": 0, "switched": 2, "switched-then-saved": 3}
                return (a[0] if rank[a[0]] >= rank[b[0]] else b[0], a[1] & b[1])

            state = forward(cfg, ("clean", frozenset()), tr, jn)
            problems = []
            for ex, what in ((cfg.exit, "normal return"), (cfg.raise_exit, "exception")):
                st = state.get(ex.id)
                if st is not None and st[0] in ("switched", "switched-then-saved"):
                    problems.append((what, st[0]))
            # saved AFTER switching: the "restore" re-installs the switched value
            order_bad = any(st is not None and st[0] == "switched-then-saved" for st in state.values())
            if order_bad:
                R.bad("P1", "%s|saved-after-switch" % f.key, f.loc(sets[0]),
                      "%s reads the policy to restore only after it has already switched it: the value 'restored' is the reader's own policy, not the caller's" % f.qualname)
            elif problems:
                for what, _ in problems:
                    R.bad("P1", "%s|unrestored on %s" % (f.key, what), f.loc(sets[0]),
                          "%s switches namespace_manager.default and can leave on %s without restoring it: a rejected input leaves the process under the reader's naming policy" % (f.qualname, what))
            else:
                R.ok("P1", "%s restores the policy on all exits" % f.qualname, f.loc(sets[0]))
    # the same switch written as a `with` block: the context manager's class (or @contextmanager generator) must save, set and
    # restore; Python runs __exit__ on every way out of the block
    cms = _policy_context_managers(P)
    for rel in PARSER_MODULES:
        mod = P.module(rel)
        for f in mod.all_funcs():
            for w in walk_local(f.node):
                if not isinstance(w, ast.With):
                    continue
                for item in w.items:
                    c = item.context_expr
                    if not isinstance(c, ast.Call):
                        continue
                    nm = c.func.attr if isinstance(c.func, ast.Attribute) else (c.func.id if isinstance(c.func, ast.Name) else None)
                    if nm not in cms:
                        continue
                    n += 1
                    problem = cms[nm]
                    if problem:
                        R.bad("P1", "%s|with %s" % (f.key, nm), f.loc(w),
                              "%s switches the naming policy through `%s`, whose context manager %s: a rejected input leaves the process under the reader's naming policy"
                              % (f.qualname, short(c, 50), problem))
                    else:
                        R.ok("P1", "%s switches the policy in a with block whose manager restores it on exit" % f.qualname, f.loc(w))
    R.count("policy switches (P1)", n)
    R.floor("policy switches (P1)", 2)


def _policy_context_managers(P):
    """{callable name: None | what is wrong} for every way the code base offers to switch `<manager>.default` for the length of a with
    block: classes with __enter__/__exit__, functions that return an instance of one, @contextmanager generators"""
    out = {}

    def is_default(t):
        return isinstance(t, ast.Attribute) and t.attr == "default"
    classes = {}
    for rel, mod in sorted(P.modules.items()):
        for cname, ci in mod.classes.items():
            en, ex = ci.methods.get("__enter__"), ci.methods.get("__exit__")
            if en is None or ex is None:
                continue
            sets = [a for a in walk_local(en.node) if isinstance(a, ast.Assign) and any(is_default(t) for t in a.targets)]
            if not sets:
                continue
            problem = None
            # saved before it is set
            saves = [a for a in walk_local(en.node) if isinstance(a, ast.Assign) and is_default(a.value) and isinstance(a.targets[0], ast.Attribute)
                     and norm(a.targets[0].value) == "self"]
            if not saves or not any(a.lineno < sets[0].lineno for a in saves):
                problem = "does not save the previous policy before setting the new one"
            else:
                field = saves[0].targets[0].attr
                restores = [a for a in ex.node.body if isinstance(a, ast.Assign) and any(is_default(t) for t in a.targets)
                            and norm(a.value) == "self.%s" % field]
                if not restores:
                    problem = "does not put the saved policy back in __exit__ on every path"
                elif any(isinstance(r, ast.Return) and r.value is not None and not (isinstance(r.value, ast.Constant) and not r.value.value) for r in walk_local(ex.node)):
                    problem = "may swallow the exception in __exit__"
                elif any(isinstance(x, (ast.Return, ast.Raise)) and x.lineno < restores[0].lineno for x in walk_local(ex.node)):
                    problem = "can leave __exit__ before the policy is put back"
            classes[cname] = problem
            out[cname] = problem
    for rel, mod in sorted(P.modules.items()):
        funcs = list(mod.functions.values()) + [f for c in mod.classes.values() for f in c.all_funcs()]
        for f in funcs:
            body = [s_ for s_ in f.node.body if not (isinstance(s_, ast.Expr) and isinstance(s_.value, ast.Constant))]
            if len(body) == 1 and isinstance(body[0], ast.Return) and isinstance(body[0].value, ast.Call):
                c = body[0].value
                nm = c.func.attr if isinstance(c.func, ast.Attribute) else (c.func.id if isinstance(c.func, ast.Name) else None)
                if nm in classes:
                    out[f.name] = classes[nm]
            if any(norm(d).endswith("contextmanager") for d in f.node.decorator_list):
                sets = [a for a in walk_local(f.node) if isinstance(a, ast.Assign) and any(is_default(t) for t in a.targets)]
                if not sets:
                    continue
                ys = [y for y in walk_local(f.node) if isinstance(y, ast.Yield)]
                problem = None
                tries = [t for t in walk_local(f.node) if isinstance(t, ast.Try) and t.finalbody and any(y is x for y in ys for s_ in t.body for x in ast.walk(s_))]
                saved = [a for a in walk_local(f.node) if isinstance(a, ast.Assign) and is_default(a.value) and isinstance(a.targets[0], ast.Name)]
                if not saved or saved[0].lineno > sets[0].lineno:
                    problem = "does not save the previous policy before setting the new one"
                elif not tries or not any(isinstance(a, ast.Assign) and any(is_default(t) for t in a.targets) and norm(a.value) == saved[0].targets[0].id
                                          for a in tries[0].finalbody):
                    problem = "does not put the saved policy back in a finally clause around its yield"
                out[f.name] = problem
    return out


def _p3(ctx, R):
    R.rule("P3", "every textual reference to a library / cell / port / instance is checked for 'not found' before the result is used")
    P = ctx.P
    mod = P.module("spydrnet/parsers/edif/parser.py")
    n = 0
    for f in mod.all_funcs():
        for a in walk_local(f.node):
            if isinstance(a, ast.Assign) and isinstance(a.value, ast.Call) and norm(a.value.func) == "next" and len(a.value.args) in (1, 2) \
                    and isinstance(a.value.args[0], ast.Call):
                inner = a.value.args[0]
                if not (isinstance(inner.func, ast.Attribute) and inner.func.attr in ("get_definitions", "get_libraries", "get_ports", "get_instances")):
                    continue
                n += 1
                v = norm(a.targets[0])
                if len(a.value.args) == 1:
                    R.ok("P3", "%s: %s = next(...) raises StopIteration when not found" % (f.qualname, v), f.loc(a))
                    continue
                dflt = a.value.args[1]
                if not (isinstance(dflt, ast.Constant) and dflt.value is None):
                    R.bad("P3", "%s|%s|default" % (f.key, inner.func.attr), f.loc(a),
                          "%s resolves a reference with `%s`: when nothing is declared under that name it silently falls back to `%s` instead of rejecting the file"
                          % (f.qualname, short(a, 70), norm(dflt)))
                    continue
                # first statement after the lookup, in the same block, that mentions v
                par = getattr(a, "_parent", None)
                blk = None
                for b in ("body", "orelse", "finalbody"):
                    if a in getattr(par, b, []):
                        blk = getattr(par, b)
                nxt = None
                if blk is not None:
                    for st in blk[blk.index(a) + 1:]:
                        if any(isinstance(x, ast.Name) and x.id == v for x in ast.walk(st)):
                            nxt = st
                            break
                ok = False
                if isinstance(nxt, ast.Assert) and norm(nxt.test) in ("%s is not None" % v, "%s != None" % v, v):
                    ok = True
                if isinstance(nxt, ast.If) and norm(nxt.test) in ("%s is None" % v, "not %s" % v, "%s == None" % v) and any(isinstance(s, ast.Raise) for s in nxt.body):
                    ok = True
                if ok and not any(isinstance(x, ast.Name) and x.id == v and isinstance(x.ctx, ast.Load) and x.lineno > nxt.end_lineno for x in walk_local(f.node)):
                    R.bad("P3", "%s|%s|%s|result unused" % (f.key, inner.func.attr, v), f.loc(a),
                          "%s resolves `%s` and rejects an undeclared name, but never uses what it found: whatever that name qualifies is looked up "
                          "in a wider scope" % (f.qualname, v))
                elif ok:
                    R.ok("P3", "%s: %s checked" % (f.qualname, v), f.loc(a))
                else:
                    R.bad("P3", "%s|%s|%s" % (f.key, inner.func.attr, v), f.loc(a),
                          "%s resolves a reference with `%s` and %s: a reference to something that was never declared is not rejected"
                          % (f.qualname, short(a, 70), "uses the result without a not-found check" if nxt is not None and not isinstance(nxt, (ast.Assert, ast.If)) else
                             ("handles None with `%s` instead of rejecting it" % short(nxt, 50) if nxt is not None else "never checks the result")))
        # for ... break searches over netlist relations whose loop variable is used after the loop
        for lp in walk_local(f.node):
            if isinstance(lp, ast.For) and isinstance(lp.iter, ast.Attribute) and lp.iter.attr in ("libraries", "definitions", "ports", "children", "cables") \
                    and any(isinstance(x, ast.Break) for x in ast.walk(lp)) and isinstance(lp.target, ast.Name):
                par = getattr(lp, "_parent", None)
                blk = None
                for b in ("body", "orelse"):
                    if lp in getattr(par, b, []):
                        blk = getattr(par, b)
                used_after = blk is not None and any(isinstance(x, ast.Name) and x.id == lp.target.id for st in blk[blk.index(lp) + 1:] for x in ast.walk(st))
                rejects = bool(lp.orelse) and any(isinstance(s, (ast.Raise, ast.Assert)) for s in lp.orelse)
                if not used_after:
                    later = any(isinstance(x, ast.Name) and x.id == lp.target.id and isinstance(x.ctx, ast.Load) and x.lineno > lp.end_lineno for x in walk_local(f.node))
                    if rejects and not later:
                        # a qualified reference (cellRef within libraryRef, portRef within instanceRef): the container is resolved and
                        # checked, but what it contains is then looked up somewhere else
                        n += 1
                        R.bad("P3", "%s|search %s|result unused" % (f.key, lp.iter.attr), f.loc(lp),
                              "%s resolves `%s` among `%s` (and rejects an undeclared name) but never uses what it found: the name qualified by it is "
                              "looked up in a wider scope, so a reference to something the named container does not declare is accepted"
                              % (f.qualname, lp.target.id, norm(lp.iter)))
                    continue
                n += 1
                if rejects:
                    R.ok("P3", "%s: search over %s rejects not-found" % (f.qualname, norm(lp.iter)), f.loc(lp))
                else:
                    R.bad("P3", "%s|search %s" % (f.key, lp.iter.attr), f.loc(lp),
                          "%s searches `%s` with for/break and uses `%s` afterwards without a not-found check: an undeclared name silently selects the last element"
                          % (f.qualname, norm(lp.iter), lp.target.id))
    R.count("reference resolutions (P3)", n)
    R.floor("reference resolutions (P3)", 7)


def _p5(ctx, R):
    R.rule("P5", "error discipline: every except handler between the tokenizers and sdn.parse re-raises, or is a reviewed handler")
    P = ctx.P
    n = 0
    for rel in PARSER_MODULES:
        mod = P.module(rel)
        for f in mod.all_funcs():
            for tr in walk_local(f.node):
                if not isinstance(tr, ast.Try):
                    continue
                for h in tr.handlers:
                    n += 1
                    types = [norm(t) for t in (h.type.elts if isinstance(h.type, ast.Tuple) else [h.type])] if h.type is not None else ["<bare>"]
                    last = h.body[-1]
                    always_raises = isinstance(last, ast.Raise) or (isinstance(last, ast.If) and last.orelse and all(isinstance(b[-1], ast.Raise) for b in (last.body, last.orelse)))
                    idi = _idiom(f, tr, h)
                    for t in types:
                        key = (f.qualname, t)
                        if always_raises:
                            R.ok("P5", "%s except %s re-raises" % (f.qualname, t), f.loc(h))
                        elif idi:
                            R.ok("P5", "%s except %s: %s" % (f.qualname, t, idi), f.loc(h))
                        elif key in REVIEWED_HANDLERS:
                            R.ok("P5", "%s except %s: %s" % (f.qualname, t, REVIEWED_HANDLERS[key]), f.loc(h))
                        else:
                            R.bad("P5", "%s|except %s|swallow" % (f.key, t), f.loc(h),
                                  "%s handles %s without re-raising (`%s`): a malformed input continues with a half-built netlist instead of failing"
                                  % (f.qualname, t, short(h.body[0], 50)))
    # a return / break / continue inside a finally block discards the exception in flight
    for rel in PARSER_MODULES:
        mod = P.module(rel)
        for f in mod.all_funcs():
            for tr in walk_local(f.node):
                if isinstance(tr, ast.Try) and tr.finalbody:
                    n += 1
                    esc = [x for st in tr.finalbody for x in ast.walk(st) if isinstance(x, (ast.Return, ast.Break, ast.Continue))]
                    if esc:
                        R.bad("P5", "%s|finally-escape" % f.key, f.loc(esc[0]),
                              "%s leaves its `finally` block with `%s`: the parse error in flight is discarded and a half-built netlist is handed back" % (f.qualname, short(esc[0], 30)))
                    else:
                        R.ok("P5", "%s: finally block does not swallow the error" % f.qualname, f.loc(tr))
    R.count("except handlers (P5)", n)
    R.floor("except handlers (P5)", 12)


@register("C15",
          "Static analysis of the three readers and their tokenizers: P1 (exception-aware CFG dataflow) every switch of the process-wide naming "
          "policy is undone on every exit of the function, exceptional exits included, and the value restored was read before the switch (written as try/finally, or as a with block whose context manager saves, sets and restores); P2 "
          "(interprocedural must-consume / consumes-when-true summaries) every token-driven loop consumes a token or exits on every path back "
          "to its head, so no input can make a reader spin; P3 every resolution of a textual reference in the EDIF reader is followed by a "
          "not-found check before the result is used (None handled by rejection, for/break searches have a rejecting else) and a container that was resolved and checked is then actually used (the name it qualifies is not looked up in a wider scope); P5 every except "
          "handler re-raises or is one of the reviewed handlers. Decides that the readers cannot hang, cannot keep the policy switched and "
          "do not accept dangling references silently; that every corruption is detected is not decided.")
def check_c15(ctx, R):
    _p1(ctx, R)
    _p2(ctx, R)
    _p3(ctx, R)
    _p5(ctx, R)
