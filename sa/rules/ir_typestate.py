"""C14 (a refused edit changes nothing) and C19 (listeners are told before the change):
typestate rules over the IR mutators + the callback wiring table."""
import ast

from ..core import AnalysisError, norm, short, walk_local
from ..cfg import cfg_of, forward
from ..typestate import is_public_entry, is_clone_family
from . import register

NS_INIT = "spydrnet/plugins/namespace_manager/__init__.py"
GC = "spydrnet/global_state/global_callback.py"
CL = "spydrnet/callback/callback_listener.py"


# ------------------------------------------------------------------------------------------------
# N2: the namespace manager checks before it updates (shared by C14 and C10)
# ------------------------------------------------------------------------------------------------
def rule_n2(ctx, R, rid="N2"):
    R.rule(rid, "namespace manager: no conflict test / raise / element-data store (re-entrant refusal point) "
                "is reachable after an index update in the same handler")
    P = ctx.P
    nm = P.cls(NS_INIT, "NamespaceManager")
    from ..inline import inlined_view
    SELF_UPD = ("apply_namespace", "drop_namespace", "_update_new_namespace", "remove", "add")
    # a handler is read with its private helpers spliced in (the anchors the classification names stay calls); a private helper
    # that is only ever called from methods of this class has no life of its own: it is decided where it is called
    views = {name: inlined_view(P, f, keep=set(SELF_UPD)) for name, f in nm.methods.items()}
    called_privately = {h for v in views.values() for h in getattr(v, "inlined_helpers", ())}
    called_privately = {h.split(".")[-1] for h in called_privately}
    elsewhere = {c.func.attr for m in P.modules.values() for fn in m.all_funcs() if fn.cls is not nm
                 for c in walk_local(fn.node) if isinstance(c, ast.Call) and isinstance(c.func, ast.Attribute)}
    handlers = []
    for name, f0 in sorted(nm.methods.items()):
        f = views[name]
        sets_ignore = any(isinstance(n, ast.Assign) and any(norm(t) == "self.ignore_ns_change" for t in n.targets)
                          for n in walk_local(f.node))
        if sets_ignore or name in ("__init__", "lookup", "register_all_listeners", "deregister_all_listeners",
                                   "get_parent", "is_compliant", "_update_new_namespace"):
            continue
        if name.startswith("_") and not name.startswith("__") and name in called_privately and name not in elsewhere:
            continue
        handlers.append(f)
    for must in ("add", "remove", "dictionary_set", "dictionary_delete", "dictionary_pop"):
        if must not in nm.methods:
            raise AnalysisError("anchor vanished: NamespaceManager.%s" % must)

    UPD_METHODS = ("update", "remove")

    def classify(node):
        """(updates, refusals) in evaluation order for one CFG node"""
        out = []
        a = node.ast
        if node.kind == "raisestmt":
            return [("refuse", a)]
        exprs = []
        if node.kind in ("stmt",) and isinstance(a, (ast.Expr, ast.Assign, ast.AugAssign)):
            exprs.append(a.value)
        elif node.kind in ("test", "assert"):
            exprs.append(a.test)
        elif node.kind == "iter":
            exprs.append(a.iter)
        elif node.kind == "return" and a.value is not None:
            exprs.append(a.value)
        for e in exprs:
            for c in ast.walk(e):
                if isinstance(c, ast.Call) and isinstance(c.func, ast.Attribute):
                    recv = norm(c.func.value)
                    m = c.func.attr
                    if m == "no_conflict" or m == "is_name_valid" or m == "is_compliant":
                        out.append(("refuse", c))
                    elif recv == "self" and m in SELF_UPD:
                        out.append(("update", c))
                    elif recv != "self" and m in UPD_METHODS and recv not in ("search_stack",):
                        out.append(("update", c))
        if node.kind == "stmt":
            tg = []
            if isinstance(a, ast.Assign):
                tg = a.targets
            elif isinstance(a, ast.Delete):
                tg = a.targets
            for t in tg:
                if isinstance(t, ast.Subscript):
                    if norm(t.value) == "self.namespaces":
                        out.append(("update", t))
                    elif isinstance(t.slice, ast.Constant) and isinstance(t.slice.value, str):
                        # element["<key>"] = ... re-enters dictionary_set / dictionary_delete, which may refuse
                        out.append(("refuse", t))
        return out

    n_h = 0
    for f in handlers:
        cfg = cfg_of(f.node)
        n_h += 1

        def transfer(n, st, record=None):
            for kind, c in classify(n):
                if kind == "refuse":
                    if st and record is not None:
                        record.append((c, sorted(st)))
                else:
                    st = st | {short(c, 60)}
            return st

        state = forward(cfg, frozenset(), transfer, lambda a, b: a | b)
        bad = []
        for n in cfg.nodes:
            if n.id in state:
                transfer(n, state[n.id], bad)
        if bad:
            for c, ups in bad:
                R.bad(rid, "%s|%s" % (f.key, short(c, 80)), f.loc(c),
                      "refusal point `%s` is reachable after the index update `%s` in %s: a refused edit leaves the name index changed"
                      % (short(c, 60), ups[0], f.qualname), {"updates_before": ups})
        else:
            R.ok(rid, f.qualname, f.loc())
    R.count("namespace handlers (N2)", n_h)
    R.floor("namespace handlers (N2)", 13)


# ------------------------------------------------------------------------------------------------
# C14
# ------------------------------------------------------------------------------------------------
@register("C14",
          "Static typestate CHECK* -> NOTIFY -> WRITE* over every function of spydrnet/ir (statement CFG, forward "
          "may-dataflow of shared-state writes, interprocedural effect summaries specialised on None arguments): "
          "R1 no write to shared state can precede a refusal point (own assert/raise, a notification the namespace "
          "manager can veto, a callee that can dispatch one) on any path of any mutator; R1c the same for the compound "
          "create_* constructors (writes to the half-built FRESH element are not shared writes); N2 the namespace "
          "manager's handlers never reach a refusal point after an index update; R1d once shared state is written, the membership "
          "guard of a called mutator is implied by what the caller checked (directly, by a universally quantified assert over the "
          "iterated collection, or because the receiver was read from the argument's own back pointer). Decides the ordering clause that makes "
          "'a refused edit changes nothing' hold; does not decide refusals by third-party listeners or type errors.",
          ["the set of vetoable event kinds is computed from the namespace manager's call graph; create_* kinds are "
           "excluded (a brand-new element has nothing to conflict with)"])
def check_c14(ctx, R):
    T = ctx.typestate
    M = ctx.model
    R.rule("R1", "no shared-state write before a refusal point on any path of an IR mutator")
    R.rule("R1c", "compound constructors: nothing of the half-built element is registered before the fallible add")
    n_mut = n_ctor = 0
    # a private method that is only ever called by constructors on the element under construction works on a half-built, unshared
    # element just as the constructor does (`self._set_initial_properties(properties)` at the end of every __init__)
    sites = {}
    for f_ in T.funcs.values():
        for evs in M.events(f_).by_node.values():
            for ev in evs:
                if ev.kind == "call" and not ev.ctor:
                    for t in ev.targets or []:
                        sites.setdefault(t.key, []).append((f_, norm(ev.recv) if ev.recv is not None else None))
    ctor_helpers = set()
    for k_, f_ in T.funcs.items():
        if f_.name.startswith("_") and not f_.name.startswith("__") and f_.role == "method" and sites.get(k_) \
                and all(c_.name == "__init__" and r_ == "self" for c_, r_ in sites[k_]):
            ctor_helpers.add(k_)
    for (key, nones), s in sorted(T.table.items(), key=lambda kv: (kv[0][0], sorted(kv[0][1]))):
        if nones:
            continue
        f = T.funcs[key]
        if is_clone_family(f) or key in ctor_helpers:
            continue
        shared = [w for w in s.writes if w[0] != "fresh"]
        if not shared:
            continue
        is_ctor = f.name.startswith("create_")
        rid = "R1c" if is_ctor else "R1"
        if is_ctor:
            n_ctor += 1
        else:
            n_mut += 1
        if s.r1:
            for ev, dirty, why in s.r1:
                R.bad(rid, "%s|%s" % (f.key, short(ev.stmt, 80)), f.loc(ev.stmt),
                      "%s: refusal point (%s) at `%s` is reachable after shared state was already written (%s)"
                      % (f.qualname, why, short(ev.stmt, 60), "; ".join("%s.%s %s [%s]" % d for d in dirty[:3])),
                      {"function": f.key, "refusal": why, "writes_before": [list(d) for d in dirty]})
        else:
            R.ok(rid, f.qualname, f.loc())
    R.count("IR mutators with shared writes (R1)", n_mut)
    R.count("compound constructors (R1c)", n_ctor)
    R.floor("IR mutators with shared writes (R1)", 40)
    R.floor("compound constructors (R1c)", 6)
    # R1d: a call to another mutator whose membership guard the caller has not established is a refusal point of the caller
    from .ir_structure import pairing
    from ..typestate import is_public_entry
    R.rule("R1d", "cascade calls: when shared state was already written, the membership guard of a called mutator is implied by what the caller checked")
    PA = pairing(ctx)
    n_calls = 0
    for key, f in sorted(PA.funcs.items()):
        if is_clone_family(f) or f.name == "__init__":
            continue
        res = PA.results[key]
        fe = res["fe"]
        guarded_calls = set()
        for evs in fe.by_node.values():
            for ev in evs:
                if ev.kind == "call" and not ev.ctor:
                    for t in ev.targets or []:
                        if t.key in PA.funcs and PA._cache.get("guards:" + t.key):
                            guarded_calls.add(id(ev))
        seen = {}
        for ev, t, miss, dirty in res.get("cascade", []):
            seen.setdefault((id(ev), miss), (ev, t, miss, dirty))
        n_calls += len(guarded_calls)
        for (i, miss), (ev, t, miss, dirty) in sorted(seen.items(), key=lambda kv: kv[0][1]):
            R.bad("R1d", "%s|%s|%s" % (f.key, t.qualname, short(ev.node, 40)), f.loc(ev.stmt),
                  "%s calls `%s` after shared state was already written (%s), but %s and nothing the caller checked implies it: the call can be "
                  "refused half-way, leaving the earlier writes in place" % (f.qualname, short(ev.node, 40), "; ".join(sorted(dirty))[:120], miss))
        if guarded_calls and not seen:
            R.ok("R1d", "%s: %d cascade call(s) with established guards" % (f.qualname, len(guarded_calls)), f.loc())
    R.count("cascade calls to guarded mutators after a write (R1d)", n_calls)
    R.count("refusable event kinds", len(M.refusable))
    R.floor("refusable event kinds", 6)
    R.note("refusable kinds: %s" % ", ".join(sorted(M.refusable)))
    R.note("typestate table: %d function instances, %d fixpoint rounds" % (len(T.table), T.rounds))
    rule_n2(ctx, R)


# ------------------------------------------------------------------------------------------------
# C19
# ------------------------------------------------------------------------------------------------
def _e1(ctx, R):
    R.rule("E1", "callback wiring table: for each event kind the nine artefacts agree (container, _call_, register_, "
                 "deregister_, listener stub, register_all branch, deregister_all branch, listener register_/deregister_)")
    R.rule("E4", "CallbackListener registers / deregisters exactly the overridden hooks")
    P = ctx.P
    gc = P.module(GC)
    cl = P.cls(CL, "CallbackListener")
    kinds = ctx.model.event_kinds
    cells = 0

    def names_in(node):
        return {n.id for n in ast.walk(node) if isinstance(n, ast.Name)}

    helper_ok = {}
    for hname, meth in (("_register", "append"), ("_deregister", "remove")):
        h = gc.functions.get(hname)
        ok = False
        if h is not None and len(h.params) == 2:
            for n in walk_local(h.node):
                if isinstance(n, ast.Call) and isinstance(n.func, ast.Attribute) and n.func.attr == meth \
                        and norm(n.func.value) == h.params[0] and n.args and norm(n.args[0]) == h.params[1]:
                    ok = True
        helper_ok[hname] = ok

    def reg_fn_ok(fn, container, helper, meth):
        """register_K(method): _register(_container_K, method) or _container_K.append(method)"""
        f = gc.functions.get(fn)
        if f is None:
            return "missing function %s" % fn
        hits, wrong = 0, []
        for n in walk_local(f.node):
            if isinstance(n, ast.Call):
                if norm(n.func) == helper and n.args:
                    if norm(n.args[0]) == container and helper_ok[helper]:
                        hits += 1
                    else:
                        wrong.append(norm(n.args[0]))
                elif isinstance(n.func, ast.Attribute) and n.func.attr == meth:
                    if norm(n.func.value) == container:
                        hits += 1
                    elif norm(n.func.value).startswith("_container_"):
                        wrong.append(norm(n.func.value))
        if wrong:
            return "%s operates on %s instead of %s" % (fn, wrong[0], container)
        if hits != 1:
            return "%s does not %s into %s exactly once" % (fn, meth, container)
        return None

    def all_branch(allfn, k, call):
        """in register_all / deregister_all: `if self.K.__func__ is not CallbackListener.K: self.<call>()`"""
        f = cl.methods.get(allfn)
        if f is None:
            return "missing %s" % allfn
        found = []
        for n in walk_local(f.node):
            if isinstance(n, ast.If):
                calls = [norm(c.func) for s in n.body for c in ast.walk(s) if isinstance(c, ast.Call)]
                if "self.%s" % call in calls:
                    found.append(n)
        if len(found) != 1:
            return "%s: %d guarded call(s) of self.%s()" % (allfn, len(found), call)
        t = found[0].test
        ok = isinstance(t, ast.Compare) and len(t.ops) == 1 and isinstance(t.ops[0], ast.IsNot) \
            and {norm(t.left), norm(t.comparators[0])} == {"self.%s.__func__" % k, "CallbackListener.%s" % k}
        if not ok:
            return "%s: self.%s() is guarded by `%s`, not by the override test of hook %s" % (allfn, call, short(t, 70), k)
        body_calls = [norm(c.func) for s in found[0].body for c in ast.walk(s) if isinstance(c, ast.Call)]
        if body_calls != ["self.%s" % call]:
            return "%s: branch for %s also calls %s" % (allfn, k, body_calls)
        return None

    def listener_reg(fn, k, gfn):
        f = cl.methods.get(fn)
        if f is None:
            return "missing CallbackListener.%s" % fn
        calls = [c for c in walk_local(f.node) if isinstance(c, ast.Call) and norm(c.func).startswith("global_callback.")]
        if len(calls) != 1:
            return "CallbackListener.%s makes %d global_callback calls" % (fn, len(calls))
        c = calls[0]
        if norm(c.func) != "global_callback.%s" % gfn:
            return "CallbackListener.%s calls %s, expected global_callback.%s" % (fn, norm(c.func), gfn)
        if len(c.args) != 1 or norm(c.args[0]) != "self.%s" % k:
            return "CallbackListener.%s passes %s, expected self.%s" % (fn, norm(c.args[0]) if c.args else "nothing", k)
        return None

    for k in kinds:
        cont = "_container_%s" % k
        probs = {}
        # 1 container is a fresh list
        v = gc.assigns.get(cont)
        probs["container"] = None if isinstance(v, ast.List) and not v.elts else "container %s is not initialised to []" % cont
        # 2 dispatcher
        f = gc.functions.get("_call_%s" % k)
        p = "missing _call_%s" % k
        if f is not None:
            p = "_call_%s does not iterate %s calling each entry with its arguments" % (k, cont)
            for n in walk_local(f.node):
                if isinstance(n, ast.For) and norm(n.iter) == cont and isinstance(n.target, ast.Name):
                    for c in ast.walk(n):
                        if isinstance(c, ast.Call) and norm(c.func) == n.target.id \
                                and any(isinstance(a, ast.Starred) for a in c.args):
                            p = None
                elif isinstance(n, ast.For) and norm(n.iter).startswith("_container_") and norm(n.iter) != cont:
                    p = "_call_%s iterates %s" % (k, norm(n.iter))
                    break
        probs["dispatcher"] = p
        probs["register"] = reg_fn_ok("register_%s" % k, cont, "_register", "append")
        probs["deregister"] = reg_fn_ok("deregister_%s" % k, cont, "_deregister", "remove")
        # 5 stub
        st = cl.methods.get(k)
        probs["stub"] = None if st is not None and any(isinstance(n, ast.Raise) for n in walk_local(st.node)) and st.params[:1] == ["self"] \
            else "CallbackListener.%s stub missing or not raising NotImplementedError" % k
        probs["register_all"] = all_branch("register_all_listeners", k, "register_%s" % k)
        probs["deregister_all"] = all_branch("deregister_all_listeners", k, "deregister_%s" % k)
        probs["listener_register"] = listener_reg("register_%s" % k, k, "register_%s" % k)
        probs["listener_deregister"] = listener_reg("deregister_%s" % k, k, "deregister_%s" % k)
        for art, p in probs.items():
            cells += 1
            rid = "E4" if art in ("register_all", "deregister_all") else "E1"
            if p is None:
                R.ok(rid, "%s/%s" % (k, art))
            else:
                R.bad(rid, "%s|%s" % (k, art), CL if "listener" in art or "all" in art or art == "stub" else GC,
                      "wiring of event kind %s, artefact %s: %s" % (k, art, p))
    R.count("wiring cells (E1/E4)", cells)
    R.floor("wiring cells (E1/E4)", 27 * 9, strict=True)
    # init registers
    init = cl.methods.get("__init__")
    if init is None or "self.register_all_listeners" not in [norm(c.func) for c in walk_local(init.node) if isinstance(c, ast.Call)]:
        R.bad("E4", "CallbackListener.__init__|register_all_listeners", CL, "CallbackListener.__init__ does not call register_all_listeners")
    else:
        R.ok("E4", "CallbackListener.__init__ -> register_all_listeners")


def _e5_bulk(ctx, R):
    """a bulk removal announces exactly the elements it drops: the helper that dispatches the removal event is called in a loop
    over the very set the rebuilt container excludes"""
    from .ir_structure import bulk_removals
    R.rule("E5b", "bulk removals announce exactly the elements they drop")
    T = ctx.typestate
    n = 0
    for f, rel, S, loops, wev in bulk_removals(ctx):
        n += 1
        ok = False
        for lp in loops:
            for c in ast.walk(lp):
                if isinstance(c, ast.Call) and isinstance(c.func, ast.Attribute) and norm(c.func.value) == "self":
                    t = ctx.P.ir_lookup_method(f.cls.name, c.func.attr)
                    s_ = T.table.get((t.key, frozenset())) if t is not None else None
                    if s_ is not None and set(rel.rem_kinds) & set(s_.notifies):
                        ok = True
                if isinstance(c, ast.Call) and isinstance(c.func, ast.Attribute) and c.func.attr in ("_call_" + k for k in rel.rem_kinds):
                    ok = True
        if ok:
            R.ok("E5b", "%s announces %s for each element of %s" % (f.qualname, "/".join(rel.rem_kinds), S), f.loc(wev.stmt))
        else:
            R.bad("E5b", "%s|bulk %s" % (f.key, rel.name), f.loc(wev.stmt),
                  "%s drops the elements of `%s` from the %s list, but %s is not dispatched in a loop over `%s`: elements disappear with no "
                  "announcement (or others are announced)" % (f.qualname, S, rel.name, "/".join(rel.rem_kinds), S))
    R.count("bulk removals (E5b)", n)
    R.floor("bulk removals (E5b)", 6)


def _e_args(ctx, R):
    """every dispatch in spydrnet/ir passes `self` first and as many arguments as the listener hook takes"""
    R.rule("E3a", "each _call_<kind>(...) in spydrnet/ir passes the mutated object first and the hook's arity")
    cl = ctx.P.cls(CL, "CallbackListener")
    M = ctx.model
    n = 0
    for f in M.ir_funcs():
        fe = M.events(f)
        for evs in fe.by_node.values():
            for ev in evs:
                if ev.kind != "notify":
                    continue
                n += 1
                stub = cl.methods.get(ev.event)
                want = len(stub.params) - 1 if stub else None
                a = ev.args
                probs = []
                if want is not None and len(a) != want:
                    probs.append("passes %d argument(s), the hook takes %d" % (len(a), want))
                # (in a private module-level function the first parameter stands for the object the calling method is working on)
                me = "self" if f.cls is not None or not f.params or not f.name.startswith("_") else f.params[0]
                if not a or norm(a[0]) != me:
                    probs.append("first argument is `%s`, not the object being changed" % (norm(a[0]) if a else "-"))
                if len(a) >= 2 and isinstance(a[1], ast.Name) and a[1].id == "self":
                    probs.append("second argument is self")
                if probs:
                    R.bad("E3a", "%s|%s" % (f.key, short(ev.node, 80)), f.loc(ev.node),
                          "%s: dispatch `%s` %s" % (f.qualname, short(ev.node, 70), "; ".join(probs)))
                else:
                    R.ok("E3a", "%s: %s" % (f.qualname, short(ev.node, 60)), f.loc(ev.node))
    R.count("dispatch sites in spydrnet/ir", n)
    R.floor("dispatch sites in spydrnet/ir", 26)


@register("C19",
          "Static typestate over every function of spydrnet/ir plus exhaustive table agreement of the callback wiring: "
          "E1/E4 for each of the 27 event kinds the nine wiring artefacts agree and register_all/deregister_all register "
          "exactly the overridden hooks (finite table, enumerated completely); E2 no own assert/raise is reachable while "
          "an announced change is still pending (announced, then refused); E3 every write to a relation field "
          "(containment, connection, reference, outer pins, top instance, data) is dominated on every path by the "
          "dispatch of an announcing event kind, interprocedurally (a helper's write may be announced by its caller); "
          "E3a dispatch arity/first argument; E5 the element a relation write concerns is one the dispatch named; E5b a bulk removal dispatches the removal event in a loop over exactly the set the rebuilt container excludes. Decides that announcements exist and come first; does not decide that the "
          "arguments suffice for an exact mirror, nor duplicate announcements.",
          ["writes on objects created by a clone are clone-internal (decided under C07); only writes that leave the clone "
           "through a cross pointer are subject to E3"])
def check_c19(ctx, R):
    T = ctx.typestate
    _e1(ctx, R)
    _e_args(ctx, R)
    _e5_bulk(ctx, R)
    R.rule("E2", "no announcement precedes one of the mutator's own assert/raise (no phantom announcement)")
    R.rule("E3", "every relation write is announced before it takes effect")
    R.rule("E5", "the element a relation write concerns is one of the objects named by the announcement dispatched before it in the same function")
    n_pub = 0
    seen_origin = {}
    n_writes = 0
    for (key, nones), s in sorted(T.table.items(), key=lambda kv: (kv[0][0], sorted(kv[0][1]))):
        if nones:
            continue
        f = T.funcs[key]
        if s.e2:
            for ev, pend in s.e2:
                R.bad("E2", "%s|%s" % (f.key, ",".join(pend)), f.loc(ev.stmt),
                      "%s: `%s` can refuse the call after %s was already announced (the announced change then does not happen)"
                      % (f.qualname, short(ev.stmt, 60), ", ".join(pend)), {"pending": pend})
        elif s.notifies:
            R.ok("E2", f.qualname, f.loc())
        for ev, el, here in getattr(s, "e5", []):
            R.bad("E5", "%s|%s.%s|%s" % (f.key, ev.cls, ev.field, el), f.loc(ev.stmt),
                  "%s: `%s` changes the relation for `%s`, but the announcement dispatched before it (%s) names other objects: a listener replaying the "
                  "announcements records a different change than the one made" % (f.qualname, short(ev.stmt, 60), el, "; ".join("%s(%s)" % (k, ", ".join(a)) for k, a in here)))
        if s.notifies and not getattr(s, "e5", []) and any(w[0] != "fresh" for w in s.writes):
            R.ok("E5", f.qualname, f.loc())
        if not is_public_entry(f):
            continue
        n_pub += 1
        n_writes += len([w for w in s.writes if w[0] != "fresh"])
        for u in sorted(s.unannounced, key=str):
            sp, cls, field, op, okey, otext, oloc, why = u
            seen_origin.setdefault((okey, "%s.%s %s" % (cls, field, op)), [cls, field, op, oloc, why, [], otext])[5].append(f.qualname)
        if not s.unannounced and any(w[0] != "fresh" for w in s.writes):
            R.ok("E3", f.qualname, f.loc())
    for (okey, fop), (cls, field, op, oloc, why, entries, otext) in sorted(seen_origin.items()):
        R.bad("E3", "%s|%s" % (okey, fop), oloc,
              "write `%s` to %s.%s (%s) in %s is not announced to listeners first: %s; reached from %s"
              % (otext, cls, field, op, okey.split(":")[1], why, ", ".join(sorted(set(entries))[:6])),
              {"entries": sorted(set(entries)), "why": why})
    R.count("public IR entry points (E3)", n_pub)
    R.count("shared relation writes reachable from public entry points", n_writes)
    R.floor("public IR entry points (E3)", 100)
    R.floor("shared relation writes reachable from public entry points", 80)
