"""Self-test entries for the rules added after the fifth seed wave (one mutant per rule, with a benign twin where a natural one exists)."""
from ..mutants import Mutant, add

H = "spydrnet/util/hierarchical_reference.py"
U = "spydrnet/util/"
E = "spydrnet/composers/edif/composer.py"
EN = "spydrnet/composers/edif/edifify_names.py"
B = "spydrnet/composers/eblif/eblif_composer.py"
F = "spydrnet/flatten.py"
N = "spydrnet/ir/netlist.py"

add("C18",
    Mutant("B5b gates written through the subcircuit writer without the gate flag",
           (B, 'self.compose_subcircuits(categories["EBLIF.gate"], is_gate=True)', 'self.compose_subcircuits(categories["EBLIF.gate"])'), "B5b|kind|EBLIF.gate"),
    Mutant("twin: the gate flag passed positionally",
           (B, 'self.compose_subcircuits(categories["EBLIF.gate"], is_gate=True)', 'self.compose_subcircuits(categories["EBLIF.gate"], True)'), None))

BP = "spydrnet/parsers/eblif/eblif_parser.py"
_UNCONN_OLD = """                try:
                    instance[et.UNCONN]
                except KeyError:
                    instance[et.UNCONN] = []
                instance[et.UNCONN].append(port_name + "[" + str(pin_index) + "]")
                continue
"""
add("C18",
    Mutant("B9 only the first open actual of an instance is skipped (seeded C18-w3A)",
           (BP, _UNCONN_OLD, """                pin_label = port_name + "[" + str(pin_index) + "]"
                try:
                    instance[et.UNCONN].append(pin_label)
                except KeyError:
                    instance[et.UNCONN] = [pin_label]
                    continue
"""), "B9|"),
    Mutant("twin: the open-actual bookkeeping with a membership test, still leaving the iteration",
           (BP, _UNCONN_OLD, """                if et.UNCONN not in instance:
                    instance[et.UNCONN] = []
                instance[et.UNCONN].append(port_name + "[" + str(pin_index) + "]")
                continue
"""), None))

add("C03",
    Mutant("B4 member index offset by the port's base index",
           (E, """            for x in range(len(inner_pin.port.pins)):
                if inner_pin == inner_pin.port.pins[x]:
                    self._output_.write(" " + str(x))
                    self._lisp_decrement_()""",
            """            self._output_.write(" " + str(inner_pin.port.pins.index(inner_pin) + inner_pin.port.lower_index))
            self._lisp_decrement_()"""), "member index offset"),
    Mutant("twin: member index from list.index",
           (E, """            for x in range(len(inner_pin.port.pins)):
                if inner_pin == inner_pin.port.pins[x]:
                    self._output_.write(" " + str(x))
                    self._lisp_decrement_()""",
            """            self._output_.write(" " + str(inner_pin.port.pins.index(inner_pin)))
            self._lisp_decrement_()"""), None))

add("C17",
    Mutant("I3 the conflict test forgets identifiers already handed out",
           (EN, """            if (
                element.name is not None and element.name.lower() == identifier.lower()
            ) or (
                "EDIF.identifier" in element.data
                and element["EDIF.identifier"].lower() == identifier.lower()
            ):
                return False""",
            """            if element.name is not None and element.name.lower() == identifier.lower():
                return False"""), "I3|"))

add("C09",
    Mutant("F4 both disconnects skipped when one side of the port is open",
           (F, """        if in_wire:
            in_wire.disconnect_pin(in_pin)
        if out_wire:
            out_wire.disconnect_pin(out_pin)
""", """        if in_wire is None or out_wire is None:
            continue
        in_wire.disconnect_pin(in_pin)
        out_wire.disconnect_pin(out_pin)
"""), "boundary pin left on a one-sided port"))

add("C11",
    Mutant("H14 the wire step only looks at the kind of the parent's item",
           (H, """                cable = item.cable
                if not cable:
                    return False
                if hparent.item != cable:
                    return False""",
            """                cable = item.cable
                if not cable:
                    return False
                if not isinstance(hparent.item, ir.Cable):
                    return False"""), "H14|"),
    Mutant("H4 top-instance test written as `top and top == item`",
           (H, """                    if not top_instance:
                        return False
                    if top_instance == item:
                        return True
                    return False""", """                    return top_instance and top_instance == item"""), "H4|"),
    Mutant("twin: top-instance test as a boolean conjunction",
           (H, """                    if not top_instance:
                        return False
                    if top_instance == item:
                        return True
                    return False""", """                    return bool(top_instance) and top_instance == item"""), None))

add("C12",
    Mutant("H9 exclusion moved into the helper and written against the bare pin",
           [(U + "get_hwires.py", """                    search_stack += (
                        x for x in _get_hpins_from_hwire(hwire_inside) if x != hpin
                    )""", """                    search_stack += _get_hpins_from_hwire(hwire_inside, hpin.item)"""),
            (U + "get_hwires.py", "def _get_hpins_from_hwire(hwire):", "def _get_hpins_from_hwire(hwire, origin=None):"),
            (U + "get_hwires.py", """            port = pin.port
            if port:
                hport = HRef.from_parent_and_item(hinst, port)""", """            port = pin.port
            if port and pin is not origin:
                hport = HRef.from_parent_and_item(hinst, port)""")], "item-exclusion"),
    Mutant("H15 port pins of a hierarchical wire listed under every occurrence",
           (U + "get_hpins.py", """                        port = pin.port
                        if port:
                            href_port = HRef.from_parent_and_item(
                                href_parent_instance, port
                            )
                            href_pin = HRef.from_parent_and_item(href_port, pin)
                            if href_pin not in in_yield:
                                in_yield.add(href_pin)
                                yield href_pin""", """                        for href_pin in HRef.get_all_hrefs_of_item(pin):
                            if href_pin not in in_yield:
                                in_yield.add(href_pin)
                                yield href_pin"""), "H15|"))

add("C13",
    Mutant("Q5 the exact-name branch of get_instances bypasses the pending set",
           (U + "get_instances.py", """                    result = namemap[pattern]
                    for instance in result:
                        if instance in pending:
                            pending.remove(instance)
                            yield instance""", """                    result = namemap[pattern]
                    del namemap[pattern]
                    for instance in result:
                        yield instance"""), "bypasses pending"))

add("C19",
    Mutant("E5 the top-instance setter announces the definition and stores a new instance",
           (N, """            top.is_top_instance = True
            self.top_instance = top
        else:
            self._top_instance = instance
            if instance:
                instance.is_top_instance = True""", """            instance = top
        self._top_instance = instance
        if instance:
            instance.is_top_instance = True"""), "E5|"))
