"""C11 (hierarchical references canonical and valid: H1-H4, H6-H8) and C12 (cross-hierarchy
tracing: H3', H5, H9) — kind inference of HRef chains + structural rules."""
import ast
import copy
import re

from ..core import AnalysisError, norm, short, walk_local, parent_chain, reaching_assign
from ..kinds import Typer, TOP, obj, kinds_of, expand, NONE, join
from . import register
from ..inline import inlined_view

HREF = "spydrnet/util/hierarchical_reference.py"
UTIL = "spydrnet/util/"
H_MODULES = ["get_hinstances", "get_hports", "get_hpins", "get_hcables", "get_hwires"]
# grammar of a hierarchical sequence: kind of the parent reference's item -> kinds a child item may have
CHILD_OF = {None: {"Instance"}, "Instance": {"Instance", "Port", "Cable"}, "Port": {"InnerPin"}, "Cable": {"Wire"}}
PARENT_OF = {"Wire": {"Cable"}, "InnerPin": {"Port"}, "Port": {"Instance"}, "Cable": {"Instance"}, "Instance": {"Instance"}}
# naming convention of the query modules' parameters / locals (reviewed): name -> kind of the referenced item
NAME_HINTS = {"hpin": "InnerPin", "hwire": "Wire", "hcable": "Cable", "hport": "Port", "hinst": "Instance", "hinstance": "Instance",
              "href_instance": "Instance", "hwire_inside": "Wire", "hwire_outside": "Wire", "href_pin": "InnerPin", "href_wire": "Wire",
              "href_port": "Port", "href_cable": "Cable", "href_inst": "Instance"}
CLOSURE_FUNCS = ("_get_hwires_from_hpins", "_get_inner_hwire_from_hpin", "_get_outer_hwire_from_hpin", "_get_hpins_from_hwire")


def href_t(kinds):
    return ("href", frozenset(kinds) if kinds is not None else None)


def _attr_hook(typer, bt, attr, node, env):
    if bt is not None and bt != TOP and bt[0] == "href":
        ks = bt[1]
        if attr == "item":
            return ("obj", ks) if ks else TOP
        if attr == "parent":
            if not ks:
                return href_t(None)
            ps = set()
            for k in ks:
                ps |= PARENT_OF.get(k, set())
            # the parent of an instance reference may be None (top instance)
            return href_t(ps) if ps else href_t(None)
        return TOP
    return None


def _is_href_factory(call):
    fn = norm(call.func)
    return fn.endswith("from_parent_and_item")


def _call_hook(typer, call, env):
    fn = norm(call.func)
    if fn.endswith("from_parent_and_item") and len(call.args) == 2:
        ks = kinds_of(typer.type_of(call.args[1], env))
        return href_t(ks)
    if fn.endswith("get_all_hrefs_of_instances"):
        return ("iter", href_t({"Instance"}))
    if fn.endswith("get_all_hrefs_of_item") and call.args:
        ks = kinds_of(typer.type_of(call.args[0], env))
        if ks:
            m = set()
            for k in ks:
                m.add({"Definition": "Instance", "OuterPin": "InnerPin"}.get(k, k))
            if m <= {"Instance", "Port", "Cable", "Wire", "InnerPin"}:
                return ("iter", href_t(m))
        return ("iter", href_t(None))
    if fn.endswith("from_sequence"):
        return href_t(None)
    if fn in ("set", "list") and call.args and isinstance(call.args[0], ast.Call):
        inner = _call_hook(typer, call.args[0], env)
        if inner is not None and inner[0] == "iter":
            return ("set" if fn == "set" else "list", inner[1])
    return None


class HTyper(Typer):
    """Typer + HRef grammar: isinstance narrowing of `X.item` (directly or through a local alias
    `item = X.item`) narrows the reference X as well"""

    def __init__(self, P, func):
        hints = {}
        for p in func.params:
            if p in NAME_HINTS:
                hints[p] = href_t({NAME_HINTS[p]})
        super().__init__(P, func, param_types=hints, attr_hook=_attr_hook, call_hook=_call_hook)
        self.item_alias = {}
        for n in walk_local(self.node):
            if isinstance(n, ast.Assign) and len(n.targets) == 1 and isinstance(n.targets[0], ast.Name) \
                    and isinstance(n.value, ast.Attribute) and n.value.attr == "item" and isinstance(n.value.value, ast.Name):
                # only when assigned once
                if n.targets[0].id in self.item_alias:
                    self.item_alias[n.targets[0].id] = None
                else:
                    self.item_alias[n.targets[0].id] = n.value.value.id

    def _narrow(self, test, env):
        te, fe = super()._narrow(test, env)
        if isinstance(test, ast.Call) and norm(test.func) == "isinstance" and len(test.args) == 2:
            p = self._path(test.args[0])
            if p is not None:
                base = None
                if p.endswith(".item") and p.count(".") == 1:
                    base = p.split(".")[0]
                elif p in self.item_alias and self.item_alias[p]:
                    base = self.item_alias[p]
                if base is not None:
                    t = te.get(p)
                    bt = te.get(base)
                    if t is not None and t != TOP and t[0] == "obj" and (bt is None or bt == TOP or bt[0] == "href"):
                        te = te.copy()
                        te[base] = href_t(set(t[1]) - {"None"})
                    if isinstance(test.args[1], ast.Name) or isinstance(test.args[1], ast.Attribute):
                        if self._is_href_class(test.args[1]):
                            pass
        return te, fe


def factory_sites(P, modules):
    """[(func, call, parent type, item type, typer)] for every HRef.from_parent_and_item(p, i)"""
    out = []
    for mod in modules:
        from ..inline import unmerged_view
        for f in mod.all_funcs():
            if not any(isinstance(c, ast.Call) and _is_href_factory(c) for c in walk_local(f.node)):
                continue
            f = unmerged_view(P, f)  # a tail shared by an isinstance split is typed once per kind
            ty = HTyper(P, f).run()
            for cn in ty.cfg.nodes:
                if cn.id not in ty.state:
                    continue
                env = ty.env_at(cn)
                from ..cfg import node_exprs
                exprs, targets = node_exprs(cn)
                for e in exprs:
                    for c in ast.walk(e):
                        if isinstance(c, ast.Call) and _is_href_factory(c) and len(c.args) == 2:
                            pt = ty.type_of(c.args[0], env)
                            it = ty.type_of(c.args[1], env)
                            out.append((f, c, pt, it, ty))
    return out


def ill_typed(pt, it):
    """definitely ill-typed: every possible kind of the item is disallowed under every possible kind of the parent"""
    iks = kinds_of(it)
    if not iks:
        return None
    if pt == NONE:
        pks = {None}
    elif pt is not None and pt != TOP and pt[0] == "href" and pt[1]:
        pks = set(pt[1])
    else:
        return None
    allowed = set()
    for pk in pks:
        allowed |= CHILD_OF.get(pk, set())
    if iks & allowed:
        return None
    return "parent reference to %s cannot contain %s (a %s reference may only be followed by %s)" % (
        "/".join(sorted(str(k) for k in pks)), "/".join(sorted(iks)), "/".join(sorted(str(k) for k in pks)), ", ".join(sorted(allowed)) or "nothing")


def _nullable(t):
    return t is not None and t != TOP and t[0] == "obj" and "None" in t[1] and len(t[1]) > 1


def _guarded_by_alias(f, call, e):
    """`x = <e>` … `if x:` around the call: the test on the local copy of the same expression excludes None"""
    txt = norm(e)
    names = {norm(a.targets[0]) for a in walk_local(f.node)
             if isinstance(a, ast.Assign) and len(a.targets) == 1 and isinstance(a.targets[0], ast.Name) and norm(a.value) == txt}
    prev = call
    for p in parent_chain(call):
        if isinstance(p, ast.If) and any(prev is s_ for s_ in p.body):
            tests = p.test.values if isinstance(p.test, ast.BoolOp) and isinstance(p.test.op, ast.And) else [p.test]
            for t in tests:
                if isinstance(t, ast.Name) and t.id in names:
                    return True
                if isinstance(t, ast.Compare) and len(t.ops) == 1 and isinstance(t.ops[0], ast.IsNot) and norm(t.left) in names \
                        and isinstance(t.comparators[0], ast.Constant) and t.comparators[0].value is None:
                    return True
        prev = p
    return False


def _dead_under_none_test(f, call, ty):
    """the call sits in the true branch of `if x:` at which x is known to be None (the tail of a split copied into the arm that set
    `x = None`): that branch never runs"""
    prev = call
    for p in parent_chain(call):
        if isinstance(p, ast.If) and isinstance(p.test, ast.Name) and any(prev is s_ or any(prev is z for z in ast.walk(s_)) for s_ in p.body):
            cn = next((c for c in ty.cfg.nodes if c.kind == "test" and c.ast is p and c.id in ty.state), None)
            if cn is not None and ty.type_of(p.test, ty.env_at(cn)) == NONE:
                return True
        if isinstance(p, (ast.FunctionDef, ast.AsyncFunctionDef)):
            break
        prev = p
    return False


def _none_default_cannot_reach(f, call, ty):
    """the item handed to the factory is a local that is None only through an explicit `x = None` default, and no path through the
    enclosing loop body carries that default to the call (`inner_pin = None … port = inner_pin.port if inner_pin else None … if port:`)"""
    from ..paths import stmt_paths
    a = call.args[1]
    if not isinstance(a, ast.Name):
        return False
    x = a.id
    vals = []
    for n in walk_local(f.node):
        if isinstance(n, ast.Assign) and len(n.targets) == 1:
            t = n.targets[0]
            if isinstance(t, ast.Name) and t.id == x:
                vals.append((n, n.value))
            elif isinstance(t, ast.Tuple) and isinstance(n.value, ast.Tuple) and len(t.elts) == len(n.value.elts):
                vals.extend((n, v) for tt, v in zip(t.elts, n.value.elts) if isinstance(tt, ast.Name) and tt.id == x)
            elif any(isinstance(tt, ast.Name) and tt.id == x for tt in ast.walk(t)):
                return False
        elif isinstance(n, (ast.For, ast.comprehension)) and any(isinstance(tt, ast.Name) and tt.id == x for tt in ast.walk(n.target)):
            return False
    if not any(isinstance(v, ast.Constant) and v.value is None for n, v in vals):
        return False
    for n, v in vals:
        if isinstance(v, ast.Constant) and v.value is None:
            continue
        if isinstance(v, ast.Attribute) and v.attr in ("instance", "inner_pin"):
            continue  # (C02-M2/M6, see below)
        cn = next((c for c in ty.cfg.nodes if c.ast is n and c.id in ty.state), None)
        if cn is None or _nullable(ty.type_of(v, ty.env_at(cn))):
            return False
    inner = next((p for p in parent_chain(call) if isinstance(p, (ast.For, ast.While))), None)
    body = inner.body if inner is not None else f.node.body
    cstmt = next((p for p in [call] + list(parent_chain(call)) if isinstance(p, ast.stmt)), None)
    bad = [False]
    seen = [0]

    def probe(st, facts, defs=None):
        if st is cstmt:
            seen[0] += 1
            d = (defs or {}).get(x)
            if d is None or d.replace("(", "").replace(")", "") == "None":
                bad[0] = True
    paths = list(stmt_paths(body, frozenset(), {}, None, probe, opaque_loops=True))
    if any(oc is None for oc, fa, df in paths) or not seen[0]:
        return False
    return not bad[0]


OWNER_TIE = {"Instance": ("parent", "in"), "Cable": ("definition", "in"), "Port": ("definition", "in"), "Wire": ("cable", "eq"), "InnerPin": ("port", "eq")}


def _h_owner_ties(ctx, R, iv):
    """is_valid walks from the referenced element to the top.  On every way through one step that moves on to the parent reference, the
    parent reference's item is tied to the element's own owner: it is the owner (wire -> its cable, pin -> its port) or one of the
    instances of the owner (instance / port / cable -> parent or definition `.references`).  A step that only looks at the *kind* of the
    parent's item accepts references to elements that have moved."""
    from ..paths import stmt_paths
    R.rule("H14", "every upward step of is_valid ties the parent reference to the element's current owner")
    loops = [w for w in walk_local(iv.node) if isinstance(w, ast.While)]
    if not loops:
        raise AnalysisError("anchor vanished: the upward loop of HRef.is_valid")
    w = loops[0]
    cursor = norm(w.test) if isinstance(w.test, ast.Name) else "href"
    paths = list(stmt_paths(w.body, frozenset(), {}, None, None, opaque_loops=True))
    if any(oc is None for oc, fa, df in paths):
        raise AnalysisError("H14: the upward loop of HRef.is_valid is outside what path enumeration models")
    n = 0
    for oc, fa, df in paths:
        if oc != "fall":
            continue
        nxt = df.get(cursor)
        if nxt is None or nxt.replace("(", "").replace(")", "") == "None":
            continue  # the walk stops here
        kinds = None  # a tuple of classes is a disjunction: the kinds left are those every positive test allows and no negative one excludes
        for a in fa:
            m = re.match(r"isinstance\(%s\.item,(.*)\)$" % re.escape(cursor), a)
            if m:
                ks = {k.strip(" ()").split(".")[-1] for k in m.group(1).split(",")}
                kinds = ks if kinds is None else (kinds & ks)
        for a in fa:
            m = re.match(r"notisinstance\(%s\.item,(.*)\)$" % re.escape(cursor), a)
            if m and kinds is not None:
                kinds -= {k.strip(" ()").split(".")[-1] for k in m.group(1).split(",")}
        kinds = (kinds or set()) & set(OWNER_TIE)
        if not kinds:
            continue
        n += 1
        parent_item = "%s.item" % nxt
        ok = True
        for k in sorted(kinds):
            attr, how = OWNER_TIE[k]
            owner = "%s.item.%s" % (cursor, attr)
            if how == "eq":
                tied = any(a in fa for a in ("eq(%s,%s)" % (owner, parent_item), "eq(%s,%s)" % (parent_item, owner),
                                             "is(%s,%s)" % (owner, parent_item), "is(%s,%s)" % (parent_item, owner)))
            else:
                tied = ("in(%s,%s.references)" % (parent_item, owner)) in fa or ("in(%s,%s._references)" % (parent_item, owner)) in fa
            if not tied:
                ok = False
                R.bad("H14", "%s|%s not tied to %s" % (iv.key, k, attr), iv.loc(w),
                      "is_valid moves from a %s to its parent reference on a path that never checks that the parent reference's item is the %s's current %s%s: "
                      "a reference to an element that has been moved elsewhere stays valid"
                      % (k, k, attr, "" if how == "eq" else " (one of its instances)"))
        if ok:
            R.ok("H14", "step from %s tied to its owner" % "/".join(sorted(kinds)), iv.loc(w))
    R.count("upward steps of is_valid (H14)", n)
    R.floor("upward steps of is_valid (H14)", 4)


def _locals_written_out(f):
    """f with every local that is bound exactly once to a plain read (attribute chain, slice, sum of such) written out where it is
    used — `instance_names = name_stack[1:]` … `"/".join(instance_names + […])` reads as the join of `name_stack[1:] + […]`.  Used by
    rules that ask what a name is made of, not when it was computed."""
    from ..core import copy_tree, FuncInfo
    node = copy_tree(f.node)
    stores, defs = {}, {}
    for n in ast.walk(node):
        if isinstance(n, ast.Name) and not isinstance(n.ctx, ast.Load):
            stores[n.id] = stores.get(n.id, 0) + 1
    params = {a.arg for a in node.args.args}

    def plain(e):
        if isinstance(e, (ast.Name, ast.Constant)):
            return True
        if isinstance(e, ast.Attribute):
            return plain(e.value)
        if isinstance(e, ast.Subscript):
            return plain(e.value) and all(isinstance(x, (ast.Slice, ast.Constant, ast.Name, ast.Load, ast.UnaryOp, ast.USub)) for x in ast.walk(e.slice))
        if isinstance(e, ast.BinOp) and isinstance(e.op, ast.Add):
            return plain(e.left) and plain(e.right)
        return False
    for n in ast.walk(node):
        if isinstance(n, ast.Assign) and len(n.targets) == 1 and isinstance(n.targets[0], ast.Name) and stores.get(n.targets[0].id) == 1 \
                and n.targets[0].id not in params and plain(n.value) and not isinstance(n.value, (ast.Name, ast.Constant)):
            defs[n.targets[0].id] = n.value
    if not defs:
        return f

    class S(ast.NodeTransformer):
        depth = 0

        def visit_Name(self, n):
            if isinstance(n.ctx, ast.Load) and n.id in defs and self.depth < 4:
                self.depth += 1
                r = self.visit(copy_tree(defs[n.id]))
                self.depth -= 1
                return ast.copy_location(r, n)
            return n
    S().visit(node)
    ast.fix_missing_locations(node)
    for parent in ast.walk(node):
        for child in ast.iter_child_nodes(parent):
            child._parent = parent
    return FuncInfo(f.name, f.qualname, f.module, f.cls, node, f.role, f.prop)


def _boolean_valued(e):
    from ..unroll import _boolean
    return _boolean(e)


def _per_node_path_starts_empty(f, join_call):
    """the sequence handed to join() is a per-node path that is set to empty for the root (so the top instance's own name is never part of
    it): a local that, inside the traversal loop, is assigned an empty tuple / list on one branch and `<path above> + (<name>,)` on the
    other, the join sitting on the non-empty branch"""
    if not (join_call.args and isinstance(join_call.args[0], ast.Name)):
        return False
    nm = join_call.args[0].id
    loop = next((p for p in parent_chain(join_call) if isinstance(p, (ast.While, ast.For))), None)
    if loop is None:
        return False
    empties = [a for a in ast.walk(loop) if isinstance(a, ast.Assign) and len(a.targets) == 1 and norm(a.targets[0]) == nm
               and isinstance(a.value, (ast.Tuple, ast.List)) and not a.value.elts]
    grows = [a for a in ast.walk(loop) if isinstance(a, ast.Assign) and len(a.targets) == 1 and norm(a.targets[0]) == nm
             and isinstance(a.value, ast.BinOp) and isinstance(a.value.op, ast.Add)]
    if not empties or not grows:
        return False
    # the join must not be reachable from the branch that empties the path
    for e in empties:
        blk = getattr(e, "_parent", None)
        if isinstance(blk, ast.If):
            same_branch = (any(e is x for x in blk.body) and any(join_call is y for x in blk.body for y in ast.walk(x))) or \
                          (any(e is x for x in blk.orelse) and any(join_call is y for x in blk.orelse for y in ast.walk(x)))
            after = not any(join_call is y for x in blk.body + blk.orelse for y in ast.walk(x))
            if same_branch or after:
                return False
        else:
            return False
    return True


def _is_closure_site(f, call):
    if f.name in CLOSURE_FUNCS:
        return True
    if f.module.relpath == HREF:
        return False  # the enumeration of occurrences (get_all_hrefs_of_*) is C11's
    for p in parent_chain(call):
        if isinstance(p, ast.If) and isinstance(p.test, ast.Call) and norm(p.test.func) == "isinstance" and len(p.test.args) == 2 \
                and norm(p.test.args[1]).split(".")[-1] in ("Wire", "InnerPin", "OuterPin") \
                and any(call is x for s in p.body for x in ast.walk(s)):
            return True
    return False


def _typed_sites(ctx, R, rid, closure):
    P = ctx.P
    mods = [P.module(UTIL + m + ".py") for m in H_MODULES] + [P.module(HREF)]
    extra = [m for rel, m in sorted(P.modules.items()) if rel.startswith("spydrnet/") and m not in mods
             and "from_parent_and_item" in m.src]
    sites = getattr(ctx, "_href_sites", None)
    if sites is None:
        sites = ctx._href_sites = factory_sites(P, mods + extra)
    n = typed = 0
    for f, call, pt, it, ty in sites:
        if _is_closure_site(f, call) != closure:
            continue
        n += 1
        why = ill_typed(pt, it)
        if why:
            R.bad(rid, "%s|%s" % (f.key, short(call, 70)), f.loc(call),
                  "%s: `%s` builds an ill-formed hierarchical reference: %s; such a reference is never valid, so it is dropped and the result is incomplete"
                  % (f.qualname, short(call, 70), why))
        else:
            if kinds_of(it) and pt is not None and pt != TOP and (pt == NONE or (pt[0] == "href" and pt[1])):
                typed += 1
            R.ok(rid, "%s: %s" % (f.qualname, short(call, 50)), f.loc(call))
    # references built around an item that may be None must not be returned without a validity test
    by_func = {}
    for f, call, pt, it, ty in sites:
        if _is_closure_site(f, call) == closure:
            by_func.setdefault(f.key, (f, []))[1].append((call, it))
    m = 0
    for key, (f, calls) in sorted(by_func.items()):
        # OuterPin.instance / .inner_pin are nulled only when the pin is disconnected and dropped from its instance (C02-M2/M6), so an
        # outer pin reached through a wire or an instance always has both
        tys = {id(c): ty_ for f_, c, pt_, it_, ty_ in sites if f_ is f}
        nullcap = {id(c) for c, it in calls if _nullable(it) and not _guarded_by_alias(f, c, c.args[1])
                   and not (isinstance(c.args[1], ast.Attribute) and c.args[1].attr in ("instance", "inner_pin"))
                   and not _none_default_cannot_reach(f, c, tys[id(c)]) and not _dead_under_none_test(f, c, tys[id(c)])}
        if not nullcap:
            continue
        memo = {}

        def tainted(assign, depth=0):
            if assign is None or depth > 6:
                return False
            if id(assign) in memo:
                return memo[id(assign)]
            memo[id(assign)] = False
            v = assign.value
            res = False
            if isinstance(v, ast.Call) and _is_href_factory(v) and len(v.args) == 2:
                if id(v) in nullcap:
                    res = True
                elif isinstance(v.args[0], ast.Name):
                    res = tainted(reaching_assign(assign, v.args[0].id), depth + 1)
            memo[id(assign)] = res
            return res

        for y in walk_local(f.node):
            if not isinstance(y, ast.Yield) or y.value is None:
                continue
            src = None
            if isinstance(y.value, ast.Name):
                src = reaching_assign(y, y.value.id)
            elif isinstance(y.value, ast.Call) and _is_href_factory(y.value) and id(y.value) in nullcap:
                src = ast.Assign(targets=[], value=y.value)
            if src is None:
                continue
            m += 1
            if tainted(src):
                R.bad(rid, "%s|nullable->yield %s" % (f.key, norm(y.value)), f.loc(y),
                      "%s returns `%s`, a reference built around an element's parent link that can be None (the element was removed from its "
                      "parent) with no test in between: an invalid hierarchical reference is returned" % (f.qualname, norm(y.value)))
            else:
                R.ok(rid, "%s: yield %s is not built around a possibly-None item" % (f.qualname, norm(y.value)), f.loc(y))
    return n, typed


def _worklist_closure(ctx, R, rid):
    """every work-list loop of get_all_hrefs_of_instances re-queues what it discovers (transitive closure over ancestors / descendants)"""
    P = ctx.P
    hc = P.cls(HREF, "HRef")
    ga = hc.methods.get("get_all_hrefs_of_instances")
    ga = inlined_view(P, ga) if ga is not None else None
    if ga is None:
        raise AnalysisError("anchor vanished: HRef.get_all_hrefs_of_instances")
    n = 0
    for w in walk_local(ga.node):
        if isinstance(w, ast.While) and isinstance(w.test, ast.Name):
            W = w.test.id
            pops = any(isinstance(c, ast.Call) and isinstance(c.func, ast.Attribute) and norm(c.func.value) == W and c.func.attr in ("pop", "popleft") for c in ast.walk(w))
            if not pops:
                continue
            n += 1
            pushes = any((isinstance(c, ast.Call) and isinstance(c.func, ast.Attribute) and norm(c.func.value) == W and c.func.attr in ("append", "extend", "appendleft"))
                         or (isinstance(c, ast.AugAssign) and norm(c.target) == W) for s_ in w.body for c in ast.walk(s_))
            if pushes:
                R.ok(rid, "work list `%s` is re-fed inside its loop" % W, ga.loc(w))
            else:
                R.bad(rid, "%s|worklist %s not re-fed" % (ga.key, n), ga.loc(w),
                      "get_all_hrefs_of_instances: the loop over the work list `%s` never queues what it discovers, so it stops after one level: occurrences "
                      "three or more levels below the top instance are missed" % W)
    R.count("work-list loops in get_all_hrefs_of_instances", n)
    R.floor("work-list loops in get_all_hrefs_of_instances", 2)
    # the upward walk: every instance of a parent definition ends up in the ancestor set — the only thing that may suppress
    # `S.add(p)` is p already being in S (every way of skipping the add implies `p in S`)
    from ..pairing import alts_of
    k = 0
    for lp in walk_local(ga.node):
        if not (isinstance(lp, ast.For) and isinstance(lp.iter, ast.Attribute) and lp.iter.attr == "references" and isinstance(lp.target, ast.Name)):
            continue
        pvar = lp.target.id
        adds = [c for s_ in lp.body for c in ast.walk(s_) if isinstance(c, ast.Call) and isinstance(c.func, ast.Attribute) and c.func.attr == "add"
                and c.args and norm(c.args[0]) == pvar]
        if not adds:
            k += 1
            R.bad(rid, "%s|ancestors not recorded" % ga.key, ga.loc(lp), "the upward walk over `%s` records no ancestor" % norm(lp.iter))
            continue
        for a in adds:
            k += 1
            S = norm(a.func.value)
            escapes = []
            prev = a
            for p_ in parent_chain(a):
                if p_ is lp:
                    break
                if isinstance(p_, ast.If):
                    in_body = any(prev is s_ or any(prev is z for z in ast.walk(s_)) for s_ in p_.body)
                    for alt in alts_of(p_.test, not in_body):
                        if ("in(%s,%s)" % (pvar, S)) not in alt:
                            escapes.append(short(p_.test, 60))
                if isinstance(p_, (ast.For, ast.While)):
                    escapes.append("nested loop")
                prev = p_
            if escapes:
                R.bad(rid, "%s|ancestor skipped" % ga.key, ga.loc(a),
                      "the upward walk can skip `%s.add(%s)` for a reason other than `%s` already being in `%s` (guard `%s`): an ancestor instance is "
                      "left out of the bound set, the downward search does not descend through it and the occurrences below it are missed"
                      % (S, pvar, pvar, S, escapes[0]))
            else:
                R.ok(rid, "every instance of a parent definition enters `%s`" % S, ga.loc(a))
    # the same thing said in bulk:  S.update(E) / S |= E  with E (directly or through a local) the instances of a parent definition,
    # filtered at most by `p not in S`
    for c in walk_local(ga.node):
        S = src = None
        if isinstance(c, ast.Call) and isinstance(c.func, ast.Attribute) and c.func.attr == "update" and len(c.args) == 1:
            S, src = norm(c.func.value), c.args[0]
        elif isinstance(c, ast.AugAssign) and isinstance(c.op, ast.BitOr):
            S, src = norm(c.target), c.value
        if src is None:
            continue
        if isinstance(src, ast.Name):
            d = reaching_assign(c, src.id)
            src = d.value if d is not None and isinstance(d, ast.Assign) else src
        if isinstance(src, ast.Call) and isinstance(src.func, ast.Name) and src.func.id in ("set", "list", "tuple", "frozenset") and len(src.args) == 1:
            src = src.args[0]
        if isinstance(src, ast.Attribute) and src.attr == "references":
            k += 1
            R.ok(rid, "every instance of a parent definition enters `%s`" % S, ga.loc(c))
            continue
        if not (isinstance(src, (ast.ListComp, ast.SetComp, ast.GeneratorExp)) and len(src.generators) == 1 and isinstance(src.generators[0].iter, ast.Attribute)
                and src.generators[0].iter.attr == "references" and isinstance(src.generators[0].target, ast.Name)):
            continue
        g = src.generators[0]
        k += 1
        pvar = g.target.id
        escapes = [] if norm(src.elt) == pvar else ["element `%s`" % short(src.elt, 40)]
        for t in g.ifs:
            for alt in alts_of(t, False):
                if ("in(%s,%s)" % (pvar, S)) not in alt:
                    escapes.append(short(t, 60))
        if escapes:
            R.bad(rid, "%s|ancestor skipped" % ga.key, ga.loc(c),
                  "the upward walk can leave an instance of the parent definition out of `%s` for a reason other than its already being there (`%s`): "
                  "the downward search does not descend through it and the occurrences below it are missed" % (S, escapes[0]))
        else:
            R.ok(rid, "every instance of a parent definition enters `%s`" % S, ga.loc(c))
    R.count("ancestor insertions in the upward walk", k)
    R.floor("ancestor insertions in the upward walk", 1)


def _closure_generators(mod):
    """generator functions driven by a work list (`while S: x = S.pop()`): the cross-hierarchy closures"""
    out = []
    for fn, f in sorted(mod.functions.items()):
        if not any(isinstance(y, ast.Yield) for y in walk_local(f.node)):
            continue
        for w in walk_local(f.node):
            if isinstance(w, ast.While) and isinstance(w.test, ast.Name) and any(
                    isinstance(c, ast.Call) and isinstance(c.func, ast.Attribute) and c.func.attr == "pop" and norm(c.func.value) == w.test.id
                    for c in ast.walk(w)) and f.params and w.test.id not in f.params:
                out.append(f)
                break
    return out


def _h_yield_guards(ctx, R, rid, closures=False):
    """no occurrence is returned twice: the yield-guard rule of C13 (Q5) on the five hierarchical query modules"""
    from .query_rules import _yield_guard, _triple
    P = ctx.P
    n = 0
    nc = 0
    for m in H_MODULES:
        mod = P.module(UTIL + m + ".py")
        name, pub, mid, raw0 = _triple(mod)
        # the work-list closures keep their own visited sets and are checked on their own (closures=True): they stay calls here
        keep_ = tuple(g.name for g in _closure_generators(mod))
        raw = inlined_view(P, raw0, keep=keep_)
        if closures:
            for g in _closure_generators(mod):
                if g is raw0:
                    continue
                for y in walk_local(g.node):
                    if not isinstance(y, ast.Yield):
                        continue
                    nc += 1
                    idiom, desc = _yield_guard(g, y)
                    if idiom == "G1":
                        R.ok(rid, "%s: yield %s [%s]" % (g.qualname, norm(y.value), desc), g.loc(y))
                    else:
                        R.bad(rid, "%s|closure yield %s" % (g.key, norm(y.value)), g.loc(y),
                              "%s: `yield %s` is not guarded by a not-in / add test on the value it yields (%s): the visited set no longer identifies "
                              "what was reported, so members of the net are dropped or repeated" % (g.qualname, norm(y.value), desc))
        guards = {}
        roles = {}
        for y in walk_local(raw.node):
            if isinstance(y, ast.Yield):
                idiom, desc = _yield_guard(raw, y)
                guards[id(y)] = (idiom, desc)
        for y in walk_local(raw.node):
            if not isinstance(y, ast.Yield):
                continue
            n += 1
            idiom, desc = guards[id(y)]
            if idiom:
                R.ok(rid, "%s: yield %s [%s]" % (raw.qualname, norm(y.value), idiom), raw.loc(y))
            else:
                ctxs = [short(p.test, 50) for p in parent_chain(y) if isinstance(p, ast.If)][:2]
                R.bad(rid, "%s|yield %s|%s" % (raw.key, norm(y.value), " / ".join(ctxs)), raw.loc(y),
                      "%s: `yield %s` (under `%s`) %s: the same hierarchical reference can be returned twice" % (raw.qualname, norm(y.value), " / ".join(ctxs), desc))
    R.count("yields in hierarchical raw generators", n)
    R.floor("yields in hierarchical raw generators", 35)
    from .query_rules import check_stages
    st = 0
    for m in H_MODULES:
        mod_ = P.module(UTIL + m + ".py")
        st += check_stages(R, rid, inlined_view(P, _triple(mod_)[3], keep=tuple(g.name for g in _closure_generators(mod_))))
    R.count("two-stage hierarchical generators", st)
    R.floor("two-stage hierarchical generators", 5)
    if closures:
        R.count("yields in work-list closure generators", nc)
        R.floor("yields in work-list closure generators", 4)


def _validity_polarity(test, v):
    """+1: the test being true means `v` is valid; -1: true means invalid; 0: not a validity test on v"""
    t = test
    neg = False
    while isinstance(t, ast.UnaryOp) and isinstance(t.op, ast.Not):
        neg = not neg
        t = t.operand
    pol = 0
    if isinstance(t, ast.Attribute) and t.attr == "is_valid" and norm(t.value) == v:
        pol = 1
    elif isinstance(t, ast.Compare) and len(t.ops) == 1 and isinstance(t.left, ast.Attribute) and t.left.attr == "is_valid" \
            and norm(t.left.value) == v and isinstance(t.comparators[0], ast.Constant) and isinstance(t.comparators[0].value, bool):
        val = t.comparators[0].value
        op = t.ops[0]
        if isinstance(op, (ast.Is, ast.Eq)):
            pol = 1 if val else -1
        elif isinstance(op, (ast.IsNot, ast.NotEq)):
            pol = -1 if val else 1
    return -pol if neg else pol


def _h_validated_roots(ctx, R, rid):
    """a reference handed in by the caller (or queued earlier) is used only after its validity was tested: must-dataflow over the
    CFG of each raw generator; state = (the work item is known to be a reference, it was found valid)"""
    from ..cfg import cfg_of, forward, Branch, node_exprs
    from .query_rules import _triple
    P = ctx.P
    n = 0
    for m in H_MODULES:
        mod = P.module(UTIL + m + ".py")
        name, pub, mid, raw = _triple(mod)
        work = None
        for w in walk_local(raw.node):
            if isinstance(w, ast.While) and isinstance(w.test, ast.Name) and w.body and isinstance(w.body[0], ast.Assign) \
                    and isinstance(w.body[0].value, ast.Call) and isinstance(w.body[0].value.func, ast.Attribute) \
                    and w.body[0].value.func.attr == "pop" and norm(w.body[0].value.func.value) == w.test.id \
                    and isinstance(w.body[0].targets[0], ast.Name):
                work = (w, w.body[0].targets[0].id)
                break
        if work is None:
            raise AnalysisError("anchor vanished: the work loop `while <collection>: x = <collection>.pop()` of %s" % raw.qualname)
        w, v = work
        cfg = cfg_of(raw.node)

        def transfer(node, st, v=v):
            is_ref, valid = st
            a = node.ast
            if node.kind == "stmt" and isinstance(a, ast.Assign) and any(isinstance(t, ast.Name) and t.id == v for t in a.targets):
                return (False, False)
            if node.kind in ("test", "if", "while") or isinstance(a, ast.expr):
                test = a if isinstance(a, ast.expr) else getattr(a, "test", None)
                if test is None:
                    return st
                if isinstance(test, ast.Call) and norm(test.func) == "isinstance" and len(test.args) == 2 and norm(test.args[0]) == v \
                        and norm(test.args[1]).split(".")[-1] == "HRef":
                    return Branch({"true": (True, valid), "false": (False, valid), None: st})
                conj = test.values if isinstance(test, ast.BoolOp) and isinstance(test.op, ast.And) else [test]
                pols = [_validity_polarity(c, v) for c in conj]
                if 1 in pols:
                    return Branch({"true": (is_ref, True), None: st})
                if len(conj) == 1 and pols[0] == -1:
                    return Branch({"true": st, "false": (is_ref, True), None: st})
            return st

        state = forward(cfg, (False, False), transfer, lambda a, b: (a[0] and b[0], a[1] and b[1]), follow=lambda a_, b_, lab: lab != "exc")
        tests = 0
        bad = []
        for node in cfg.nodes:
            if node.id not in state:
                continue
            is_ref, valid = state[node.id]
            exprs, targets = node_exprs(node)
            for e in exprs:
                for x in ast.walk(e):
                    if isinstance(x, ast.Attribute) and x.attr == "is_valid" and norm(x.value) == v:
                        tests += 1
            if not is_ref or valid:
                continue
            for e in exprs:
                par = {}
                for x in ast.walk(e):
                    for c in ast.iter_child_nodes(x):
                        par[id(c)] = x
                for x in ast.walk(e):
                    if isinstance(x, ast.Name) and x.id == v and isinstance(x.ctx, ast.Load):
                        p_ = par.get(id(x))
                        if isinstance(p_, ast.Attribute) and p_.attr in ("is_valid", "item", "parent"):
                            continue  # looking at the reference is harmless; handing it on is not
                        if isinstance(p_, ast.Call) and norm(p_.func) == "isinstance":
                            continue
                        bad.append((node, e))
        n += 1
        if tests == 0:
            R.bad(rid, "%s|no-validity-test" % raw.key, raw.loc(w), "%s never tests `%s.is_valid`: references to elements that were removed since are processed like live ones" % (raw.qualname, v))
        elif bad:
            node, e = bad[0]
            R.bad(rid, "%s|unvalidated use" % raw.key, raw.loc(node.ast),
                  "%s uses the reference `%s` in `%s` on a path on which its validity was not tested (%d such use(s)): a reference that an edit has made "
                  "stale is traversed or returned" % (raw.qualname, v, short(e, 50), len(bad)))
        else:
            R.ok(rid, "%s: every use of a reference taken from the work list follows its validity test" % raw.qualname, raw.loc(w))
    R.count("raw generators with a validated work list", n)
    R.floor("raw generators with a validated work list", 5)


def _leaf_pruning(ctx, R, rid, closure):
    """wires and cables live in every definition that has cables — also in one that has no child instances (a pass-through or
    wire-only cell).  In the two modules that enumerate or trace wires / cables, descent into an instance's definition may be
    pruned by `is_leaf()` (no children AND no cables) but not by the absence of children alone."""
    P = ctx.P
    n = 0
    hits = 0
    for m in ("get_hwires", "get_hcables"):
        mod = P.module(UTIL + m + ".py")
        for f in mod.all_funcs():
            is_closure = f.name in CLOSURE_FUNCS or f.name.startswith(("_get_hpins_from", "_get_inner_", "_get_outer_"))
            if is_closure != closure:
                continue
            n += 1
            for t in walk_local(f.node):
                test = None
                if isinstance(t, (ast.If, ast.While, ast.IfExp)):
                    test = t.test
                elif isinstance(t, ast.comprehension) and t.ifs:
                    test = ast.BoolOp(op=ast.And(), values=list(t.ifs)) if len(t.ifs) > 1 else t.ifs[0]
                if test is None:
                    continue
                for x in ast.walk(test):
                    bad = None
                    if isinstance(x, ast.Attribute) and x.attr == "children" and not isinstance(getattr(x, "_parent", None), (ast.Attribute, ast.Call)):
                        par = getattr(x, "_parent", None)
                        if not (isinstance(par, ast.Compare) and isinstance(par.ops[0], (ast.In, ast.NotIn)) and par.comparators[0] is x):
                            bad = x
                    if isinstance(x, ast.Call) and norm(x.func) == "len" and x.args and norm(x.args[0]).endswith(".children"):
                        bad = x
                    if bad is not None:
                        # harmless form: `if X.children: for c in X.children: ...` and nothing else
                        body = getattr(t, "body", None)
                        if isinstance(t, ast.If) and isinstance(body, list) and len(body) == 1 and isinstance(body[0], ast.For) \
                                and norm(body[0].iter) == norm(bad if isinstance(bad, ast.Attribute) else bad.args[0]) and not t.orelse:
                            continue
                        hits += 1
                        R.bad(rid, "%s|children-as-leaf-test" % f.key, f.loc(t),
                              "%s decides on `%s` whether to look inside an instance: a definition without child instances can still hold cables "
                              "(a pass-through cell), so its wires are skipped — the test has to be is_leaf()" % (f.qualname, short(test, 60)))
    if not hits:
        R.ok(rid, "no descent into a definition is pruned on the absence of children alone (%d functions)" % n, UTIL + "get_hwires.py")
    R.count("functions scanned for leaf tests (%s)" % rid, n)
    R.floor("functions scanned for leaf tests (%s)" % rid, 3)
    # positive example: the recogniser must see the pattern it is there for
    from ..core import Module
    probe = Module("probe/leaf.py", "def w(h, out):\n    for c in h.item.reference.children:\n        if c.reference and c.reference.children:\n            out.append(c)\n")
    pf = probe.functions["w"]
    seen = [x for t in walk_local(pf.node) if isinstance(t, ast.If) for x in ast.walk(t.test) if isinstance(x, ast.Attribute) and x.attr == "children"]
    if len(seen) != 1:
        raise AnalysisError("%s positive example no longer matches" % rid)


# ------------------------------------------------------------------------------------------------
@register("C11",
          "Static analysis of hierarchical_reference.py and the five hierarchical query modules: H1 HRef objects are constructed only in "
          "the flyweight factory, which consults and fills the table; H2 __eq__/__hash__ are both defined, the hash depends only on parent "
          "and item, and parent/item/_hashcode are never assigned outside __init__ (anywhere in the package); H3 kind inference "
          "(abstract interpretation with isinstance narrowing and the sequence grammar None>Instance>Instance|Port|Cable, Port>InnerPin, "
          "Cable>Wire) of every enumeration-side factory call — reported only when definitely ill-typed; H4 is_valid has a case for each "
          "item kind of the grammar; H6 the name-map walkers and HRef.name agree on separator, top-name slice and bus suffix; H7 the "
          "downward search descends into a child that is both a target and an ancestor of a target; H8 the ancestor walks of "
          "is_valid/is_unique use the cursor, not self; H7b both work lists re-queue what they discover and nothing but `already in the set` can keep an ancestor out of the bound set; H11 every yield is de-duplicated on the value it yields and the already-returned set is subtracted from the name-map set after its last insertion; H12 a reference taken from the work list is used only after its validity test, for every item kind (must-dataflow); H13 the wire / cable enumerations prune their descent by is_leaf(), never by the absence of child instances (a cell may consist of wires only); H14 every upward step of is_valid ties the parent reference's item to the element's current owner (path enumeration), and every value is_valid returns is a genuine boolean. Decides canonical-object and well-formedness clauses; completeness/uniqueness of "
          "the enumeration is a graph property and is not decided. H16 inside a loop over siblings the parent of a yielded reference is not a name the loop body rebinds to a reference built under itself; H17 the name maps record every element (no `setdefault(k, [x])` with the result discarded).")
def check_c11(ctx, R):
    P = ctx.P
    hm = P.module(HREF)
    hc = P.cls(HREF, "HRef")
    _no_loop_carried_parent(ctx, R, "H16", closure=None)
    from .query_rules import multimap_inserts
    multimap_inserts(P, R, "H17", [P.module(UTIL + m + ".py") for m in H_MODULES])
    R.rule("H1", "factory-only construction through the flyweight table")
    ctor_sites = []
    for rel, mod in sorted(P.modules.items()):
        for f in mod.all_funcs():
            for c in walk_local(f.node):
                if isinstance(c, ast.Call) and norm(c.func) in ("HRef", "sdn.HRef", "hierarchical_reference.HRef", "spydrnet.HRef", "cls") \
                        and (norm(c.func) != "cls" or (f.cls is not None and f.cls.name == "HRef")):
                    ctor_sites.append((f, c))
    R.count("HRef constructor call sites", len(ctor_sites))
    R.floor("HRef constructor call sites", 1)
    for f, c in ctor_sites:
        if f.module.relpath == HREF and f.name == "from_parent_and_item":
            R.ok("H1", "constructed in the factory", f.loc(c))
        else:
            R.bad("H1", "%s|direct-ctor" % f.key, f.loc(c),
                  "%s constructs `%s` directly instead of through HRef.from_parent_and_item: two references to the same path are then different objects" % (f.qualname, short(c, 50)))
    fac = hc.methods.get("from_parent_and_item")
    if fac is None:
        raise AnalysisError("anchor vanished: HRef.from_parent_and_item")
    src = norm(fac.node)
    # the canonical object is what a return hands back, directly or through a local bound once to the table entry
    once = {}
    for a in walk_local(fac.node):
        if isinstance(a, ast.Assign) and len(a.targets) == 1 and isinstance(a.targets[0], ast.Name):
            once.setdefault(a.targets[0].id, []).append(a.value)

    def from_table(e):
        return any(("flyweight[" in norm(x)) or (isinstance(x, ast.Name) and len(once.get(x.id, ())) == 1 and "flyweight[" in norm(once[x.id][0]))
                   for x in ast.walk(e))
    looks = "in flyweight" in src and any(isinstance(r, ast.Return) and r.value is not None and from_table(r.value) for r in walk_local(fac.node))
    fills = any(isinstance(a, ast.Assign) and norm(a.targets[0]).startswith("flyweight[") for a in walk_local(fac.node))
    order_ok = False
    ctor_args = [c for c in walk_local(fac.node) if isinstance(c, ast.Call) and norm(c.func) == "HRef"]
    init = hc.methods.get("__init__")
    if ctor_args and init is not None:
        c = ctor_args[0]
        ip = init.params[1:]
        bound = {}
        for i, a in enumerate(c.args):
            if i < len(ip):
                bound[ip[i]] = norm(a)
        for k in c.keywords:
            bound[k.arg] = norm(k.value)
        order_ok = bound.get("item") == fac.params[1] and bound.get("parent") == fac.params[0]
    if looks and fills and order_ok:
        R.ok("H1", "factory consults and fills the flyweight table, (parent, item) bound correctly", fac.loc())
    else:
        R.bad("H1", "%s|flyweight" % fac.key, fac.loc(),
              "from_parent_and_item %s" % ("does not return the canonical object from the flyweight table" if not looks else
                                           "does not record new references in the flyweight table" if not fills else
                                           "passes (parent, item) to the constructor in the wrong roles"))
    # H2
    R.rule("H2", "equality, hash and immutability of references")
    for m in ("__eq__", "__hash__"):
        if m in hc.methods:
            R.ok("H2", "HRef.%s defined" % m, hc.methods[m].loc())
        else:
            R.bad("H2", "%s|%s" % (hc.key, m), HREF, "HRef does not define %s" % m)
    if init is None:
        raise AnalysisError("anchor vanished: HRef.__init__")
    hashdef = [a for a in walk_local(init.node) if isinstance(a, ast.Assign) and norm(a.targets[0]) == "self._hashcode"]
    if hashdef:
        names = {n.id for n in ast.walk(hashdef[0].value) if isinstance(n, ast.Name)} - {"hash"}
        if names == {"parent", "item"}:
            R.ok("H2", "hash computed from parent and item", init.loc())
        else:
            R.bad("H2", "%s|hash-inputs" % init.key, init.loc(), "the stored hash is computed from %s, expected exactly parent and item" % sorted(names))
    else:
        R.bad("H2", "%s|no-hash" % init.key, init.loc(), "HRef.__init__ no longer stores a hash code")
    if hc.slots and set(hc.slots) >= {"_hashcode", "parent", "item"}:
        R.ok("H2", "__slots__ declared", hc.module.relpath)
    else:
        R.bad("H2", "%s|slots" % hc.key, HREF, "HRef does not declare __slots__ with parent, item and _hashcode")
    stores = 0
    for rel, mod in sorted(P.modules.items()):
        for f in mod.all_funcs():
            for n in walk_local(f.node):
                if isinstance(n, ast.Attribute) and isinstance(n.ctx, (ast.Store, ast.Del)):
                    recv = norm(n.value)
                    is_href_recv = (rel == HREF and recv == "self" and f.cls is not None and f.cls.name == "HRef") or recv.startswith("href") or recv.startswith("h") and recv[1:] in ("pin", "wire", "cable", "port", "inst", "instance")
                    if n.attr in ("_hashcode",) or (n.attr in ("item", "parent") and is_href_recv):
                        stores += 1
                        if rel == HREF and f.name == "__init__" and recv == "self":
                            R.ok("H2", "assigned in __init__", f.loc(n))
                        else:
                            R.bad("H2", "%s|store %s" % (f.key, n.attr), f.loc(n), "%s assigns %s.%s: references are immutable (equality and the flyweight table rely on it)" % (f.qualname, recv, n.attr))
    R.count("stores to reference fields", stores)
    R.floor("stores to reference fields", 3)
    # H3
    R.rule("H3", "chain typing of every enumeration-side factory call")
    n, typed = _typed_sites(ctx, R, "H3", closure=False)
    R.count("enumeration factory sites (H3)", n)
    R.count("enumeration factory sites with both kinds inferred (H3)", typed)
    R.floor("enumeration factory sites (H3)", 35)
    R.floor("enumeration factory sites with both kinds inferred (H3)", 25)
    # H4
    R.rule("H4", "is_valid has a case for each item kind the grammar admits")
    iv = hc.props.get("is_valid", {}).get("getter")
    if iv is None:
        raise AnalysisError("anchor vanished: HRef.is_valid")
    iv = inlined_view(P, iv)  # a private helper for one of the cases (e.g. the top-instance test) is read in place
    cases = set()
    for t in walk_local(iv.node):
        if isinstance(t, ast.Call) and norm(t.func) == "isinstance" and len(t.args) == 2:
            c = t.args[1]
            for x in (c.elts if isinstance(c, ast.Tuple) else [c]):
                cases.add(norm(x).split(".")[-1])
    for k in ("Instance", "Port", "Cable", "Wire", "InnerPin"):
        if k in cases:
            R.ok("H4", "is_valid handles %s" % k, iv.loc())
        else:
            R.bad("H4", "%s|%s" % (iv.key, k), iv.loc(), "is_valid has no case for references to %s: they would fall through and report invalid (or never be checked)" % k)
    # is_valid must return True only at the top instance test
    # every return that can yield a true value is the comparison with the top instance (as `if top == item: return True` or as
    # `return top == item`)
    maybe_true = [r for r in walk_local(iv.node) if isinstance(r, ast.Return) and r.value is not None
                  and not (isinstance(r.value, ast.Constant) and r.value.value in (False, None))]
    at_top = [r for r in maybe_true if
              (isinstance(r.value, ast.Constant) and r.value.value is True and any(isinstance(p, ast.If) and "top_instance" in norm(p.test) for p in parent_chain(r)))
              or (isinstance(r.value, ast.Compare) and "top_instance" in norm(r.value))
              # a conjunction is true only if each conjunct is: `return bool(top) and top == item`
              # (every conjunct a genuine boolean: the callers test `is_valid is False`, so `top and top == item`, which hands back
              # None when there is no top instance, is not the same thing)
              or (isinstance(r.value, ast.BoolOp) and isinstance(r.value.op, ast.And) and all(_boolean_valued(v) for v in r.value.values)
                  and any(isinstance(v, ast.Compare) and len(v.ops) == 1 and isinstance(v.ops[0], (ast.Eq, ast.Is)) and "top_instance" in norm(v) for v in r.value.values))]
    if maybe_true and len(at_top) == len(maybe_true):
        R.ok("H4", "validity is established only at the netlist's top instance", iv.loc(at_top[0]))
    else:
        R.bad("H4", "%s|true" % iv.key, iv.loc(), "is_valid returns True somewhere other than the comparison with the netlist's top instance")
    # H6
    R.rule("H6", "naming convention agreement between the name-map walkers and HRef.name")
    nm = hc.props.get("name", {}).get("getter")
    if nm is None:
        raise AnalysisError("anchor vanished: HRef.name")
    sep = None
    for a in walk_local(nm.node):
        if isinstance(a, ast.Assign) and isinstance(a.value, ast.Constant) and isinstance(a.value.value, str) and "sep" in norm(a.targets[0]):
            sep = a.value.value
    if sep is None:
        # the separator is what the name pieces are joined with, however it is held
        for c in walk_local(_locals_written_out(nm).node):
            if isinstance(c, ast.Call) and isinstance(c.func, ast.Attribute) and c.func.attr == "join" and isinstance(c.func.value, ast.Constant) \
                    and isinstance(c.func.value.value, str) and c.func.value.value:
                sep = c.func.value.value
    if sep is None:
        raise AnalysisError("H6: cannot find the separator literal of HRef.name")
    nsrc = norm(nm.node)
    from ..strings import templates_in, bracketed_holes
    suffix = [h for _, t in templates_in(nm.node) for h in bracketed_holes(t)]
    for need, what in (("[<index>]", "bus suffix"), ("lower_index +", "bus index base"), ("[:-1]", "top-instance name dropped"), ("is_array", "suffix only for arrays")):
        if (suffix if what == "bus suffix" else need in nsrc):
            R.ok("H6", "HRef.name: %s" % what, nm.loc())
        else:
            R.bad("H6", "%s|%s" % (nm.key, what), nm.loc(), "HRef.name no longer has `%s` (%s): references are reported under names the queries do not look for" % (need, what))
    walkers = 0
    for m in H_MODULES:
        mod = P.module(UTIL + m + ".py")
        for fn, f in mod.functions.items():
            if fn.startswith("_update_") and fn.endswith("namemap"):
                walkers += 1
                f = _locals_written_out(f)
                src = norm(f.node)
                joins = [c for c in walk_local(f.node) if isinstance(c, ast.Call) and isinstance(c.func, ast.Attribute) and c.func.attr == "join" and isinstance(c.func.value, ast.Constant)]
                if not joins:
                    R.bad("H6", "%s|no-join" % f.key, f.loc(), "%s builds no hierarchical name" % fn)
                for j in joins:
                    if j.func.value.value != sep:
                        R.bad("H6", "%s|separator" % f.key, f.loc(j), "%s joins names with %r, HRef.name uses %r" % (fn, j.func.value.value, sep))
                    elif "[1:]" not in norm(j) and not _per_node_path_starts_empty(f, j):
                        R.bad("H6", "%s|top-slice" % f.key, f.loc(j), "%s does not drop the top instance's own name (`[1:]`) as HRef.name does" % fn)
                    else:
                        R.ok("H6", "%s: separator and top slice" % fn, f.loc(j))
                if "wire" in fn or "pin" in src.split("def ")[1][:40] or "cable.wires" in src or "port.pins" in src:
                    if "cable.wires" in src or "port.pins" in src:
                        named = [t_ for _, t_ in templates_in(f.node) if bracketed_holes(t_) and t_.index(bracketed_holes(t_)[0]) >= 2]
                        # the number between the brackets is lower_index + position, once: a position that already starts at lower_index
                        # (`enumerate(cable.wires, cable.lower_index)`) and gets lower_index added again is off by lower_index
                        doubled = None
                        for t_ in named:
                            h_ = bracketed_holes(t_)[0]
                            adds = sum(1 for x in ast.walk(h_) if isinstance(x, ast.Attribute) and x.attr == "lower_index")
                            for v_ in (x.id for x in ast.walk(h_) if isinstance(x, ast.Name)):
                                for lp_ in walk_local(f.node):
                                    if isinstance(lp_, ast.For) and isinstance(lp_.iter, ast.Call) and norm(lp_.iter.func) == "enumerate" and isinstance(lp_.target, ast.Tuple) \
                                            and norm(lp_.target.elts[0]) == v_:
                                        start = lp_.iter.args[1] if len(lp_.iter.args) > 1 else next((k.value for k in lp_.iter.keywords if k.arg == "start"), None)
                                        if start is not None:
                                            adds += sum(1 for x in ast.walk(start) if isinstance(x, ast.Attribute) and x.attr == "lower_index")
                            if adds > 1:
                                doubled = h_
                        if doubled is not None:
                            R.bad("H6", "%s|bus offset twice" % f.key, f.loc(doubled),
                                  "%s numbers the bits as `%s` over a position that already starts at lower_index: for a bus that does not start at 0 the name map "
                                  "files every bit under a number HRef.name never produces (exact-name queries return nothing, or another bit)" % (fn, short(doubled, 40)))
                        elif named and "lower_index +" in src and ("is_scalar" in src or "is_array" in src):
                            R.ok("H6", "%s: bus suffix" % fn, f.loc())
                        else:
                            R.bad("H6", "%s|bus-suffix" % f.key, f.loc(), "%s does not build `name[lower_index + position]` for array bundles only, as HRef.name does" % fn)
    R.count("name-map walkers (H6)", walkers)
    R.floor("name-map walkers (H6)", 5)
    # H7
    R.rule("H7", "the downward search descends into every child that bounds a target, whether or not it is a target itself")
    ga = hc.methods.get("get_all_hrefs_of_instances")
    ga = inlined_view(P, ga) if ga is not None else None
    if ga is None:
        raise AnalysisError("anchor vanished: HRef.get_all_hrefs_of_instances")
    # the search may be split: a recursive (hence not spliced) private walker does the descent; it is read with the parameter that
    # receives the targets in place of the entry point's own
    searchers = [(ga, ga.params[0])]
    for c in walk_local(ga.node):
        if isinstance(c, ast.Call) and isinstance(c.func, ast.Attribute) and c.func.attr.startswith("_") and isinstance(c.func.value, ast.Name) \
                and c.func.value.id in ("self", "cls", hc.name) and c.func.attr in hc.methods:
            h = hc.methods[c.func.attr]
            hp = h.params[1:] if h.role == "method" else h.params
            for a_, p_ in zip(c.args, hp):
                if norm(a_) == ga.params[0] and all(h is not s_[0] for s_ in searchers):
                    searchers.append((h, p_))
    pushes = []
    for sf, tgt_ in searchers:
        worklists = {norm(w.test) for w in walk_local(sf.node) if isinstance(w, ast.While) and isinstance(w.test, ast.Name)}
        # a batch: a local list the children are collected in and that is then handed to the work list in one go
        for c in walk_local(sf.node):
            if isinstance(c, ast.Call) and isinstance(c.func, ast.Attribute) and c.func.attr == "extend" and norm(c.func.value) in worklists \
                    and len(c.args) == 1 and isinstance(c.args[0], ast.Name):
                worklists = worklists | {c.args[0].id}
            if isinstance(c, ast.AugAssign) and isinstance(c.op, ast.Add) and norm(c.target) in worklists and isinstance(c.value, ast.Name):
                worklists = worklists | {c.value.id}
        for c in walk_local(sf.node):
            if isinstance(c, ast.Call) and isinstance(c.func, ast.Attribute) and c.func.attr == "append" and norm(c.func.value) in worklists \
                    and any(isinstance(p, ast.For) and "children" in norm(p.iter) for p in parent_chain(c)):
                c._h7_target = tgt_
                pushes.append(c)
    if not pushes:
        R.bad("H7", "%s|no-descent" % ga.key, ga.loc(), "get_all_hrefs_of_instances never pushes a child reference onto the search stack")
    for c in pushes:
        conds = []
        for p in parent_chain(c):
            if isinstance(p, ast.If):
                in_body = any(c is x for s in p.body for x in ast.walk(s))
                conds.append((norm(p.test), in_body))
            if isinstance(p, ast.For):
                break
        tgt = getattr(c, "_h7_target", ga.params[0])
        bad = [t for t, b in conds if (not b and (" in %s" % tgt) in t and "not in" not in t) or (b and ("not in %s" % tgt) in t)]
        need = [t for t, b in conds if b and " in " in t and "not in" not in t and (" in %s" % tgt) not in t]
        if bad:
            R.bad("H7", "%s|descent-excludes-targets" % ga.key, ga.loc(c),
                  "the search descends into a child only when it is NOT itself a target (`%s` is tested first): a queried instance that is an ancestor of another "
                  "queried instance is returned but never descended into, so deeper occurrences are missed" % bad[0])
        elif not need:
            R.bad("H7", "%s|descent-unbounded" % ga.key, ga.loc(c), "the descent is not restricted to the upward-bound set")
        else:
            R.ok("H7", "descent under `%s`" % need[0], ga.loc(c))
    yields_in_loop = [y for sf, _t in searchers for y in walk_local(sf.node) if isinstance(y, ast.Yield)]
    R.count("yield sites in the downward search", len(yields_in_loop))
    R.floor("yield sites in the downward search", 2)
    R.rule("H7b", "the upward and downward work lists of get_all_hrefs_of_instances are closed under discovery")
    _worklist_closure(ctx, R, "H7b")
    R.rule("H11", "no occurrence is reported twice: every yield of the hierarchical queries is de-duplicated on the value it yields")
    _h_yield_guards(ctx, R, "H11")
    R.rule("H12", "a reference taken from the caller or the work list is used only after its validity test, for every item kind")
    _h_validated_roots(ctx, R, "H12")
    R.rule("H13", "the wire / cable enumerations descend into wire-only cells: descent is pruned by is_leaf(), never by `children` alone")
    _leaf_pruning(ctx, R, "H13", closure=False)
    # H14: every upward step of is_valid ties the level to its owner
    _h_owner_ties(ctx, R, iv)
    # H8
    R.rule("H8", "the ancestor walks of is_valid / is_unique use the cursor variable, not self")
    for pname in ("is_valid", "is_unique"):
        g = hc.props.get(pname, {}).get("getter")
        if g is None:
            raise AnalysisError("anchor vanished: HRef.%s" % pname)
        loops = [w for w in walk_local(g.node) if isinstance(w, ast.While) and isinstance(w.test, ast.Name)]
        if not loops:
            R.bad("H8", "%s|no-walk" % g.key, g.loc(), "HRef.%s no longer walks up the chain of parents" % pname)
            continue
        w = loops[0]
        cursor = w.test.id
        uses_self = [n for s in w.body for n in ast.walk(s) if isinstance(n, ast.Name) and n.id == "self"]
        advances = any(isinstance(a, ast.Assign) and norm(a.targets[0]) == cursor for s in w.body for a in ast.walk(s))
        if uses_self:
            R.bad("H8", "%s|self-in-walk" % g.key, g.loc(uses_self[0]),
                  "HRef.%s reads `self` inside the walk over `%s`: the test uses the referenced element's own position at every level instead of the level being visited" % (pname, cursor))
        elif not advances:
            R.bad("H8", "%s|no-advance" % g.key, g.loc(w), "HRef.%s never advances `%s` to its parent" % (pname, cursor))
        else:
            R.ok("H8", "HRef.%s walks with `%s`" % (pname, cursor), g.loc(w))


# ------------------------------------------------------------------------------------------------
def _selection_sets(f):
    """[(node, members, kind)] for every test on `selection` in f"""
    out = []
    for n in walk_local(f.node):
        if isinstance(n, ast.Compare) and len(n.ops) == 1 and norm(n.left) == "selection":
            c = n.comparators[0]
            mem = set()
            for x in ast.walk(c):
                if isinstance(x, ast.Attribute) and norm(x.value).endswith("Selection") and not x.attr.startswith("__"):
                    mem.add(x.attr)
            if mem:
                out.append((n, mem, type(n.ops[0]).__name__))
    return out


def _only_for_all(f, loop, push, mod=None):
    """is `push` reached only when the selection is Selection.ALL?  Facts are read from the tests the statement sits under (either arm) and
    from earlier `if T: continue / return / break / raise` statements of the enclosing blocks; a guard held in a local bound once is read
    through the local."""
    from ..pairing import alts_of
    sel = "selection" if "selection" in f.params else (f.params[1] if len(f.params) > 1 else "selection")
    once = {}
    for a in walk_local(f.node):
        if isinstance(a, ast.Assign) and len(a.targets) == 1 and isinstance(a.targets[0], ast.Name):
            once.setdefault(a.targets[0].id, []).append(a.value)

    def through_locals(t):
        class S(ast.NodeTransformer):
            def visit_Name(self, n):
                v = once.get(n.id)
                if v and len(v) == 1 and isinstance(n.ctx, ast.Load) and any(isinstance(z, ast.Name) and z.id == sel for z in ast.walk(v[0])):
                    return copy.deepcopy(v[0])
                return n
        return S().visit(copy.deepcopy(t))

    def pat_for(name):
        return re.compile(r"(is|eq)\((\w+\.)*ALL,%s\)$|in\(%s,[\[{(](\w+\.)*ALL,?[\]})]\)$" % (re.escape(name), re.escape(name)))
    pat = pat_for(sel)
    # a flag parameter that every caller computes as `selection is Selection.ALL` stands for that test (the selection taken apart into
    # booleans at the call)
    flags = set()
    if mod is not None:
        calls = [c for c in ast.walk(mod.tree) if isinstance(c, ast.Call) and isinstance(c.func, ast.Name) and c.func.id == f.name]
        names = [a.arg for a in f.node.args.posonlyargs + f.node.args.args] + [a.arg for a in f.node.args.kwonlyargs]
        npos = len(f.node.args.posonlyargs + f.node.args.args)
        for k, prm in enumerate(names):
            acts = []
            for c in calls:
                a = next((kw.value for kw in c.keywords if kw.arg == prm), None)
                if a is None and k < npos and k < len(c.args) and not any(isinstance(x, ast.Starred) for x in c.args):
                    a = c.args[k]
                acts.append(a)
            if calls and all(a is not None for a in acts):
                ok = True
                for a in acts:
                    al = alts_of(a, True)
                    if not (al and all(any(pat_for("selection").match(x) for x in alt) for alt in al)):
                        ok = False
                if ok:
                    flags.add(prm)

    def pins(test, truth):
        alts = alts_of(through_locals(test), truth)
        return bool(alts) and all(any(pat.match(a) or any(a == "truthy(%s)" % fl for fl in flags) for a in alt) for alt in alts)

    node = push
    for p_ in parent_chain(push):
        for fld in ("body", "orelse", "finalbody"):
            blk = getattr(p_, fld, None)
            if not isinstance(blk, list):
                continue
            idx = next((k for k, s_ in enumerate(blk) if s_ is node or any(z is node for z in ast.walk(s_))), None)
            if idx is None:
                continue
            if isinstance(p_, ast.If) and pins(p_.test, fld == "body"):
                return True
            for s_ in blk[:idx]:
                if isinstance(s_, ast.If) and not s_.orelse and s_.body and isinstance(s_.body[-1], (ast.Continue, ast.Return, ast.Break, ast.Raise)) and pins(s_.test, False):
                    return True
        if p_ is loop:
            break
        node = p_
    return False


def _narrow_selections_stop(ctx, R):
    """the pin-to-wire closure exists twice (get_hwires, get_hcables).  For INSIDE / OUTSIDE / BOTH it returns the wire on that side of the
    pin and stops; only ALL goes on from the wire it found to the other pins on it.  In every copy, each extension of the work list from a
    wire just found is therefore under `selection is Selection.ALL` (sibling cross-check: the copies must agree)."""
    R.rule("H5b", "narrow selections stop at the pin's own wire: every copy of the pin-to-wire closure extends its work list only under `selection is Selection.ALL`")
    P = ctx.P
    n = 0
    helpers = set()
    for m in ("get_hwires", "get_hcables"):
        mod = P.module(UTIL + m + ".py")
        f = mod.functions.get("_get_hwires_from_hpins")
        if f is None:
            cands = [g for g in mod.functions.values() if "selection" in g.params and any(isinstance(w, ast.While) for w in walk_local(g.node))
                     and any(isinstance(y, ast.Yield) for y in walk_local(g.node)) and g.name.startswith("_") and len(g.params) == 2]
            f = cands[0] if len(cands) == 1 else None
        if f is None and any(t.endswith("._get_hwires_from_hpins") for t in mod.imports.values()):
            R.ok("H5b", "%s uses the closure of its sibling module (one copy)" % m)
            continue
        if f is None:
            raise AnalysisError("anchor vanished: the pin-to-wire closure of %s" % m)
        # the work loop: a `while` whose body takes its next element off a list named in the loop test (pop / popleft)
        loops, wl = [], None
        for w in walk_local(f.node):
            if not isinstance(w, ast.While):
                continue
            tested = {z.id for z in ast.walk(w.test) if isinstance(z, ast.Name)}
            pops = [c.func.value.id for c in walk_local(w) if isinstance(c, ast.Call) and isinstance(c.func, ast.Attribute)
                    and c.func.attr in ("pop", "popleft") and isinstance(c.func.value, ast.Name)]
            pops = [q for q in pops if q in tested or (isinstance(w.test, ast.Constant) and w.test.value)]
            if pops:
                loops, wl = [w], pops[0]
                break
        if not loops:
            raise AnalysisError("anchor vanished: the work loop of %s" % f.qualname)
        for x in walk_local(loops[0]):
            push = None
            if isinstance(x, ast.AugAssign) and norm(x.target) == wl:
                push = x
            elif isinstance(x, ast.Assign) and any(norm(t) == wl for t in x.targets) and any(isinstance(z, ast.Name) and z.id == wl for z in ast.walk(x.value)):
                push = x
            elif isinstance(x, ast.Call) and isinstance(x.func, ast.Attribute) and norm(x.func.value) == wl and x.func.attr in ("append", "extend", "appendleft", "extendleft"):
                push = x
            if push is None:
                continue
            n += 1
            guarded = _only_for_all(f, loops[0], push, mod)
            helpers |= {(m, c.func.id) for c in ast.walk(push) if isinstance(c, ast.Call) and isinstance(c.func, ast.Name) and c.func.id in mod.functions}
            for p_ in parent_chain(push):
                if p_ is loops[0]:
                    break
                if isinstance(p_, ast.For):
                    helpers |= {(m, c.func.id) for c in ast.walk(p_.iter) if isinstance(c, ast.Call) and isinstance(c.func, ast.Name) and c.func.id in mod.functions}
            for nm in [z.id for z in ast.walk(push) if isinstance(z, ast.Name)]:
                ra = reaching_assign(push if isinstance(push, ast.stmt) else getattr(push, "_parent", push), nm)
                if ra is not None:
                    helpers |= {(m, c.func.id) for c in ast.walk(ra.value) if isinstance(c, ast.Call) and isinstance(c.func, ast.Name) and c.func.id in mod.functions}
            if guarded:
                R.ok("H5b", "%s.%s extends its work list only for Selection.ALL" % (m, f.name), f.loc(push))
            else:
                R.bad("H5b", "%s|unguarded expansion" % f.key, f.loc(push),
                      "%s pushes the pins of a wire it has just found (`%s`) for every selection: INSIDE / OUTSIDE / BOTH then follow the net through further "
                      "levels instead of returning exactly the wire on that side of the pin" % (f.qualname, short(push, 50)))
    # the pins of a wire are the same whoever asks: the helper that lists them decides from the wire alone (a parameter used as a truth
    # value is a switch; a parameter compared with the pins found — the one to leave out — is the exclusion filter, which H9 reads)
    def switches(e):
        if isinstance(e, ast.Name):
            return {e.id}
        if isinstance(e, ast.BoolOp):
            return set().union(*[switches(v) for v in e.values])
        if isinstance(e, ast.UnaryOp) and isinstance(e.op, ast.Not):
            return switches(e.operand)
        if isinstance(e, ast.Compare) and len(e.ops) == 1 and isinstance(e.comparators[0], ast.Constant) and isinstance(e.left, ast.Name):
            return {e.left.id}
        return set()
    for m, h in sorted(helpers):
        g = P.module(UTIL + m + ".py").functions[h]
        extra = set(g.params[1:])
        hit = None
        for t in walk_local(g.node):
            tests = [t.test] if isinstance(t, (ast.If, ast.IfExp, ast.While)) else (list(t.ifs) if isinstance(t, ast.comprehension) else [])
            for tt in tests:
                if switches(tt) & extra:
                    hit = hit or tt
        if hit is None:
            R.ok("H5b", "%s.%s lists the pins of a wire from the wire alone" % (m, h), g.loc(g.node))
        else:
            R.bad("H5b", "%s|pins listed by a switch" % g.key, g.loc(hit),
                  "%s leaves out pins of the wire depending on `%s`: the closure then stops at pins it should cross (a net through a feed-through "
                  "cell is cut there), and members of one net give different answers" % (g.qualname, short(hit, 40)))
    if not helpers:
        raise AnalysisError("anchor vanished: the helper that lists the pins of a wire in the closures")
    R.count("work-list expansions in the pin-to-wire closures (H5b)", n)
    R.floor("work-list expansions in the pin-to-wire closures (H5b)", 2)


def _no_loop_carried_parent(ctx, R, rid, closure):
    """in the query modules a loop visits siblings (the pins of a wire, the children of a definition): the reference the siblings hang
    under is the same for all of them.  A parent argument that the loop body itself rebinds to a reference built from it
    (`href_inst = from_parent_and_item(href_inst, instance)` inside `for pin in wire.pins`) is one level deeper for every later sibling."""
    R.rule(rid, "no loop-carried parent: inside a loop over siblings the parent of a factory call is not a name the loop body rebinds to a reference built under it")
    P = ctx.P
    n = 0
    for m in H_MODULES:
        mod = P.module(UTIL + m + ".py")
        for fn, f in sorted(mod.functions.items()):
            for lp in walk_local(f.node):
                if not isinstance(lp, ast.For):
                    continue
                for a in (x for s_ in lp.body for x in ast.walk(s_)):
                    if not (isinstance(a, ast.Assign) and len(a.targets) == 1 and isinstance(a.targets[0], ast.Name) and isinstance(a.value, ast.Call)
                            and _is_href_factory(a.value) and len(a.value.args) == 2 and isinstance(a.value.args[0], ast.Name)):
                        continue
                    if closure is not None and _is_closure_site(f, a.value) != closure:
                        continue
                    n += 1
                    v = a.targets[0].id
                    inner = next((p_ for p_ in parent_chain(a) if isinstance(p_, (ast.For, ast.While))), None)
                    if a.value.args[0].id == v and inner is lp:
                        # (a work list popped at the top of the loop re-binds the name per element: `href = stack.pop()`)
                        rebound_first = any(isinstance(s_, ast.Assign) and any(isinstance(t_, ast.Name) and t_.id == v for t_ in s_.targets)
                                            and not (isinstance(s_.value, ast.Call) and _is_href_factory(s_.value)) for s_ in lp.body)
                        in_target = any(isinstance(x, ast.Name) and x.id == v for x in ast.walk(lp.target))
                        # what is built under the carried name must reach the caller (a yield): fed to the work list only, the closure
                        # re-derives the pins from the wire and the result does not change (the twin of the removed H10, §7)
                        tainted = {v}
                        for x in (y for s_ in lp.body for y in ast.walk(s_)):
                            if isinstance(x, ast.Assign) and len(x.targets) == 1 and isinstance(x.targets[0], ast.Name) and isinstance(x.value, ast.Call) \
                                    and _is_href_factory(x.value) and x.value.args and isinstance(x.value.args[0], ast.Name) and x.value.args[0].id in tainted:
                                tainted.add(x.targets[0].id)
                        reaches_caller = any(isinstance(y, ast.Yield) and y.value is not None and any(isinstance(z, ast.Name) and z.id in tainted for z in ast.walk(y.value))
                                             for s_ in lp.body for y in ast.walk(s_))
                        if not rebound_first and not in_target and reaches_caller:
                            R.bad(rid, "%s|loop-carried %s" % (f.key, v), f.loc(a),
                                  "%s rebinds `%s` to a reference built under `%s` itself inside the loop over `%s`: the next element of the loop is "
                                  "placed one level deeper (under the previous element) — invalid references are returned and the real ones are missing"
                                  % (f.qualname, v, v, short(lp.iter, 40)))
                            continue
                    R.ok(rid, "%s: %s" % (f.qualname, short(a, 50)), f.loc(a))
    R.count("factory assignments inside loops (%s)" % rid, n)
    R.floor("factory assignments inside loops (%s)" % rid, 5)


@register("C12",
          "Static analysis of the cross-hierarchy closure code: H3' kind inference of every hierarchical-reference chain built at the closure "
          "sites (the Wire/pin branches of the raw generators and the work-list helpers) — an ill-typed reference is never valid, so it is "
          "dropped by the work list and the closure is incomplete; H5 Selection dispatch: the argument validation accepts exactly the members "
          "the body handles, every dispatch block covers them, and every branch set that contains INSIDE or OUTSIDE also contains ALL; H9 the "
          "closure's exclusion filters compare whole references, never bare items (items are shared between occurrences); a reference built "
          "around a parent link that can be None (element removed from its parent) is never yielded without a test in between; H11' yields of the "
          "raw generators and of the work-list closures are de-duplicated on the value yielded; H7b' / H13' the occurrence enumeration the traces "
          "start from is closed under discovery and no step is pruned on the absence of child instances (a cell may consist of wires only); H9 no exclusion "
          "inside a closure helper compares bare items; H15 the branch that handles a hierarchical reference enumerates nothing over all occurrences; H16' no loop-carried parent (see C11) on the closure side; H5b sibling cross-check of the two copies of the pin-to-wire closure: each extends its work list only when the selection is ALL (read from enclosing tests, earlier continue/return guards, once-bound locals and flag parameters every caller computes as `selection is Selection.ALL`), and the helper that lists the pins of a wire decides from the wire alone. Decides "
          "well-formedness of what the closure builds; that the closure equals the electrical net for every start point is not decided.")
def check_c12(ctx, R):
    P = ctx.P
    _no_loop_carried_parent(ctx, R, "H16'", closure=True)
    _narrow_selections_stop(ctx, R)
    R.rule("H3'", "chain typing of every closure-side factory call")
    n, typed = _typed_sites(ctx, R, "H3'", closure=True)
    R.count("closure factory sites (H3')", n)
    R.count("closure factory sites with both kinds inferred (H3')", typed)
    R.floor("closure factory sites (H3')", 30)
    R.floor("closure factory sites with both kinds inferred (H3')", 20)
    R.rule("H5", "Selection dispatch is exhaustive and agrees with the argument validation")
    n_sel = 0
    for m in H_MODULES + ["get_wires", "get_pins", "get_cables", "get_ports", "get_instances", "get_definitions", "get_libraries"]:
        mod = P.module(UTIL + m + ".py")
        pub = mod.functions.get(m)
        if pub is None:
            raise AnalysisError("anchor vanished: %s" % m)
        accepted = None
        for (node, mem, kind) in _selection_sets(pub):
            if kind == "NotIn":
                accepted = mem
        if accepted is None and any(isinstance(c, ast.Call) and norm(c.func) == "isinstance" and len(c.args) == 2 and norm(c.args[0]) == "selection"
                                    and norm(c.args[1]).endswith("Selection") for c in walk_local(pub.node)):
            sel = P.cls(UTIL + "selection.py", "Selection")
            accepted = {k for k in sel.class_assigns if not k.startswith("_")}
        if accepted is None:
            continue  # this query has no selection option
        n_sel += 1
        handled = set()
        bodies = [f for fn, f in mod.functions.items() if f is not pub]
        for f in bodies:
            for (node, mem, kind) in _selection_sets(f):
                handled |= mem
                if kind in ("In",) and (mem & {"INSIDE", "OUTSIDE"}) and "ALL" in accepted and "ALL" not in mem and len(mem) > 1:
                    R.bad("H5", "%s|set without ALL|%s" % (f.key, ",".join(sorted(mem))), f.loc(node),
                          "%s: `%s` handles %s but not ALL: asking for everything connected skips this side" % (f.qualname, short(node, 70), sorted(mem)))
                elif kind == "In":
                    R.ok("H5", "%s: %s" % (f.qualname, short(node, 50)), f.loc(node))
            # if/elif chains on selection without a final else must cover the accepted members
            for n_if in walk_local(f.node):
                if isinstance(n_if, ast.If) and isinstance(n_if.test, ast.Compare) and norm(n_if.test.left) == "selection" \
                        and not (isinstance(getattr(n_if, "_parent", None), ast.If) and n_if in getattr(n_if._parent, "orelse", [])):
                    chain_mem = set()
                    cur = n_if
                    has_else = False
                    while True:
                        if isinstance(cur.test, ast.Compare) and norm(cur.test.left) == "selection":
                            for x in ast.walk(cur.test.comparators[0]):
                                if isinstance(x, ast.Attribute) and norm(x.value).endswith("Selection"):
                                    chain_mem.add(x.attr)
                        if len(cur.orelse) == 1 and isinstance(cur.orelse[0], ast.If) and isinstance(cur.orelse[0].test, ast.Compare) \
                                and norm(cur.orelse[0].test.left) == "selection":
                            cur = cur.orelse[0]
                            continue
                        has_else = bool(cur.orelse)
                        break
                    if cur is not n_if:  # a real if/elif chain
                        if has_else or chain_mem >= accepted:
                            R.ok("H5", "%s: chain over %s%s" % (f.qualname, sorted(chain_mem), " + else" if has_else else ""), f.loc(n_if))
                        else:
                            R.bad("H5", "%s|chain|%s" % (f.key, ",".join(sorted(chain_mem))), f.loc(n_if),
                                  "%s: the if/elif chain on selection handles %s and has no else, but %s are accepted" % (f.qualname, sorted(chain_mem), sorted(accepted - chain_mem)))
        mentioned = handled | set()
        # a body with a bare else handles the rest; otherwise every accepted member must be mentioned somewhere
        any_else = any(isinstance(n_if, ast.If) and isinstance(n_if.test, ast.Compare) and norm(n_if.test.left) == "selection" and n_if.orelse
                       for f in bodies for n_if in walk_local(f.node))
        if accepted - mentioned and not any_else:
            R.bad("H5", "%s|unhandled|%s" % (pub.key, ",".join(sorted(accepted - mentioned))), pub.loc(),
                  "%s accepts selection %s but no branch handles %s" % (m, sorted(accepted), sorted(accepted - mentioned)))
        elif mentioned - accepted:
            R.bad("H5", "%s|unreachable|%s" % (pub.key, ",".join(sorted(mentioned - accepted))), pub.loc(),
                  "%s handles selection %s which the argument check rejects (accepted: %s)" % (m, sorted(mentioned - accepted), sorted(accepted)))
        else:
            R.ok("H5", "%s accepts %s" % (m, sorted(accepted)), pub.loc())
    R.count("queries with a selection option (H5)", n_sel)
    R.floor("queries with a selection option (H5)", 8)
    R.rule("H7b'", "the occurrence enumeration the traces start from is closed under discovery")
    _worklist_closure(ctx, R, "H7b'")
    R.rule("H13'", "the closure follows nets through wire-only cells: no step is pruned on the absence of child instances")
    _leaf_pruning(ctx, R, "H13'", closure=True)
    R.rule("H11'", "each hierarchical pin / wire of a trace is reported once, de-duplicated on the value yielded")
    _h_yield_guards(ctx, R, "H11'", closures=True)
    # H15: a reference fixes the occurrence
    R.rule("H15", "inside the branch that handles a hierarchical reference nothing is enumerated over all occurrences (get_all_hrefs_of_*): the reference already "
                  "says which occurrence is meant")
    n15 = 0
    from .query_rules import _triple
    for m in H_MODULES:
        mod = P.module(UTIL + m + ".py")
        name, pub, mid, raw0 = _triple(mod)
        raw = inlined_view(P, raw0, keep=tuple(g.name for g in _closure_generators(mod)))
        for br in walk_local(raw.node):
            if not (isinstance(br, ast.If) and isinstance(br.test, ast.Call) and norm(br.test.func) == "isinstance" and len(br.test.args) == 2
                    and norm(br.test.args[1]).split(".")[-1] == "HRef"):
                continue
            n15 += 1
            calls = [c for s_ in br.body for c in ast.walk(s_) if isinstance(c, ast.Call) and isinstance(c.func, ast.Attribute) and c.func.attr.startswith("get_all_hrefs_of")]
            if calls:
                R.bad("H15", "%s|enumeration in the reference branch|%s" % (raw.key, calls[0].func.attr), raw.loc(calls[0]),
                      "%s handles a hierarchical reference but calls `%s`, which lists the element under every instance of its definition: the result contains "
                      "occurrences outside the one the reference names" % (raw.qualname, short(calls[0], 60)))
            else:
                R.ok("H15", "%s: the reference branch stays inside its occurrence" % raw.qualname, raw.loc(br))
    R.count("reference branches of the raw generators (H15)", n15)
    R.floor("reference branches of the raw generators (H15)", 5)
    # H9
    R.rule("H9", "closure filters compare whole references, not bare items")
    n9 = 0
    for m in H_MODULES:
        mod = P.module(UTIL + m + ".py")
        for f in mod.all_funcs():
            # (read with private helpers in place and locals that only name `<href>.item` written out: `pin = hpin.item … x.item is not pin`)
            for c in walk_local(inlined_view(P, f).node):
                if isinstance(c, ast.Compare) and len(c.ops) == 1 and isinstance(c.ops[0], (ast.Eq, ast.NotEq, ast.Is, ast.IsNot)):
                    l, r = c.left, c.comparators[0]
                    if isinstance(l, ast.Attribute) and isinstance(r, ast.Attribute) and l.attr == "item" and r.attr == "item":
                        n9 += 1
                        R.bad("H9", "%s|item-compare" % f.key, f.loc(c),
                              "%s compares `%s`: items are shared by every occurrence of a definition, so different hierarchical pins/wires look equal and are dropped from the trace" % (f.qualname, short(c, 60)))
            # an exclusion written against bare items inside a closure helper: `if pin is not origin` with pin taken from `<href>.item.pins`
            # and origin handed in by the caller — the same item occurs under every instance of its definition, so sibling occurrences
            # are excluded along with the one the trace came from
            if f.name in CLOSURE_FUNCS or f.name.startswith(("_get_hpins_from", "_get_inner_", "_get_outer_")):
                item_level = set()
                for lp in walk_local(f.node):
                    if isinstance(lp, ast.For) and isinstance(lp.target, ast.Name) and ".item" in norm(lp.iter) and "from_parent_and_item" not in norm(lp.iter):
                        item_level.add(lp.target.id)
                grew = True
                while grew:
                    grew = False
                    for a in walk_local(f.node):
                        if isinstance(a, ast.Assign) and len(a.targets) == 1 and isinstance(a.targets[0], ast.Name) and a.targets[0].id not in item_level \
                                and isinstance(a.value, ast.Attribute) and isinstance(a.value.value, ast.Name) and a.value.value.id in item_level:
                            item_level.add(a.targets[0].id)
                            grew = True
                params_ = set(f.params)
                for c in walk_local(f.node):
                    if isinstance(c, ast.Compare) and len(c.ops) == 1 and isinstance(c.ops[0], (ast.Is, ast.IsNot, ast.Eq, ast.NotEq)):
                        l, r = c.left, c.comparators[0]
                        for a_, b_ in ((l, r), (r, l)):
                            if isinstance(a_, ast.Name) and a_.id in item_level and isinstance(b_, ast.Name) and b_.id in params_ and b_.id not in item_level:
                                n9 += 1
                                R.bad("H9", "%s|item-exclusion|%s" % (f.key, b_.id), f.loc(c),
                                      "%s filters with `%s`: `%s` is a bare netlist item (taken from `.item`), shared by every occurrence of its definition, so the "
                                      "occurrences reached through sibling instances are excluded together with the one the trace came from"
                                      % (f.qualname, short(c, 50), a_.id))
            # the work-list exclusion of the pin we came from
            if f.name == "_get_hwires_from_hpins":
                # (the loader reads `WL += (x for x in IT if c)` as `for x in IT: if c: WL.append(x)`)
                popped = {norm(a.targets[0]): norm(a.value.func.value) for a in walk_local(f.node) if isinstance(a, ast.Assign) and isinstance(a.value, ast.Call)
                          and isinstance(a.value.func, ast.Attribute) and a.value.func.attr == "pop"}
                worklists = set(popped.values())
                for c in walk_local(f.node):
                    if not (isinstance(c, ast.Call) and isinstance(c.func, ast.Attribute) and c.func.attr == "append" and norm(c.func.value) in worklists
                            and len(c.args) == 1 and isinstance(c.args[0], ast.Name)):
                        continue
                    var = c.args[0].id
                    chain = []
                    loop = None
                    for p_ in parent_chain(c):
                        if isinstance(p_, ast.For) and norm(p_.target) == var:
                            loop = p_
                            break
                        if isinstance(p_, ast.If):
                            chain.append(p_.test)
                        if isinstance(p_, (ast.FunctionDef, ast.While)):
                            break
                    if loop is None:
                        continue
                    n9 += 1
                    ok = len(chain) == 1
                    if ok:
                        t = chain[0]
                        ok = isinstance(t, ast.Compare) and len(t.ops) == 1 and isinstance(t.ops[0], ast.NotEq) and var in (norm(t.left), norm(t.comparators[0])) \
                            and ({norm(t.left), norm(t.comparators[0])} - {var}) <= set(popped)
                    if ok:
                        R.ok("H9", "%s excludes only the reference it came from" % f.qualname, f.loc(c))
                    else:
                        R.bad("H9", "%s|exclusion" % f.key, f.loc(c),
                              "%s: the work-list extension filters with `%s`; it must exclude exactly the hierarchical pin it came from (x != hpin)"
                              % (f.qualname, " and ".join(short(t, 50) for t in chain) or "nothing"))
                # the same extension through a private helper that returns the filtered pins: `WL += others(hwire, hpin)` with
                # `def others(w, excluded): return [x for x in pins(w) if x != excluded]` — read with the actuals in place
                for c in walk_local(f.node):
                    call = None
                    if isinstance(c, ast.AugAssign) and norm(c.target) in worklists and isinstance(c.value, ast.Call):
                        call = c.value
                    elif isinstance(c, ast.Call) and isinstance(c.func, ast.Attribute) and c.func.attr == "extend" and norm(c.func.value) in worklists \
                            and len(c.args) == 1 and isinstance(c.args[0], ast.Call):
                        call = c.args[0]
                    if call is None or not isinstance(call.func, ast.Name) or call.func.id not in mod.functions:
                        continue
                    h = mod.functions[call.func.id]
                    body = [st for st in h.node.body if not (isinstance(st, ast.Expr) and isinstance(st.value, ast.Constant))]
                    if not (len(body) == 1 and isinstance(body[0], ast.Return) and isinstance(body[0].value, (ast.ListComp, ast.GeneratorExp))
                            and len(body[0].value.generators) == 1 and isinstance(body[0].value.generators[0].target, ast.Name)
                            and len(call.args) == len(h.params) and not call.keywords):
                        continue
                    comp = body[0].value
                    var = comp.generators[0].target.id
                    if norm(comp.elt) != var:
                        continue
                    actual = {prm: norm(a) for prm, a in zip(h.params, call.args)}
                    chain = list(comp.generators[0].ifs)
                    n9 += 1
                    ok = len(chain) == 1
                    if ok:
                        t = chain[0]
                        ok = isinstance(t, ast.Compare) and len(t.ops) == 1 and isinstance(t.ops[0], ast.NotEq) and var in (norm(t.left), norm(t.comparators[0])) \
                            and {actual.get(z, z) for z in ({norm(t.left), norm(t.comparators[0])} - {var})} <= set(popped)
                    if ok:
                        R.ok("H9", "%s excludes only the reference it came from (through %s)" % (f.qualname, h.name), f.loc(c))
                    else:
                        R.bad("H9", "%s|exclusion" % f.key, f.loc(c),
                              "%s: the work-list extension filters with `%s` (in %s); it must exclude exactly the hierarchical pin it came from (x != hpin)"
                              % (f.qualname, " and ".join(short(t, 50) for t in chain) or "nothing", h.name))
    R.count("closure exclusion filters (H9)", n9)
    R.floor("closure exclusion filters (H9)", 2)
