"""C01 (ownership / pin-wire consistency: O1-O5) and C02 (instances mirror their definition:
M1-M7) — effect and pairing rules over spydrnet/ir, layering rule over everything else."""
import ast
import re

from ..core import parent_chain, AnalysisError, norm, short, walk_local
from ..kinds import (RELATIONS, FIELD_OWNER, FIELD_TYPES, CONCRETE, kinds_of, typer_for, field_class)
from ..pairing import O2_RELATIONS, VALID_EXIT, expand_defs, Pairing, with_def_consequences, flag_consequences
from ..typestate import is_public_entry, is_clone_family, classify_set
from . import register
from ..inline import inlined_view
from ..paths import expand as _expand, stmt_paths as _stmt_paths

VIEW_CLASSES = {"ListView": "spydrnet/ir/views/listview.py", "SetView": "spydrnet/ir/views/setview.py",
                "DictView": "spydrnet/ir/views/dictview.py", "OuterPinsView": "spydrnet/ir/views/outerpinsview.py"}
MUTATOR_NAMES = {"append", "extend", "insert", "remove", "pop", "clear", "add", "discard", "update", "__setitem__",
                 "__delitem__", "sort", "reverse", "popitem", "setdefault", "difference_update", "intersection_update",
                 "symmetric_difference_update", "move_to_end"}
INPLACE_DUNDERS = {"__iadd__", "__imul__", "__ior__", "__iand__", "__ixor__", "__isub__"}


def pairing(ctx):
    if getattr(ctx, "_pairing", None) is None:
        ctx._pairing = Pairing(ctx.model)
    return ctx._pairing


def has_rel(facts, ops, a, b):
    for op in ops:
        if "%s(%s,%s)" % (op, a, b) in facts or "%s(%s,%s)" % (op, b, a) in facts:
            return True
    return False


def every(worlds, pred):
    """the guard must hold in every world (path class) that reaches the write"""
    return bool(worlds) and all(pred(w) for w in worlds)


def common(worlds):
    out = None
    for w in worlds:
        out = set(w) if out is None else (out & w)
    return out or set()


# friend writes confirmed by reading (DESIGN §3 C01 O1); one line of reason each
FRIEND_WRITES = {
    ("Wire", "Pin", "_wire"): "the wire keeps Pin._wire in step with Wire._pins",
    ("Instance", "Pin", "_wire"): "Instance._clone_rip cuts the clone's outer pins off their wires",
    ("Port", "Instance", "_pins"): "create_pin/_remove_pin mirror the port's pins on every referencing instance",
    ("Definition", "Instance", "_pins"): "add_port/_remove_port mirror the port's pins on every referencing instance",
    ("Port", "OuterPin", "_instance"): "_remove_pin detaches the dropped outer pins",
    ("Port", "OuterPin", "_inner_pin"): "_remove_pin detaches the dropped outer pins",
    ("Definition", "OuterPin", "_instance"): "_remove_port detaches the dropped outer pins",
    ("Definition", "OuterPin", "_inner_pin"): "_remove_port detaches the dropped outer pins",
    ("Instance", "OuterPin", "_instance"): "the reference setter / clone own the instance's outer pins",
    ("Instance", "OuterPin", "_inner_pin"): "the reference setter re-keys outer pins on re-point",
    ("Instance", "Definition", "_references"): "the reference setter / clone keep the reference set in step",
    ("Library", "Definition", "_references"): "Library._clone_rip prunes/extends reference sets of cloned definitions",
    ("Netlist", "Definition", "_references"): "Netlist._clone_rip prunes reference sets of cloned definitions",
    ("Definition", "Instance", "_reference"): "Definition._clone_rip_and_replace redirects cloned children",
    ("Netlist", "Instance", "_reference"): "Netlist._clone redirects the cloned stand-alone top instance",
    ("Netlist", "OuterPin", "_inner_pin"): "Netlist._clone redirects the cloned stand-alone top instance's pins",
    ("Netlist", "Instance", "_is_top_instance"): "Netlist._clone flags the copy's top instance (the netlist owns the top-instance relation)",
}


def _o1(ctx, R):
    R.rule("O1", "who-may-write: each private IR field is written only by its own class, the relation's container "
                 "class, or a reviewed friend")
    P, M = ctx.P, ctx.model
    owner_ok = set()
    for r in RELATIONS:
        owner_ok.add((r.ccls, r.ecls, r.efield))
    n = 0
    # a private module-level function of spydrnet/ir is code of the methods that call it: its writes are judged where it is called (read in
    # place in each caller), not as writes of "no class"
    from ..effects import FuncEvents
    funcs = M.ir_funcs()
    modfuns = {f.name for f in funcs if f.cls is None and f.name.startswith("_") and not f.name.startswith("__")}
    called = set()
    views = {}
    for f in funcs:
        if f.cls is None:
            continue
        names_ = {c.func.id for c in walk_local(f.node) if isinstance(c, ast.Call) and isinstance(c.func, ast.Name) and c.func.id in modfuns}
        if names_:
            fv = inlined_view(P, f)
            if fv is not f and any(h_.split(".")[-1] in names_ for h_ in getattr(fv, "inlined_helpers", ())):
                views[f.key] = fv
                called |= {h_.split(".")[-1] for h_ in fv.inlined_helpers} & names_
    for f in funcs:
        if f.cls is None and f.name in called:
            continue
        if f.key in views:
            f = views[f.key]
            fe = FuncEvents(P, f, M)
        else:
            fe = M.events(f)
        wcls = f.cls.name if f.cls is not None else "<module>"
        for evs in fe.by_node.values():
            for ev in evs:
                if ev.kind != "write":
                    continue
                n += 1
                fcls = ev.cls
                inst = "%s writes %s.%s (%s)" % (f.qualname, fcls, ev.field, ev.op)
                if fcls is None:
                    R.bad("O1", "%s|?.%s" % (f.key, ev.field), f.loc(ev.stmt),
                          "%s: cannot tell which class's %s is written at `%s`" % (f.qualname, ev.field, short(ev.stmt, 60)))
                    continue
                mro_w = [c.name for c in P.ir_mro(wcls)]
                sub_f = P.ir_subclasses(fcls)
                if fcls in mro_w or wcls in sub_f:
                    R.ok("O1", inst, f.loc(ev.stmt))
                    continue
                ok = False
                for c in mro_w:
                    for sc in [fcls] + [x.name for x in P.ir_mro(fcls)] + sub_f:
                        if (c, sc, ev.field) in owner_ok or (c, sc, ev.field) in FRIEND_WRITES:
                            ok = True
                # element class may be abstract in the table (Pin, Bundle)
                for (a, b, fld) in list(owner_ok) + list(FRIEND_WRITES):
                    if fld == ev.field and a in mro_w and (b == fcls or b in [x.name for x in P.ir_mro(fcls)] or fcls in [x.name for x in P.ir_mro(b)]):
                        ok = True
                if ok:
                    R.ok("O1", inst, f.loc(ev.stmt))
                else:
                    R.bad("O1", "%s|%s.%s" % (f.key, fcls, ev.field), f.loc(ev.stmt),
                          "%s (class %s) writes %s.%s at `%s`; only %s and its reviewed friends may" % (f.qualname, wcls, fcls, ev.field, short(ev.stmt, 60), fcls))
    R.count("private-field write sites in spydrnet/ir (O1)", n)
    R.floor("private-field write sites in spydrnet/ir (O1)", 150)


def bulk_removals(ctx):
    """[(func, relation, excluded-set text, [loops over it], write event)] for every container rebuild `self._f = [x for x in self._f
    if x not in S]` of a public mutator: the elements dropped are exactly S, so whatever must happen per dropped element
    (announcement, back-pointer clearing, unlinking of instance pins) has to happen in a loop over that same S"""
    PA = pairing(ctx)
    out = []
    for key, f in sorted(PA.funcs.items()):
        if is_clone_family(f) or not is_public_entry(f):
            continue
        res = PA.results[key]
        seen = set()
        for re_, facts, toks in res["events"]:
            if re_.side != "c" or re_.op != "~" or re_.via is not None or id(re_.ev) in seen:
                continue
            seen.add(id(re_.ev))
            S = _filter_excluded(f.node, re_.ev)
            if S is None:
                continue
            rel = O2_RELATIONS[re_.rel]
            loops = []
            for lp in walk_local(f.node):
                if not isinstance(lp, ast.For):
                    continue
                it = norm(lp.iter)
                if it == S:
                    loops.append(lp)
                elif it in ("self.%s" % rel.cfield, "self.%s" % rel.cfield.lstrip("_")) and any(
                        isinstance(n2, ast.If) and isinstance(n2.test, ast.Compare) and norm(n2.test.comparators[0]) == S for n2 in ast.walk(lp)):
                    loops.append(lp)
            out.append((f, rel, S, loops, re_.ev))
    return out


def _filter_excluded(fnode, ev):
    """the excluded-set expression of a container rebuild (both idioms)"""
    v = ev.value
    if isinstance(v, ast.Name):
        defs = [n for n in walk_local(fnode) if isinstance(n, ast.Assign) and any(isinstance(t, ast.Name) and t.id == v.id for t in n.targets)]
        if len(defs) == 1 and not (isinstance(defs[0].value, ast.List) and not defs[0].value.elts):
            v = defs[0].value
        else:
            # included-list idiom: for x in self._f: if x not in S: included.append(x) else: self._remove(x)
            # (any control-flow shape: if/else, guard clause with continue, …): on every path through the loop body the element is
            # appended exactly when it is known not to be in S
            for lp in walk_local(fnode):
                if not (isinstance(lp, ast.For) and isinstance(lp.target, ast.Name)):
                    continue
                x = lp.target.id
                hits = []

                def probe(st, facts, defs=None, x=x, hits=hits):
                    if isinstance(st, ast.Expr) and isinstance(st.value, ast.Call) and isinstance(st.value.func, ast.Attribute) and st.value.func.attr == "append" \
                            and norm(st.value.func.value) == v.id and st.value.args and norm(st.value.args[0]) == x:
                        hits.append(facts)
                paths = list(_stmt_paths(lp.body, frozenset(), {}, None, probe))
                if not hits or any(oc is None for oc, fa, df in paths):
                    continue
                cands = None
                for fa in hits:
                    here = {m.group(1) for a in fa for m in [re.match(r"notin\(%s,(.*)\)$" % re.escape(x), a)] if m}
                    cands = here if cands is None else cands & here
                if cands and len(cands) == 1:
                    return sorted(cands)[0]
            return None
    if isinstance(v, ast.Call) and v.args:
        v = v.args[0]
    if isinstance(v, (ast.GeneratorExp, ast.ListComp, ast.SetComp)):
        for c in v.generators[0].ifs:
            if isinstance(c, ast.Compare) and isinstance(c.ops[0], ast.NotIn):
                return norm(c.comparators[0])
    return None


def _accepting_facts(P, f, elt, var, depth=0, want=True):
    """fact sets (atoms over `var`) under which the per-element expression `elt` is true (false when want is False); follows one
    private predicate helper, also under `not`"""
    from ..pairing import alts_of
    if isinstance(elt, ast.UnaryOp) and isinstance(elt.op, ast.Not):
        return _accepting_facts(P, f, elt.operand, var, depth, not want)
    if isinstance(elt, ast.Call) and isinstance(elt.func, ast.Attribute) and norm(elt.func.value) == "self" and len(elt.args) == 1 \
            and norm(elt.args[0]) == var and f.cls is not None and depth < 2:
        h = f.cls.methods.get(elt.func.attr) or (P.ir_lookup_method(f.cls.name, elt.func.attr) if f.cls.name in P.ir_classes else None)
        if h is None or len(h.params) != 2:
            return None
        return _predicate_paths(h.node.body, h.params[1], var, want)
    if isinstance(elt, ast.Call) and isinstance(elt.func, ast.Name) and len(elt.args) == 1 and norm(elt.args[0]) == var and not elt.keywords and depth < 2:
        # a local closure or a module-level predicate
        h = next((n for n in ast.walk(f.node) if isinstance(n, ast.FunctionDef) and n is not f.node and n.name == elt.func.id), None)
        if h is None:
            mf = f.module.functions.get(elt.func.id) if hasattr(f.module, "functions") else None
            h = mf.node if mf is not None else None
        if h is None or len(h.args.args) != 1 or h.args.vararg or h.args.kwarg or h.args.kwonlyargs:
            return None
        return _predicate_paths(h.node.body if hasattr(h, "node") else h.body, h.args.args[0].arg, var, want)
    return [frozenset(alt) for alt in alts_of(elt, want)]


def _predicate_paths(stmts, param, var, want=True):
    """fact sets under which a predicate body returns a true value (a false one when want is False), its parameter renamed to `var`"""
    from ..pairing import alts_of
    body = [s_ for s_ in stmts if not (isinstance(s_, ast.Expr) and isinstance(s_.value, ast.Constant))]
    out = []
    for oc, fa, df in _stmt_paths(body, frozenset(), {param: var}, None):
        if oc is None:
            return None
        if oc == "fall" or (isinstance(oc, tuple) and oc[0] == "return" and oc[1] is None):
            if not want:
                out.append(fa)  # falling off the end returns None
            continue
        if isinstance(oc, tuple) and oc[0] == "return":
            if isinstance(oc[1], ast.Constant):
                if bool(oc[1].value) is want:
                    out.append(fa)
                continue
            for alt in alts_of(oc[1], want):
                out.append(fa | frozenset(_expand(a, df) for a in alt))
    return out


def _has_bp_atom(facts, var, bp_names):
    """the path established that the object whose back pointer is written belongs to this container: for an OuterPin handle that is
    the pin stored in its instance's pin map (`<…>.pins[…]`), otherwise the element itself"""
    outer = any(a.startswith("isinstance(%s," % var) and a.rstrip(")").split(".")[-1].endswith("OuterPin") for a in facts)
    for a in facts:
        m = re.match(r"(is|eq)\((.*)\)$", a)
        if not m:
            continue
        body = m.group(2)
        for b in bp_names:
            if outer:
                if re.search(r"\.pins\[[^\]]+\]\._?%s(,self$|$)" % re.escape(b), body) and ("self," in body or ",self" in body):
                    return True
            else:
                if body in ("%s.%s,self" % (var, b), "self,%s.%s" % (var, b), "%s._%s,self" % (var, b.lstrip("_")), "self,%s._%s" % (var, b.lstrip("_"))):
                    return True
    return False


def _raising_validation(f, bp_names, excluded, before):
    """`for x in S: if <x does not belong>: raise ...` ahead of the write: every element that gets past the loop was checked"""
    for lp in walk_local(f.node):
        if not (isinstance(lp, ast.For) and norm(lp.iter) == excluded and lp.lineno < before and not lp.orelse
                and any(isinstance(x, (ast.Raise, ast.Assert)) for x in ast.walk(lp))):  # (`if c: raise AssertionError` is loaded as an assert)
            continue
        if getattr(lp, "_parent", None) is not f.node:
            continue  # must dominate the write: a statement of the function body itself
        var = norm(lp.target)
        n_acc, ok = 0, True
        for oc, fa, df in _stmt_paths(lp.body, frozenset(), {}, None):
            if oc is None or oc in ("break",) or (isinstance(oc, tuple) and oc[0] == "return"):
                ok = False
                break
            if oc == "raise":
                continue
            n_acc += 1
            if not _has_bp_atom(fa, var, bp_names):
                ok = False
        if ok and n_acc:
            return True
    return False


def _universal_guard(P, f, facts, bp_names, excluded):
    """every element of the excluded set was checked to belong to this container, whichever way the check is written:
    assert all(<test over x> for x in S), all(self._predicate(x) for x in S), a flag cleared in a loop over S, with or without an
    intermediate local holding the result"""
    defs = {}
    for a in facts:
        m = re.match(r"def\((\w+),(.*)\)$", a)
        if m:
            defs[m.group(1)] = m.group(2)
    cands = []
    for a in facts:
        m = re.match(r"truthy\((.*)\)$", a)
        if m:
            cands.append(m.group(1))
    texts = []
    for c in cands:
        texts.append(c)
        if c in defs:
            texts.append(defs[c])
    for txt in texts:
        try:
            e = ast.parse(txt, mode="eval").body
        except SyntaxError:
            continue
        if isinstance(e, ast.Call) and norm(e.func) == "all" and e.args and isinstance(e.args[0], (ast.GeneratorExp, ast.ListComp)) \
                and len(e.args[0].generators) == 1 and norm(e.args[0].generators[0].iter) == excluded and not e.args[0].generators[0].ifs:
            var = norm(e.args[0].generators[0].target)
            acc = _accepting_facts(P, f, e.args[0].elt, var)
            if acc is not None and acc and all(_has_bp_atom(fa, var, bp_names) for fa in acc):
                return True
        if isinstance(e, ast.Name):
            # flag idiom
            flag = e.id
            init_true = any(isinstance(n, ast.Assign) and len(n.targets) == 1 and norm(n.targets[0]) == flag and isinstance(n.value, ast.Constant)
                            and n.value.value is True for n in walk_local(f.node))
            loops = [lp for lp in walk_local(f.node) if isinstance(lp, ast.For) and norm(lp.iter) == excluded
                     and any(isinstance(n, ast.Assign) and norm(n.targets[0]) == flag for n in ast.walk(lp))]
            if init_true and len(loops) == 1:
                var = norm(loops[0].target)
                ok = True
                n_acc = 0
                for oc, fa, df in _stmt_paths(loops[0].body, frozenset(), {}, flag):
                    if oc is None:
                        ok = False
                        break
                    if oc == "reject" or oc == "break":
                        continue  # a break is only reached after the flag was cleared in this idiom; a bare break rejects nothing and accepts nothing
                    n_acc += 1
                    if not _has_bp_atom(fa, var, bp_names):
                        ok = False
                if ok and n_acc:
                    return True
    return False


def _all_guard(facts, bp_names, excluded):
    """truthy(all((x.bp == self ... for x in S))) with S the excluded set"""
    for a in facts:
        if not a.startswith("truthy(all("):
            continue
        try:
            e = ast.parse(a[len("truthy("):-1], mode="eval").body
        except SyntaxError:
            continue
        if not (isinstance(e, ast.Call) and e.args and isinstance(e.args[0], (ast.GeneratorExp, ast.ListComp))):
            continue
        g = e.args[0]
        if len(g.generators) != 1 or norm(g.generators[0].iter) != excluded:
            continue
        var = norm(g.generators[0].target)
        conj = g.elt.values if isinstance(g.elt, ast.BoolOp) and isinstance(g.elt.op, ast.And) else [g.elt]
        for c in conj:
            if isinstance(c, ast.Compare) and len(c.ops) == 1 and isinstance(c.ops[0], (ast.Eq, ast.Is)):
                sides = {norm(c.left), norm(c.comparators[0])}
                if "self" in sides and any("%s.%s" % (var, b) in sides for b in bp_names):
                    return True
    return False


def _flag_guard(f, facts, bp_names, excluded):
    """flag idiom: ok = True; for p in S: if <... p.bp != self ...>: ok = False; break ... assert ok"""
    for a in facts:
        m = re.match(r"truthy\((\w+)\)$", a)
        if not m:
            continue
        flag = m.group(1)
        init_true = False
        branches = {}  # 'outer' / 'other' / 'all' -> the flag is cleared there under a back-pointer test on the object that is written
        for n in walk_local(f.node):
            if isinstance(n, ast.Assign) and len(n.targets) == 1 and norm(n.targets[0]) == flag and isinstance(n.value, ast.Constant):
                if n.value.value is True:
                    init_true = True
                elif n.value.value is False:
                    # every enclosing `if` up to a loop over the excluded set; one of the tests compares the back pointer with self.
                    # An OuterPin handed in by the caller is a handle: the object that is written is the pin stored in the instance's
                    # pin map, so in the OuterPin branch the test must read the stored pin (`<instance>.pins[...]`), not the handle.
                    p = getattr(n, "_parent", None)
                    prev = n
                    tests, loop, branch = [], None, "all"
                    while p is not None and p is not f.node:
                        if isinstance(p, ast.If):
                            tests.append(norm(p.test))
                            t = p.test
                            if isinstance(t, ast.Call) and norm(t.func) == "isinstance" and len(t.args) == 2 and norm(t.args[1]).split(".")[-1] == "OuterPin":
                                branch = "outer" if any(prev is s_ for s_ in p.body) else "other"
                        if isinstance(p, ast.For):
                            loop = p
                            break
                        prev = p
                        p = getattr(p, "_parent", None)
                    if loop is not None and norm(loop.iter) == excluded:
                        var = norm(loop.target)
                        hit = False
                        for b_ in bp_names:
                            for t in tests:
                                if branch == "outer":
                                    if re.search(r"\.pins\[[^\]]+\]\.%s\s*(!=|is not)\s*self" % re.escape(b_), t):
                                        hit = True
                                elif re.search(r"%s\.%s\s*(!=|is not)\s*self" % (re.escape(var), re.escape(b_)), t):
                                    hit = True
                        branches[branch] = branches.get(branch, False) or hit
        split = "outer" in branches or "other" in branches
        complete = ("outer" in branches and "other" in branches) if split else "all" in branches
        if init_true and branches and complete and all(branches.values()):
            return True
    return False


def _perm_guard(facts, cont_field, assigned):
    """len(L) == len(set(L)) and set(self._f) == set(L), after expanding single-assignment locals.
    recognised equivalents: set equality, symmetric difference empty, two-way subset, Counter equality,
    sorted(key=id) equality."""
    L = expand_defs(assigned, facts)
    exp = set()
    for a in facts:
        if a.startswith("def("):
            continue
        exp.add(expand_defs(a, facts))
    setL = "set(%s)" % L
    own = ["set(self.%s)" % cont_field, "set(self.%s)" % cont_field.lstrip("_")]
    uniq = any(x in exp for x in ("eq(len(%s),len(%s))" % (L, setL), "eq(len(%s),len(%s))" % (setL, L)))
    same = False
    for o in own:
        for x in ("eq(%s,%s)" % (o, setL), "eq(%s,%s)" % (setL, o), "eq(%s,set(%s))" % (o, setL), "eq(set(%s),%s)" % (setL, o),
                  "falsy(%s ^ %s)" % (o, setL), "falsy(%s ^ %s)" % (setL, o),
                  "falsy(%s.symmetric_difference(%s))" % (o, setL), "falsy(%s.symmetric_difference(%s))" % (setL, o)):
            if x in exp:
                same = True
        if ("truthy(%s <= %s)" % (o, setL) in exp and "truthy(%s <= %s)" % (setL, o) in exp) or \
                ("truthy(%s.issubset(%s))" % (o, setL) in exp and "truthy(%s.issubset(%s))" % (setL, o) in exp):
            same = True
    raw = [o[4:-1] for o in own]
    for o in raw:
        for x in ("eq(Counter(%s),Counter(%s))" % (o, L), "eq(Counter(%s),Counter(%s))" % (L, o),
                  "eq(sorted(%s, key=id),sorted(%s, key=id))" % (o, L), "eq(sorted(%s, key=id),sorted(%s, key=id))" % (L, o)):
            if x in exp:
                uniq = same = True
    return uniq, same


def _o2(ctx, R):
    R.rule("O2", "template conformance: every public mutator leaves each relation in a balanced state on every path "
                 "(element listed <=> back-pointer set) and performs the writes under the membership guard")
    R.rule("O5", "removed elements report no parent (REMOVE templates clear the back-pointer)")
    PA = pairing(ctx)
    names = [r.name for r in O2_RELATIONS]
    counts = {"ADD": 0, "REMOVE": 0, "BULK-REMOVE": 0, "REORDER": 0, "CONNECT": 0, "DISCONNECT": 0, "BULK-DISCONNECT": 0}
    for key, f in sorted(PA.funcs.items()):
        if not is_public_entry(f) or is_clone_family(f) or f.name == "__init__":
            continue
        res = PA.results[key]
        # `self._ports = _reordered(self._ports, value, msg)`: a private helper that validates and hands back the new container is read in
        # place (its assert is then the guard of the write)
        cfields = {r.cfield for r in O2_RELATIONS}
        via = set()
        for a_ in walk_local(f.node):
            if isinstance(a_, ast.Assign) and len(a_.targets) == 1 and isinstance(a_.targets[0], ast.Attribute) and a_.targets[0].attr in cfields \
                    and isinstance(a_.value, ast.Call):
                fn_ = a_.value.func
                nm_ = fn_.id if isinstance(fn_, ast.Name) else (fn_.attr if isinstance(fn_, ast.Attribute) and isinstance(fn_.value, ast.Name)
                                                                 and fn_.value.id in ("self", "cls", f.cls.name if f.cls else "") else None)
                if nm_ and nm_.startswith("_") and not nm_.startswith("__"):
                    via.add(nm_)
            # … and `assert _is_reordering(self._ports, target), msg`: a private predicate that states the guard
            if isinstance(a_, ast.Assert):
                t_ = a_.test.operand if isinstance(a_.test, ast.UnaryOp) and isinstance(a_.test.op, ast.Not) else a_.test
                if isinstance(t_, ast.Call):
                    fn_ = t_.func
                    nm_ = fn_.id if isinstance(fn_, ast.Name) else (fn_.attr if isinstance(fn_, ast.Attribute) and isinstance(fn_.value, ast.Name)
                                                                     and fn_.value.id in ("self", "cls", f.cls.name if f.cls else "") else None)
                    if nm_ and nm_.startswith("_") and not nm_.startswith("__"):
                        via.add(nm_)
        if via:
            g_ = inlined_view(ctx.P, f, keep=lambda nm, via=frozenset(via): nm not in via)
            if g_ is not f:
                res = PA.analyse_view(g_)
                f = g_
        # (a) balanced exits
        bad_states = {}
        touched = set()
        for fa, rl, tk in res["exit"]:
            for i, cb in enumerate(rl):
                if cb != ("0", "0"):
                    touched.add(i)
                    if cb not in VALID_EXIT:
                        bad_states.setdefault((i, cb), 0)
        for (i, cb) in sorted(bad_states):
            c, b = cb
            rid = "O5" if (c in ("-",) and b == "0") else "O2"
            what = {"+": "adds the element to", "-": "removes the element from", "~": "rebuilds", "p": "permutes", "x": "rewrites", "0": "leaves"}[c]
            whatb = {"+": "sets the back-pointer", "-": "clears the back-pointer", "0": "leaves the back-pointer untouched", "x": "rewrites the back-pointer inconsistently"}[b]
            R.bad(rid, "%s|%s|%s%s" % (f.key, names[i], c, b), f.loc(),
                  "%s: on some path it %s the %s container but %s (state %s/%s): the two sides of the relation go out of step"
                  % (f.qualname, what, names[i], whatb, c, b), {"relation": names[i], "state": [c, b]})
        for i in touched:
            if not any(k[0] == i for k in bad_states):
                R.ok("O2", "%s balanced on %s" % (f.qualname, names[i]), f.loc())
        # (a') a refusal point (own assert/raise, vetoable notification) reached with a relation half-updated
        seen_ref = set()
        for ev, rl in res["refusals"]:
            for i, cb in enumerate(rl):
                if cb != ("0", "0") and (id(ev), i) not in seen_ref:
                    seen_ref.add((id(ev), i))
                    R.bad("O2", "%s|%s|refusal-after-write" % (f.key, names[i]), f.loc(ev.stmt),
                          "%s: the call can still be refused at `%s` after one side of the %s relation was already written (state %s/%s): "
                          "a refused call leaves list and back-pointer out of step" % (f.qualname, short(ev.stmt, 60), names[i], cb[0], cb[1]))
        for i in touched:
            if any(cb[0] in "-~" and cb[1] == "-" for fa, rl, tk in res["exit"] for j, cb in enumerate(rl) if j == i) \
                    and not any(k[0] == i for k in bad_states):
                R.ok("O5", "%s clears the back-pointer of what it removes from %s" % (f.qualname, names[i]), f.loc())
        # (b) guards and (c) identity, for container events performed in this frame or through private helpers
        evs = res["events"]
        for re_, facts, toks in evs:
            if re_.side != "c":
                continue
            if re_.via is not None and (re_.origin_public or not re_.via.split(".")[-1].startswith("_")):
                continue  # performed inside a public mutator, which is checked as an entry point itself
            rel = O2_RELATIONS[re_.rel]
            bp = [rel.efield, rel.efield.lstrip("_")]
            E = re_.elem
            where = f.loc(re_.ev.stmt)
            inst = "%s %s%s on %s" % (f.qualname, re_.op, " via " + re_.via if re_.via else "", rel.name)
            if re_.op == "+":
                counts["CONNECT" if rel.name == "wire-pin" else "ADD"] += 1
                if E is None:
                    R.bad("O2", "%s|%s|add-no-element" % (f.key, rel.name), where, "%s: cannot identify the element added" % inst)
                    continue
                if every(facts, lambda w: any(has_rel(w, ("is", "eq"), "%s%s.%s" % (o, E, b), "None") for b in bp for o in ("", "old:"))):
                    R.ok("O2", inst + " guarded by %s.%s is None" % (E, bp[1]), where)
                else:
                    R.bad("O2", "%s|%s|add-guard" % (f.key, rel.name), where,
                          "%s: `%s` adds %s to %s without a dominating check that %s.%s is None (an element owned elsewhere, or "
                          "already listed, could be listed twice)" % (f.qualname, short(re_.ev.stmt, 60), E, rel.ccls + "." + rel.cfield, E, bp[1]),
                          {"facts": sorted(a for a in common(facts) if not a.startswith("def("))})
                # identity: some back-pointer write of this relation targets the same element with this container
                bps = [(r2, fa2) for (r2, fa2, t2) in evs if r2.rel == re_.rel and r2.side == "b" and r2.op == "+"]
                if bps:
                    if any((r2.elem == E or r2.elem is None) and (r2.cont in (re_.cont, None) or re_.cont is None) for r2, _ in bps):
                        R.ok("O2", inst + " identity", where)
                    else:
                        R.bad("O2", "%s|%s|add-identity" % (f.key, rel.name), where,
                              "%s: the element listed (`%s` into `%s`) is not the one whose back-pointer is set (%s)"
                              % (f.qualname, E, re_.cont, "; ".join("%s.%s := %s" % (r2.elem, bp[0], r2.cont) for r2, _ in bps)))
            elif re_.op == "-":
                counts["DISCONNECT" if rel.name == "wire-pin" else "REMOVE"] += 1
                if E is None:
                    R.bad("O2", "%s|%s|remove-no-element" % (f.key, rel.name), where, "%s: cannot identify the element removed" % inst)
                    continue
                if every(facts, lambda w: any(has_rel(w, ("is", "eq"), "%s%s.%s" % (o, E, b), "self") for b in bp for o in ("", "old:"))):
                    R.ok("O2", inst + " guarded by %s.%s == self" % (E, bp[1]), where)
                else:
                    R.bad("O2", "%s|%s|remove-guard" % (f.key, rel.name), where,
                          "%s: `%s` removes %s without a dominating check that %s.%s is this container"
                          % (f.qualname, short(re_.ev.stmt, 60), E, E, bp[1]), {"facts": sorted(a for a in common(facts) if not a.startswith("def("))})
                bms = [r2 for (r2, fa2, t2) in evs if r2.rel == re_.rel and r2.side == "b" and r2.op == "-"]
                if bms and not any(r2.elem == E or r2.elem is None for r2 in bms):
                    R.bad("O2", "%s|%s|remove-identity" % (f.key, rel.name), where,
                          "%s: removes `%s` from the container but clears the back-pointer of %s" % (f.qualname, E, ", ".join(str(r2.elem) for r2 in bms)))
            elif re_.op == "~":
                counts["BULK-DISCONNECT" if rel.name == "wire-pin" else "BULK-REMOVE"] += 1
                S = _filter_excluded(f.node, re_.ev) if re_.via is None else None
                if S is None:
                    R.bad("O2", "%s|%s|bulk-shape" % (f.key, rel.name), where, "%s: cannot identify the excluded set of the rebuild `%s`" % (f.qualname, short(re_.ev.stmt, 60)))
                    continue
                if every(facts, lambda w: _universal_guard(ctx.P, f, w, bp, S)) or _raising_validation(f, bp, S, re_.ev.stmt.lineno):
                    R.ok("O2", inst + " guarded by all(x.%s == self for x in %s)" % (bp[1], S), where)
                else:
                    R.bad("O2", "%s|%s|bulk-guard" % (f.key, rel.name), where,
                          "%s: the container is rebuilt without `%s` after no dominating check that every element of it belongs to this container"
                          % (f.qualname, S), {"facts": sorted(a for a in common(facts) if not a.startswith("def("))})
                # every back-pointer cleared is that of a member of the excluded set: the clearing loop iterates S,
                # or iterates the container under `in S` / `not in S ... else`
                loops = [n for n in walk_local(f.node) if isinstance(n, ast.For)]
                okloop = False
                for lp in loops:
                    it = norm(lp.iter)
                    if it == S:
                        okloop = True
                    if it in ("self.%s" % rel.cfield, "self.%s" % rel.cfield.lstrip("_")):
                        for n2 in ast.walk(lp):
                            if isinstance(n2, ast.If) and isinstance(n2.test, ast.Compare) and norm(n2.test.comparators[0]) == S:
                                okloop = True
                if okloop:
                    R.ok("O2", inst + " clears exactly the excluded elements", where)
                else:
                    R.bad("O2", "%s|%s|bulk-loop" % (f.key, rel.name), where,
                          "%s: no loop over the excluded set `%s` clears the back-pointers of the elements dropped by the rebuild" % (f.qualname, S))
            elif re_.op == "p":
                counts["REORDER"] += 1
                assigned = norm(re_.ev.value) if re_.ev.value is not None else None
                if assigned is None:
                    R.bad("O2", "%s|%s|reorder-shape" % (f.key, rel.name), where, "%s: in-place permutation `%s` has no guard template" % (f.qualname, short(re_.ev.stmt, 60)))
                    continue
                us = [_perm_guard(w, rel.cfield, assigned) for w in facts]
                uniq, same = all(u for u, _ in us), all(s_ for _, s_ in us)
                if uniq and same:
                    R.ok("O2", inst + " guarded as a permutation", where)
                else:
                    miss = []
                    if not uniq:
                        miss.append("uniqueness (len(list) == len(set))")
                    if not same:
                        miss.append("same members (set(old) == set(new))")
                    R.bad("O2", "%s|%s|reorder-guard" % (f.key, rel.name), where,
                          "%s: reorder assignment `%s` is not dominated by a check of %s; a non-permutation would add, drop or duplicate members"
                          % (f.qualname, short(re_.ev.stmt, 60), " and ".join(miss)), {"facts": sorted(expand_defs(a, common(facts)) for a in common(facts) if not a.startswith("def("))})
            else:
                R.bad("O2", "%s|%s|rewrite" % (f.key, rel.name), where,
                      "%s: `%s` overwrites the %s container outside the add/remove/filter/permute templates" % (f.qualname, short(re_.ev.stmt, 60), rel.name))
    for k, v in counts.items():
        R.count("O2 %s sites" % k, v)
    for k, m in (("ADD", 7), ("REMOVE", 7), ("BULK-REMOVE", 6), ("REORDER", 8), ("CONNECT", 1), ("DISCONNECT", 1), ("BULK-DISCONNECT", 1)):
        R.floor("O2 %s sites" % k, m)
    R.note("pairing analysis: %d functions, %d summary rounds" % (len(PA.funcs), PA.rounds))


def _o3(ctx, R):
    R.rule("O3", "public properties/methods never hand out the raw container; view classes cannot mutate what they wrap")
    P = ctx.P
    n_prop = 0
    for cname, ci in sorted(P.ir_classes.items()):
        for f in ci.all_funcs():
            if f.name.startswith("_") or f.role in ("setter", "deleter"):
                continue
            ty = None
            for r in walk_local(f.node):
                if not isinstance(r, ast.Return) or r.value is None:
                    continue
                v = r.value
                if isinstance(v, ast.Attribute) and isinstance(v.value, ast.Name) and v.value.id == "self" and v.attr.startswith("_"):
                    ft = FIELD_TYPES.get((field_class(P, [cname], v.attr) or cname, v.attr))
                    if ft is not None and ft[0] in ("list", "set", "dict"):
                        R.bad("O3", "%s|raw %s" % (f.key, v.attr), f.loc(r),
                              "%s returns the raw container self.%s; callers could edit it behind the IR's back" % (f.qualname, v.attr))
                        n_prop += 1
                        continue
                if isinstance(v, ast.Call) and isinstance(v.func, ast.Name) and v.func.id in VIEW_CLASSES and len(v.args) == 1:
                    a = v.args[0]
                    if isinstance(a, ast.Attribute) and norm(a.value) == "self" and a.attr.startswith("_"):
                        n_prop += 1
                        R.ok("O3", "%s -> %s(self.%s)" % (f.qualname, v.func.id, a.attr), f.loc(r))
    R.count("view-returning accessors (O3)", n_prop)
    R.floor("view-returning accessors (O3)", 11)
    n_view = 0
    for vname, rel in VIEW_CLASSES.items():
        vc = P.cls(rel, vname)
        n_view += 1
        slot = (vc.slots or ["_dict"])[0] if vname != "OuterPinsView" else "_dict"
        for mname, m in sorted(vc.methods.items()):
            if mname in MUTATOR_NAMES:
                R.bad("O3", "%s|mutator %s" % (vc.key, mname), m.loc(), "view class %s defines the mutating method %s" % (vname, mname))
                continue
            if mname in INPLACE_DUNDERS:
                body_raises = any(isinstance(s, ast.Raise) for s in m.node.body) and not any(isinstance(s, ast.Return) for s in walk_local(m.node))
                if not body_raises:
                    R.bad("O3", "%s|inplace %s" % (vc.key, mname), m.loc(), "view class %s.%s does not refuse in-place modification" % (vname, mname))
                else:
                    R.ok("O3", "%s.%s raises" % (vname, mname), m.loc())
                continue
            bad = False
            for c in walk_local(m.node):
                if isinstance(c, ast.Call) and isinstance(c.func, ast.Attribute) and c.func.attr in MUTATOR_NAMES \
                        and norm(c.func.value).startswith("self._"):
                    R.bad("O3", "%s|%s calls %s" % (vc.key, mname, c.func.attr), m.loc(c), "view method %s.%s mutates the wrapped object (%s)" % (vname, mname, short(c, 50)))
                    bad = True
                if isinstance(c, (ast.Assign, ast.AugAssign, ast.Delete)) and mname != "__init__":
                    tg = c.targets if not isinstance(c, ast.AugAssign) else [c.target]
                    for t in tg:
                        if norm(t).startswith("self._"):
                            R.bad("O3", "%s|%s stores" % (vc.key, mname), m.loc(c), "view method %s.%s writes through the view (%s)" % (vname, mname, short(c, 50)))
                            bad = True
                if isinstance(c, ast.Return) and c.value is not None and norm(c.value) in ("self._list", "self._set", "self._dict"):
                    R.bad("O3", "%s|%s leaks" % (vc.key, mname), m.loc(c), "view method %s.%s returns the wrapped object itself" % (vname, mname))
                    bad = True
            if not bad:
                R.ok("O3", "%s.%s" % (vname, mname), m.loc())
    R.count("view classes (O3)", n_view)
    R.floor("view classes (O3)", 4)


def scan_private_writes(P, mod, typed=True):
    """(func, node, field, how) for every write to a private IR field in a module outside spydrnet/ir"""
    out = []
    own_fields = set()
    for ci in list(mod.classes.values()):
        for n in ast.walk(ci.node):
            if isinstance(n, ast.Attribute) and isinstance(n.ctx, ast.Store) and norm(n.value) == "self":
                own_fields.add(n.attr)
        for s in ci.slots or []:
            own_fields.add(s)

    def is_ir_field_ref(e):
        if isinstance(e, ast.Attribute) and e.attr in FIELD_OWNER:
            if isinstance(e.value, ast.Name) and e.value.id in ("self", "cls") and e.attr in own_fields:
                return False
            return True
        return False

    for f in mod.all_funcs():
        for n in walk_local(f.node):
            if isinstance(n, (ast.Assign, ast.AugAssign, ast.Delete, ast.AnnAssign)):
                tg = n.targets if isinstance(n, (ast.Assign, ast.Delete)) else [n.target]
                for t in tg:
                    for x in ([t] if not isinstance(t, (ast.Tuple, ast.List)) else t.elts):
                        if is_ir_field_ref(x):
                            out.append((f, n, x.attr, "store"))
                        elif isinstance(x, ast.Subscript) and is_ir_field_ref(x.value):
                            out.append((f, n, x.value.attr, "item store"))
            elif isinstance(n, ast.Call) and isinstance(n.func, ast.Attribute):
                if n.func.attr in MUTATOR_NAMES and is_ir_field_ref(n.func.value):
                    out.append((f, n, n.func.value.attr, n.func.attr))
                if norm(n.func) in ("object.__setattr__",) and len(n.args) >= 2 and isinstance(n.args[1], ast.Constant) and n.args[1].value in FIELD_OWNER:
                    out.append((f, n, n.args[1].value, "setattr"))
            elif isinstance(n, ast.Call) and isinstance(n.func, ast.Name) and n.func.id in ("setattr", "delattr") \
                    and len(n.args) >= 2 and isinstance(n.args[1], ast.Constant) and n.args[1].value in FIELD_OWNER:
                out.append((f, n, n.args[1].value, n.func.id))
    return out


def _o4(ctx, R):
    R.rule("O4", "layering: no function outside spydrnet/ir writes a private IR field (all edits go through the public API)")
    P = ctx.P
    n_mod = n_fn = 0
    for rel, mod in sorted(P.modules.items()):
        if rel.startswith("spydrnet/ir/") and "/views/" not in rel:
            continue
        n_mod += 1
        hits = scan_private_writes(P, mod)
        n_fn += sum(1 for _ in mod.all_funcs())
        for f, node, field, how in hits:
            R.bad("O4", "%s|%s %s" % (f.key, field, how), f.loc(node),
                  "%s (outside spydrnet/ir) writes the private IR field %s (%s) at `%s`, bypassing the mutators that keep both sides of the relation in step"
                  % (f.qualname, field, how, short(node, 60)))
        if not hits:
            R.ok("O4", rel)
    R.count("modules outside spydrnet/ir scanned (O4)", n_mod)
    R.count("functions outside spydrnet/ir scanned (O4)", n_fn)
    R.floor("modules outside spydrnet/ir scanned (O4)", 60)
    # positive example: the rule must fire on a tiny known-bad source
    from ..core import Module
    probe = Module("probe/flatten_like.py", "def f(inst, d):\n    inst._parent = d\n    d._children.append(inst)\n    del d._pins[0]\n")
    if len(scan_private_writes(P, probe)) != 3:
        raise AnalysisError("O4 positive example no longer matches (rule would pass vacuously)")


@register("C01",
          "Static analysis of every function of spydrnet/ir and a layering scan of all other modules. Decides the inductive step "
          "of the invariant: O1 only the owning class (and reviewed friends) writes each private relation field; O2 every public "
          "mutator, on every path (path-sensitive worlds over a statement CFG, interprocedural summaries), leaves each containment / "
          "wire-pin relation balanced (element listed <=> back-pointer set/cleared) and performs ADD/REMOVE/BULK/CONNECT/DISCONNECT "
          "writes under the membership guard and REORDER under the permutation guard; O3 accessors return views and views cannot "
          "mutate; O4 nothing outside spydrnet/ir writes a private IR field; O5 removals clear the back-pointer. If every mutator "
          "preserves the pairing and only mutators write the fields, every finite history preserves it. Does not decide list "
          "positions, nor that OuterPin equality coincides with identity.",
          ["the relation table of DESIGN §1.1 is the reviewed model of the IR's fields; a new slot outside it stops the run"])
def check_c01(ctx, R):
    from ..kinds import check_slots_against_model
    n = check_slots_against_model(ctx.P)
    R.count("IR slots covered by the relation model", n)
    R.floor("IR slots covered by the relation model", 25)
    _o1(ctx, R)
    _o2(ctx, R)
    _o3(ctx, R)
    _o4(ctx, R)


# =================================================================================================
# C02
# =================================================================================================
def _tokens_any(toks, prefix):
    return any(t.startswith(prefix) for t in toks)


def _outerpin_install_sites(f):
    """statements `X._pins[K] = OuterPin(X', K')` (or from_instance_and_inner_pin) with X == X', K == K'"""
    out = []
    for n in walk_local(f.node):
        if isinstance(n, ast.Assign) and len(n.targets) == 1 and isinstance(n.targets[0], ast.Subscript):
            t = n.targets[0]
            if isinstance(t.value, ast.Attribute) and t.value.attr == "_pins" and isinstance(n.value, ast.Call) \
                    and (norm(n.value.func).endswith("OuterPin") or norm(n.value.func).endswith("OuterPinExtended")
                         or norm(n.value.func).endswith("from_instance_and_inner_pin")):
                out.append((n, norm(t.value.value), norm(t.slice), [norm(a) for a in n.value.args]))
        # X._pins.update((K, OuterPin(X', K')) for K in ...)
        if isinstance(n, ast.Call) and isinstance(n.func, ast.Attribute) and n.func.attr == "update" and isinstance(n.func.value, ast.Attribute) \
                and n.func.value.attr == "_pins" and n.args and isinstance(n.args[0], (ast.GeneratorExp, ast.ListComp)) \
                and isinstance(n.args[0].elt, ast.Tuple) and len(n.args[0].elt.elts) == 2 and isinstance(n.args[0].elt.elts[1], ast.Call):
            k_, v_ = n.args[0].elt.elts
            if norm(v_.func).endswith(("OuterPin", "OuterPinExtended", "from_instance_and_inner_pin")):
                out.append((n, norm(n.func.value.value), norm(k_), [norm(a) for a in v_.args]))
    return out


def _enclosing_loops(node, fnode):
    out = []
    p = getattr(node, "_parent", None)
    while p is not None and p is not fnode:
        if isinstance(p, ast.For):
            out.append(p)
        p = getattr(p, "_parent", None)
    return out


def _m1(ctx, R):
    """creation completeness"""
    R.rule("M1", "linking a pin into a port, a port into a definition, or a definition to an instance installs an outer pin "
                 "OuterPin(instance, pin) under key pin for every referencing instance x pin, on all paths")
    PA = pairing(ctx)
    P = ctx.P
    idx_pp = [i for i, r in enumerate(O2_RELATIONS) if r.name == "port-pin"][0]
    idx_dp = [i for i, r in enumerate(O2_RELATIONS) if r.name == "definition-port"][0]
    n = 0
    for key, f in sorted(PA.funcs.items()):
        if is_clone_family(f) or not is_public_entry(f) or f.name == "__init__":
            continue
        res = PA.results[key]
        links = set()
        for re_, facts, toks in res["events"]:
            if re_.side == "c" and re_.op == "+" and re_.rel in (idx_pp, idx_dp):
                links.add(re_.rel)
        for rel_i in sorted(links):
            n += 1
            what = "pin into port" if rel_i == idx_pp else "port into definition"
            # on every normal exit the path must have completed a loop over the definition's references whose body
            # installs the outer pins (directly here or in a callee on the path)
            ok_all = True
            why = None
            for fa, rl, tk in res["exit"]:
                if rl[rel_i][0] != "+":
                    continue
                has = any(t.startswith(("W:Instance._pins.setitem:", "W:Instance._pins.update:")) or (t.startswith("V:") and t.endswith((":Instance._pins.setitem", ":Instance._pins.update"))) for t in tk)
                looped = [t for t in tk if t.startswith("L:") and "references" in t]
                fa = fa | frozenset(expand_defs(a, fa) for a in fa if not a.startswith("def("))
                nodef = any(a in fa for a in ("falsy(self.definition)", "is(self.definition,None)", "falsy(self._definition)", "is(self._definition,None)"))
                via_callee = any(t.startswith("V:") and t.endswith((":Instance._pins.setitem", ":Instance._pins.update")) for t in tk)
                # leaving because the reference set is empty is the loop over nothing
                norefs = any(re.match(r"falsy\((.+\.)?_?references\)$", a) or re.match(r"eq\(len\((.+\.)?_?references\),0\)$", a) for a in fa)
                if not (looped or nodef or via_callee or norefs):
                    ok_all = False
                    why = "a path links the %s and returns without iterating the definition's references to create the outer pins" % what
            # the install statement itself must be well-formed wherever it is reachable from this function
            sites = []
            seen = set()

            def collect(fn, depth=0):
                if fn.key in seen or depth > 4:
                    return
                seen.add(fn.key)
                for s in _outerpin_install_sites(inlined_view(P, fn)):
                    sites.append((fn, s))
                fe = ctx.model.events(fn)
                for evs in fe.by_node.values():
                    for ev in evs:
                        if ev.kind == "call" and not ev.ctor:
                            for t in ev.targets or []:
                                if t.key in PA.funcs and not is_clone_family(t):
                                    collect(t, depth + 1)
            collect(f)
            if ok_all and not sites:
                ok_all, why = False, "no statement installing OuterPin(instance, pin) into instance._pins is reachable"
            for fn, (node, inst_txt, key_txt, args) in sites:
                loops = _enclosing_loops(node, fn.node)
                over_refs = [lp for lp in loops if "references" in norm(lp.iter) and norm(lp.target) == inst_txt]
                if len(args) != 2 or args[0] != inst_txt or args[1] != key_txt:
                    R.bad("M1", "%s|outer-pin-args" % fn.key, fn.loc(node),
                          "%s: `%s` stores under (%s, %s) an outer pin built for (%s): the outer pin must name the same instance and inner pin it is keyed by"
                          % (fn.qualname, short(node, 70), inst_txt, key_txt, ", ".join(args)))
                elif not over_refs and inst_txt != "self":
                    R.bad("M1", "%s|outer-pin-loop" % fn.key, fn.loc(node),
                          "%s: `%s` is not inside a loop over every referencing instance" % (fn.qualname, short(node, 70)))
            if ok_all:
                R.ok("M1", "%s links %s and mirrors it on every reference" % (f.qualname, what), f.loc())
            else:
                R.bad("M1", "%s|%s" % (f.key, what), f.loc(),
                      "%s links a %s of a definition that may already have instances, but %s: existing instances end up without an outer pin for the new pin"
                      % (f.qualname, what, why))
    R.count("M1 link sites (pin->port, port->definition)", n)
    R.floor("M1 link sites (pin->port, port->definition)", 4)


def _m_setter(ctx, R):
    """M1 (reference from None), M3, M4 on the Instance.reference setter"""
    R.rule("M3", "every non-clone write of Instance._reference is paired, on every path, with removal from the old "
                 "definition's reference set (when there was one) and insertion into the new one (when there is one)")
    R.rule("M4", "re-pointing keeps the outer pins: none is constructed, each is re-keyed under the positionally "
                 "corresponding new inner pin and told about it, under the port-shape check")
    PA = pairing(ctx)
    P = ctx.P
    writers = []
    for key, f in sorted(PA.funcs.items()):
        if is_clone_family(f):
            continue
        fe = ctx.model.events(f)
        for evs in fe.by_node.values():
            for ev in evs:
                if ev.kind == "write" and ev.cls == "Instance" and ev.field == "_reference" and f.name != "__init__":
                    writers.append((f, ev))
    R.count("non-clone writers of Instance._reference", len(writers))
    R.floor("non-clone writers of Instance._reference", 1)
    for f, ev in writers:
        g = inlined_view(P, f)
        res = PA.results[f.key] if g is f else PA.analyse_view(g)
        f = g
        recv = norm(ev.recv)
        val = norm(ev.value) if ev.value is not None else None
        old_names = ["old:%s.reference" % recv]
        problems = []
        for fa, rl, tk in res["exit"]:
            if not any(t == "W:Instance._reference.set:%s:%s" % (recv, val if val is not None else "") for t in tk):
                continue  # exits on which this very write was performed
            new_is_none = (("is(%s,None)" % val) in fa or val == "None") if val else False
            new_not_none = ("isnot(%s,None)" % val) in fa if val else False
            old_none = any(("is(%s,None)" % o) in fa or ("falsy(%s)" % o) in fa for o in old_names)
            added = any(t.startswith("W:Definition._references.add:%s:%s" % (val, recv)) for t in tk) or \
                any(t.startswith("V:") and t.endswith(":Definition._references.add") for t in tk)
            removed = any(re.match(r"W:Definition\._references\.(remove|discard):%s\._?reference:%s$" % (re.escape(recv), re.escape(recv)), t) for t in tk) or \
                any(t.startswith("V:") and (t.endswith(":Definition._references.remove") or t.endswith(":Definition._references.discard")) for t in tk)
            if "O:add-before-remove" in tk:
                problems.append(("add-before-remove", "on the re-point path the instance is added to the new definition's reference set BEFORE it is removed from the old one: "
                                 "re-assigning the definition it already references removes it from that definition's reference set"))
            if not new_is_none and not added:
                problems.append(("no-add", "a path sets the reference to a definition without adding the instance to that definition's reference set"))
            if new_is_none and added:
                problems.append(("add-to-none", "a path adds the instance to the reference set of None"))
            if not old_none and not removed:
                problems.append(("no-remove", "a path replaces an existing reference without removing the instance from the old definition's reference set"))
        for rev, tk in res.get("refusal_tokens", []):
            if any(t.startswith("W:Definition._references.") or t.startswith("W:Instance._reference.") or t.startswith("W:Instance._pins.") for t in tk):
                problems.append(("refused-after-write", "the call can still be refused at `%s` after the reference set / reference / outer pins were already changed: "
                                 "a refused re-point leaves the instance out of step with its definition" % short(rev.stmt, 50)))
        if problems:
            for code, p in sorted(set(problems)):
                R.bad("M3", "%s|%s" % (f.key, code), f.loc(ev.stmt), "%s: %s" % (f.qualname, p))
        else:
            R.ok("M3", "%s keeps reference sets in step" % f.qualname, f.loc(ev.stmt))
        # M1 on the from-None branch and M4 on the re-point branch: classify exits by what they did to _pins
        from_none_ok, repoint_ok = None, None
        for fa, rl, tk in res["exit"]:
            if not any(t == "W:Instance._reference.set:%s:%s" % (recv, val if val is not None else "") for t in tk):
                continue  # exits on which this very write was performed
            if ("is(%s,None)" % val) in fa or val == "None":
                continue
            old_none = any(("is(%s,None)" % o) in fa for o in old_names)
            built = any(t == "K:OuterPin.__init__" for t in tk)
            popped = any(t.startswith("W:Instance._pins.pop:") for t in tk)
            if old_none:
                looped = any((t.startswith("L:") or t.startswith("W:Instance._pins.update:")) and ".ports" in t for t in tk)
                if not looped:
                    from_none_ok = "a path from no reference to a definition does not iterate the definition's ports to create outer pins"
                elif from_none_ok is None:
                    from_none_ok = True
            else:
                if built:
                    repoint_ok = "the re-point path constructs new outer pins (connections on the old ones are lost)"
                looped = any(t.startswith("L:zip(") and "ports" in t for t in tk)
                if not looped:
                    repoint_ok = "the re-point path does not walk old and new ports in step"
                elif repoint_ok is None:
                    repoint_ok = True
        if from_none_ok is True:
            R.ok("M1", "%s creates outer pins when a reference is first assigned" % f.qualname, f.loc())
        elif from_none_ok is not None:
            R.bad("M1", "%s|reference-from-none" % f.key, f.loc(), "%s: %s" % (f.qualname, from_none_ok))
        # structure of the re-key triple and of the install statement
        triples = 0
        for n in walk_local(f.node):
            if isinstance(n, ast.Assign) and isinstance(n.value, ast.Call) and isinstance(n.value.func, ast.Attribute) \
                    and n.value.func.attr == "pop" and norm(n.value.func.value).endswith("._pins") and isinstance(n.targets[0], ast.Name):
                v = n.targets[0].id
                old_key = norm(n.value.args[0]) if n.value.args else None
                body = getattr(n, "_parent").body if hasattr(getattr(n, "_parent"), "body") else []
                sets_ip = [s for s in body if isinstance(s, ast.Assign) and norm(s.targets[0]) == "%s._inner_pin" % v]
                rekeys = [s for s in body if isinstance(s, ast.Assign) and isinstance(s.targets[0], ast.Subscript)
                          and norm(s.targets[0].value).endswith("._pins") and norm(s.value) == v]
                loops = _enclosing_loops(n, f.node)
                pair_loop = [lp for lp in loops if isinstance(lp.target, ast.Tuple) and len(lp.target.elts) == 2
                             and norm(lp.iter).startswith("zip(") and norm(lp.target.elts[0]) == old_key]
                if sets_ip and rekeys and pair_loop and norm(sets_ip[0].value) == norm(rekeys[0].targets[0].slice) == norm(pair_loop[0].target.elts[1]):
                    triples += 1
                else:
                    R.bad("M4", "%s|rekey" % f.key, f.loc(n),
                          "%s: popped outer pin `%s` is not re-keyed under the positionally corresponding new inner pin and told about it "
                          "(need %s._inner_pin = <new pin>; ..._pins[<new pin>] = %s inside `for old, new in zip(...)`)" % (f.qualname, v, v, v))
        if repoint_ok is True and triples >= 1:
            # shape check dominates the pop
            shape = False
            for re_node in f.module.tree.body:
                pass
            fe = ctx.model.events(f)
            st = res["state"]
            pop_facts = None
            for cn in fe.cfg.nodes:
                if cn.id in st and any(e.kind == "write" and e.field == "_pins" and e.op == "pop" for e in fe.by_node[cn.id]):
                    for fa, rl, tk in st[cn.id]:
                        fa = with_def_consequences(flag_consequences(f.node, fa))
                        fa = fa | frozenset(expand_defs(a, fa) for a in fa if not a.startswith("def("))
                        pop_facts = fa if pop_facts is None else (pop_facts & fa)
            if pop_facts is not None:
                ports_eq = any(re.match(r"eq\(len\((.+)\.ports\),len\((.+)\.ports\)\)$", a) for a in pop_facts)
                pins_eq = any(a.startswith("truthy(all(") and "len(" in a and ".pins" in a and "zip(" in a for a in pop_facts)
                # the same check written as one comparison of the per-port pin counts: [len(p.pins) for p in A.ports] == [… B.ports]
                widths_eq = any(re.match(r"eq\(\[len\((\w+)\.pins\) for \1 in (.+)\.ports\],\[len\((\w+)\.pins\) for \3 in (.+)\.ports\]\)$", a)
                                or re.match(r"eq\((list|tuple)\(\(?len\((\w+)\.pins\) for \2 in (.+)\.ports\)?\),(list|tuple)\(\(?len\((\w+)\.pins\) for \5 in (.+)\.ports\)?\)\)$", a)
                                for a in pop_facts)
                shape = (ports_eq and pins_eq) or widths_eq
            if shape:
                R.ok("M4", "%s re-keys outer pins under the shape check" % f.qualname, f.loc())
            else:
                R.bad("M4", "%s|shape-check" % f.key, f.loc(),
                      "%s: the re-point branch is not dominated by the port-shape check (same number of ports, same number of pins per port); "
                      "zip() would silently drop pins of a differently shaped definition" % f.qualname,
                      {"facts_at_pop": sorted(a for a in (pop_facts or []) if not a.startswith("def("))})
        elif repoint_ok is not None and repoint_ok is not True:
            R.bad("M4", "%s|repoint" % f.key, f.loc(), "%s: %s" % (f.qualname, repoint_ok))
        elif repoint_ok is True and triples == 0:
            R.bad("M4", "%s|rekey-missing" % f.key, f.loc(), "%s: the re-point branch does not re-key the instance's outer pins" % f.qualname)


def _m2_bulk(ctx, R):
    """bulk removals of ports / pins: the instances are updated for exactly the elements that are dropped"""
    M = ctx.model
    n = 0
    for f, rel, S, loops, wev in bulk_removals(ctx):
        if rel.name not in ("definition-port", "port-pin"):
            continue
        n += 1
        ok = False
        fe_ = M.events(f)
        for lp in loops:
            # the unlinking written out in the loop itself (a module-level helper spliced in, or no helper at all)
            inside = {id(x) for x in ast.walk(lp)}
            if any(ev_.kind == "write" and ((ev_.cls == "Instance" and ev_.field == "_pins") or (ev_.cls == "OuterPin" and ev_.field in ("_instance", "_inner_pin")))
                   and id(ev_.stmt) in inside for evs_ in fe_.by_node.values() for ev_ in evs_):
                ok = True
            for c in ast.walk(lp):
                if isinstance(c, ast.Call) and isinstance(c.func, ast.Attribute) and norm(c.func.value) == "self":
                    t = ctx.P.ir_lookup_method(f.cls.name, c.func.attr)
                    if t is not None and any(w.startswith(("Instance._pins", "OuterPin.")) for w in pairing(ctx).summary.get(t.key, {}).get("tokens", ())):
                        ok = True
        if ok:
            R.ok("M2", "%s unlinks the instance pins of exactly the elements of %s" % (f.qualname, S), f.loc(wev.stmt))
        else:
            R.bad("M2", "%s|bulk %s" % (f.key, rel.name), f.loc(wev.stmt),
                  "%s drops the elements of `%s` from the %s list, but the loop that removes the matching outer pins from the instances does not run "
                  "over `%s`: instances keep (connected) pins for something the definition no longer has" % (f.qualname, S, rel.name, S))
    R.count("bulk port / pin removals (M2)", n)
    R.floor("bulk port / pin removals (M2)", 2)


def _m2_m6(ctx, R):
    R.rule("M2", "unlinking a pin or a port, or clearing a reference, disconnects each affected outer pin from its wire, "
                 "drops it from the instance's pin map and nulls its instance / inner pin")
    R.rule("M6", "the disconnect precedes the deletion of the outer pin")
    M = ctx.model
    PA = pairing(ctx)
    sites = 0
    for key, f in sorted(PA.funcs.items()):
        if is_clone_family(f) or f.name == "__init__":
            continue
        fe = M.events(f)
        rm = [ev for evs in fe.by_node.values() for ev in evs
              if ev.kind == "write" and ev.cls == "Instance" and ev.field == "_pins" and ev.op in ("delitem", "clear")]
        if not rm:
            continue
        sites += 1
        for ev in rm:
            stmt = ev.stmt
            if ev.op == "delitem":
                loops = _enclosing_loops(stmt, f.node)
                scope = loops[0].body if loops else f.node.body
                scope_nodes = [x for s in scope for x in ast.walk(s)]
            else:
                # clear(): the handling loop is a preceding sibling loop over the instance's pins
                parent = getattr(stmt, "_parent")
                sibs = getattr(parent, "body", [])
                idx = sibs.index(stmt) if stmt in sibs else len(sibs)
                prev_loops = [s for s in sibs[:idx] if isinstance(s, ast.For) and ("pins" in norm(s.iter))]
                scope = prev_loops[-1].body if prev_loops else []
                scope_nodes = [x for s in scope for x in ast.walk(s)]
            # the deletion itself happens for every pin the loop visits: it is not under a test inside the loop body (it slipped under
            # `if wire:` once — only connected outer pins were dropped), unless that test asks whether the entry is there at all
            if ev.op == "delitem":
                guards = []
                for p_ in parent_chain(stmt):
                    if (loops and p_ is loops[0]) or p_ is f.node:
                        break
                    if isinstance(p_, ast.If) and not any(isinstance(c_, ast.Compare) and isinstance(c_.ops[0], (ast.In, ast.NotIn)) and "_pins" in norm(c_) or
                                                        (isinstance(c_, ast.Compare) and isinstance(c_.ops[0], (ast.In, ast.NotIn)) and ".pins" in norm(c_))
                                                        for c_ in ast.walk(p_.test)):
                        guards.append(p_)
                if guards:
                    R.bad("M2", "%s|conditional delete" % f.key, f.loc(stmt),
                          "%s removes the outer pin from the instance's pin map only when `%s`: for the other pins of the loop the entry stays in "
                          "instance.pins, keyed by an inner pin the definition no longer has" % (f.qualname, short(guards[0].test, 40)))
            disc = [x for x in scope_nodes if isinstance(x, ast.Call) and isinstance(x.func, ast.Attribute) and x.func.attr == "disconnect_pin"]
            nulls = {t_.attr for x in scope_nodes if isinstance(x, ast.Assign) and isinstance(x.value, ast.Constant) and x.value.value is None
                     for t_ in x.targets if isinstance(t_, ast.Attribute) and t_.attr in ("_instance", "_inner_pin")}
            probs = []
            if not disc:
                probs.append("never takes the outer pin off its wire (no disconnect_pin call for the pins being dropped)")
            else:
                d = disc[0]
                guard = None
                p = getattr(d, "_parent", None)
                while p is not None and p not in scope:
                    if isinstance(p, ast.If):
                        guard = p
                    p = getattr(p, "_parent", None)
                if isinstance(p, ast.If):
                    guard = p
                recv = norm(d.func.value)
                if guard is None or recv not in norm(guard.test):
                    probs.append("calls disconnect_pin without testing that the pin has a wire")
                elif not (isinstance(guard.test, (ast.Name, ast.Attribute)) or
                          (isinstance(guard.test, ast.Compare) and isinstance(guard.test.ops[0], ast.IsNot))):
                    probs.append("guards the disconnect with `%s`, which is not a has-a-wire test" % short(guard.test, 40))
                if ev.op == "delitem":
                    # M6: order inside the loop body
                    top_d = d
                    while getattr(top_d, "_parent", None) not in (None,) and top_d not in scope:
                        top_d = getattr(top_d, "_parent")
                    if top_d in scope and stmt in scope and scope.index(top_d) > scope.index(stmt):
                        R.bad("M6", "%s|order" % f.key, f.loc(stmt),
                              "%s: the outer pin is deleted from the instance before it is taken off its wire (`%s` precedes the disconnect)"
                              % (f.qualname, short(stmt, 50)))
                    else:
                        R.ok("M6", "%s disconnects before deleting" % f.qualname, f.loc(stmt))
            if nulls != {"_instance", "_inner_pin"}:
                probs.append("does not null the dropped outer pin's %s" % " and ".join(sorted({"_instance", "_inner_pin"} - nulls)))
            if probs:
                for p_ in probs:
                    R.bad("M2", "%s|%s" % (f.key, p_[:36]), f.loc(stmt), "%s: dropping outer pins at `%s` %s" % (f.qualname, short(stmt, 50), p_))
            else:
                R.ok("M2", "%s drops outer pins completely" % f.qualname, f.loc(stmt))
    R.count("M2 outer-pin removal sites", sites)
    R.floor("M2 outer-pin removal sites", 3)
    # every unlink of a pin / port / reference reaches such a site: REMOVE on port-pin and definition-port must be
    # accompanied on every path by an Instance._pins removal inside a loop over the references (or no definition)
    idx_pp = [i for i, r in enumerate(O2_RELATIONS) if r.name == "port-pin"][0]
    idx_dp = [i for i, r in enumerate(O2_RELATIONS) if r.name == "definition-port"][0]
    n = 0
    for key, f in sorted(PA.funcs.items()):
        if is_clone_family(f) or not is_public_entry(f):
            continue
        res = PA.results[key]
        for rel_i, what in ((idx_pp, "pin from its port"), (idx_dp, "port from its definition")):
            worlds = [(fa, rl, tk) for fa, rl, tk in res["exit"] if rl[rel_i][1] == "-"]
            if not worlds:
                continue
            n += 1
            bad = False
            for fa, rl, tk in worlds:
                looped = any(t.startswith("L:") and "references" in t for t in tk)
                via = any(t.startswith("V:") and t.endswith(":Instance._pins.delitem") for t in tk) or any(t.startswith("W:Instance._pins.delitem") for t in tk)
                nodef = any(a in fa for a in ("falsy(self.definition)", "is(self.definition,None)", "falsy(self._definition)"))
                if not (looped or via or nodef):
                    bad = True
            if bad:
                R.bad("M2", "%s|unlink %s" % (f.key, what), f.loc(),
                      "%s unlinks a %s on a path that never visits the referencing instances: their outer pins for it survive" % (f.qualname, what))
            else:
                R.ok("M2", "%s mirrors the unlink on every reference" % f.qualname, f.loc())
    R.count("M2 unlink entry points", n)
    R.floor("M2 unlink entry points", 4)


def _m9(ctx, R):
    R.rule("M9", "no mirror state (outer pins, reference sets) is written before a point where the edit can still be refused")
    PA = pairing(ctx)
    n = 0
    for key, f in sorted(PA.funcs.items()):
        if is_clone_family(f) or f.name == "__init__":
            continue
        res = PA.results[key]
        hits = {}
        for rev, tk in res.get("refusal_tokens", []):
            ws = [t for t in tk if t.startswith(("W:Instance._pins.", "W:OuterPin._instance.", "W:OuterPin._inner_pin.", "W:Definition._references."))
                  or (t.startswith("V:") and t.split(":", 2)[2].startswith(("Instance._pins.", "OuterPin._instance.", "OuterPin._inner_pin.", "Definition._references.")))]
            if ws:
                hits.setdefault(short(rev.stmt, 60), (rev, ws))
        if any(t.startswith(("Instance._pins", "OuterPin.", "Definition._references")) for t in PA.summary[key]["tokens"]):
            n += 1
            if hits:
                for txt, (rev, ws) in sorted(hits.items()):
                    R.bad("M9", "%s|%s" % (f.key, txt), f.loc(rev.stmt),
                          "%s: the edit can still be refused at `%s` after instances were already updated (%s): a refused edit leaves instances with outer pins / reference-set entries for something the definition does not have"
                          % (f.qualname, txt, "; ".join(w.split(":", 1)[1] for w in ws[:2])))
            else:
                R.ok("M9", f.qualname, f.loc())
    R.count("functions writing mirror state (M9)", n)
    R.floor("functions writing mirror state (M9)", 8)


def _m5_m7(ctx, R):
    R.rule("M5", "Netlist.top_instance / set_top_instance wrap a definition through the reference setter (no direct _reference write)")
    R.rule("M7", "who-may-write for Instance._pins and Definition._references (friend table of O1)")
    P, M = ctx.P, ctx.model
    nl = P.cls("spydrnet/ir/netlist.py", "Netlist")
    targets = [nl.props.get("top_instance", {}).get("setter"), nl.methods.get("set_top_instance")]
    if None in targets:
        raise AnalysisError("anchor vanished: Netlist.top_instance setter / set_top_instance")
    from ..effects import FuncEvents
    for f0 in targets:
        # read with private helpers in place (the wrapping may have been given a name of its own)
        f = inlined_view(P, f0)
        fe = M.events(f) if f is f0 else FuncEvents(P, f, M)
        direct = [ev for evs in fe.by_node.values() for ev in evs if ev.kind == "write" and ev.field in ("_reference", "_references", "_pins") and ev.cls in ("Instance", "Definition")]
        via = [ev for evs in fe.by_node.values() for ev in evs if ev.kind == "call" and any(t.qualname == "Instance.reference.setter" for t in ev.targets or [])]
        if direct:
            for ev in direct:
                R.bad("M5", "%s|direct %s" % (f.key, ev.field), f.loc(ev.stmt), "%s writes %s.%s directly instead of going through the reference setter" % (f.qualname, ev.cls, ev.field))
        elif via:
            R.ok("M5", "%s wraps the definition via the reference setter" % f.qualname, f.loc())
        else:
            R.bad("M5", "%s|no-reference" % f.key, f.loc(), "%s never assigns the wrapper instance's reference" % f.qualname)
    n = 0
    for f in M.ir_funcs():
        fe = M.events(f)
        wcls = f.cls.name if f.cls else "<module>"
        for evs in fe.by_node.values():
            for ev in evs:
                if ev.kind == "write" and (ev.cls, ev.field) in (("Instance", "_pins"), ("Definition", "_references")):
                    n += 1
                    allowed = wcls == ev.cls or (wcls, ev.cls, ev.field) in FRIEND_WRITES
                    if allowed:
                        R.ok("M7", "%s writes %s.%s" % (f.qualname, ev.cls, ev.field), f.loc(ev.stmt))
                    else:
                        R.bad("M7", "%s|%s.%s" % (f.key, ev.cls, ev.field), f.loc(ev.stmt),
                              "%s (class %s) writes %s.%s; only %s and reviewed friends may" % (f.qualname, wcls, ev.cls, ev.field, ev.cls))
    R.count("writes of Instance._pins / Definition._references (M7)", n)
    R.floor("writes of Instance._pins / Definition._references (M7)", 15)


class _Filtered:
    """view of a Run that keeps only the reorder obligations of the two relations outer pins mirror"""

    def __init__(self, R):
        self.R = R

    def rule(self, *a):
        pass

    def count(self, *a):
        pass

    def floor(self, *a):
        pass

    def note(self, *a):
        pass

    def ok(self, rule, instance, where=None):
        if "guarded as a permutation" in instance and (" on port-pin" in instance or " on definition-port" in instance):
            self.R.ok("M8", instance, where)
            self.R.count("M8 reorder setters of mirrored relations", 1)

    def bad(self, rule, key, where, message, detail=None):
        if "|reorder-" in key and ("|port-pin|" in key or "|definition-port|" in key):
            self.R.bad("M8", key, where, message + " (instances would keep outer pins for members that silently left the definition)", detail)
            self.R.count("M8 reorder setters of mirrored relations", 1)


@register("C02",
          "Static analysis of every function of spydrnet/ir that changes the shape of a definition or the reference of an instance "
          "(path-sensitive worlds carrying the set of effects performed on the path, interprocedural): M1 every link of a pin into a "
          "port / port into a definition / first reference assignment installs OuterPin(instance, pin) under key pin for every "
          "reference x pin on all paths; M2/M6 every unlink disconnects, deletes and nulls each affected outer pin, disconnect first; "
          "M3 the reference setter keeps both reference sets in step on every path; M4 re-pointing re-keys (never rebuilds) outer pins "
          "under the port-shape check; M5 top-instance wrapping goes through the reference setter; M7 who-may-write; bulk removals of ports / pins unlink the instance pins in a loop over exactly the set the rebuilt list excludes; M9 no mirror state is written (directly or inside a helper) before a point where the edit can still be refused. Does not decide "
          "that positional correspondence is the right correspondence.")
def check_c02(ctx, R):
    R.rule("M8", "the reorder setters of Port.pins and Definition.ports can only permute (a setter that drops or adds a "
                 "member changes the definition's shape without the mirror update)")
    _o2(ctx, _Filtered(R))
    R.floor("M8 reorder setters of mirrored relations", 2)
    _m1(ctx, R)
    _m_setter(ctx, R)
    _m2_m6(ctx, R)
    _m2_bulk(ctx, R)
    _m9(ctx, R)
    _m5_m7(ctx, R)
