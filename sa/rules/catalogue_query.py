"""Self-test catalogue for the query rules (C13)."""
from ..mutants import Mutant, add

U = "spydrnet/util/"
PAT = U + "patterns.py"

add("C13",
    Mutant("Q1 swap is_case / is_re at one call",
           (U + "get_ports.py", "_is_pattern_absolute(pattern, is_case, is_re)", "_is_pattern_absolute(pattern, is_re, is_case)"), "get_ports.py:_get_ports_raw|_is_pattern_absolute"),
    Mutant("Q1 lookup asks a library for ports",
           (U + "get_definitions.py", "lookup(obj, Definition, key, pattern)", "lookup(obj, Port, key, pattern)"), "_get_definitions_raw|lookup"),
    Mutant("Q1 value and pattern swapped",
           (U + "get_cables.py", "_value_matches_pattern(name, pattern, is_case, is_re)", "_value_matches_pattern(pattern, name, is_case, is_re)"), "_get_cables_raw|_value_matches_pattern"),
    Mutant("Q2 case-insensitive glob without folding",
           (PAT, 'fnmatch.fnmatchcase(value.lower(), pattern.replace("[", "[[]").lower())', "fnmatch.fnmatch(value, pattern)"), "case-insensitive glob"),
    Mutant("Q2 regex is a prefix match (seeded C13-A)",
           (PAT, "re.fullmatch(pattern, value, flags=0 if is_case else re.IGNORECASE)", 're.match(pattern + "$", value, flags=0 if is_case else re.IGNORECASE)'), "regex not fullmatch"),
    Mutant("Q2 IGNORECASE when case-sensitive",
           (PAT, "flags=0 if is_case else re.IGNORECASE", "flags=re.IGNORECASE if is_case else 0"), "regex flags"),
    Mutant("Q3 raw generator returned unfiltered",
           (U + "get_wires.py", """    for result in filter(
        filter_func, _get_wires_raw(object_collection, selection, recursive)
    ):
        yield result""", """    for result in _get_wires_raw(object_collection, selection, recursive):
        yield result"""), "get_wires.py:_get_wires|filter"),
    Mutant("Q4 '[' no longer neutralised in one branch (cf. seeded C13-w2A)",
           (PAT, 'return fnmatch.fnmatchcase(value, pattern.replace("[", "[[]"))', "return fnmatch.fnmatchcase(value, pattern)"), "[ special to matcher only"),
    Mutant("Q4 '[' not neutralised anywhere",
           [(PAT, 'return fnmatch.fnmatchcase(value, pattern.replace("[", "[[]"))', "return fnmatch.fnmatchcase(value, pattern)"),
            (PAT, 'pattern.replace("[", "[[]").lower()', "pattern.lower()")], "[ special to matcher only"),
    Mutant("Q4 case-insensitive exact patterns use the fast lookup",
           (PAT, "    if is_case is False or is_re is True:\n        return False\n    else:", "    if is_re is True:\n        return False\n    else:"), "_is_pattern_absolute|is_case"),
    Mutant("Q5 drop found.add before a yield",
           (U + "get_ports.py", """                    if result is not None and result not in found:
                        found.add(result)
                        yield result""", """                    if result is not None and result not in found:
                        yield result"""), "_get_ports_raw|yield result"),
    Mutant("Q5 drop the not-in test",
           (U + "get_wires.py", """                        if wire not in in_yield:
                            in_yield.add(wire)
                            yield wire""", """                        in_yield.add(wire)
                        yield wire"""), "_get_wires_raw|yield wire"),
    Mutant("Q5 exact pattern keeps its bucket",
           (U + "get_definitions.py", "                    result = namemap[pattern]\n                    del namemap[pattern]\n", "                    result = namemap[pattern]\n"),
           "_get_definitions_raw|yield definition"),
    Mutant("Q5 wildcard branch selects from the yielded set",
           (U + "get_libraries.py", """                for instance in pending:
                    value = instance[key] if key in instance else ""
                    if _value_matches_pattern(value, pattern, is_case, is_re):
                        discard.add(instance)
                        yield instance
                pending -= discard""", """                for instance in found:
                    value = instance[key] if key in instance else ""
                    if _value_matches_pattern(value, pattern, is_case, is_re):
                        discard.add(instance)
                        yield instance
                found -= discard"""), "_get_libraries_raw|yield instance|set found has two roles"),
    Mutant("Q6 option read but not accepted",
           (U + "get_netlists.py", 'kwargs.get("is_re", False)', 'kwargs.get("is_regex", False)'), "get_netlists|options"),
    Mutant("Q6 default pattern ignores is_re",
           (U + "get_cables.py", 'kwargs.get("patterns", ".*" if is_re else "*")', 'kwargs.get("patterns", "*")'), "get_cables|default-pattern"),
    Mutant("Q7 fallback scan stops early (seeded C13-B)",
           ("spydrnet/global_state/global_service.py", """                for instance in parent.children:
                    if key in instance and value == instance[key]:
                        return instance""", """                for instance in parent.children:
                    if key not in instance:
                        break
                    if value == instance[key]:
                        return instance"""), "lookup|children break"),
    Mutant("twin: keyword-argument form of the same call",
           (U + "get_ports.py", "_is_pattern_absolute(pattern, is_case, is_re)", "_is_pattern_absolute(pattern, is_re=is_re, is_case=is_case)"), None),
    Mutant("twin: rename the de-duplication set",
           (U + "get_pins.py", "found", "seen", 0), None),
    Mutant("twin: bind the regex flags to a local",
           (PAT, """            if re.fullmatch(pattern, value, flags=0 if is_case else re.IGNORECASE):""", """            flags = 0 if is_case else re.IGNORECASE
            if re.fullmatch(pattern, value, flags=flags):"""), None),
    )

add("C13",
    Mutant("Q5 the pending set of get_instances is built without excluding what was already returned (seeded C13-w3C)",
           (U + "get_instances.py", """        for other_instance in other_instances:
            if other_instance in found:
                continue
            found.add(other_instance)""", """        for other_instance in other_instances:
            found.add(other_instance)"""), "stage pending vs found"),
    Mutant("Q5 the name map of get_definitions is filled without excluding what was already returned",
           (U + "get_definitions.py", """            if other_definition in found:
                continue
            found.add(other_definition)""", """            found.add(other_definition)"""), "stage namemap vs found"),
    Mutant("Q9 register_lookup stores before it refuses (seeded C13-w3B)",
           ("spydrnet/global_state/global_service.py", """    if key in _registered_lookups:
        raise ValueError(
            "Cannot register a fast lookup under the key {}, lookup already registered."
        )
    else:
        _registered_lookups[key] = func""", """    registered = len(_registered_lookups)
    _registered_lookups[key] = func
    if len(_registered_lookups) == registered:
        raise ValueError(
            "Cannot register a fast lookup under the key {}, lookup already registered."
        )"""), "Q9|spydrnet/global_state/global_service.py:register_lookup"),
    Mutant("Q5 twin: filter by an enclosing not-in test",
           (U + "get_instances.py", """            if other_instance in found:
                continue
            found.add(other_instance)
            pending.add(other_instance)
            name = other_instance[key] if key in other_instance else ""
            if name not in namemap:
                namemap[name] = []
            namemap[name].append(other_instance)""", """            if other_instance not in found:
                found.add(other_instance)
                pending.add(other_instance)
                name = other_instance[key] if key in other_instance else ""
                if name not in namemap:
                    namemap[name] = []
                namemap[name].append(other_instance)"""), None),
)
