"""Self-test catalogue for the reader rules (C15)."""
from ..mutants import Mutant, add

EP = "spydrnet/parsers/edif/parser.py"
VP = "spydrnet/parsers/verilog/parser.py"
BP = "spydrnet/parsers/eblif/eblif_parser.py"

add("C15",
    Mutant("P1 restore outside finally",
           (EP, """        try:
            self.netlist = self.parse_construct(self.parse_edif)
        finally:
            namespace_manager.default = ns_default""", """        self.netlist = self.parse_construct(self.parse_edif)
        namespace_manager.default = ns_default"""), "EdifParser.parse|unrestored on exception"),
    Mutant("P1 restoring assignment deleted",
           (VP, """        try:
            self.parse_verilog()
        finally:
            namespace_manager.default = ns_default""", """        self.parse_verilog()"""), "VerilogParser.parse|unrestored"),
    Mutant("P1 policy saved after the switch (seeded C15-B)",
           (VP, """        ns_default = namespace_manager.default
        namespace_manager.default = "DEFAULT\"""", """        namespace_manager.default = "DEFAULT"
        ns_default = namespace_manager.default"""), "VerilogParser.parse|saved-after-switch"),
    Mutant("P2 continue before the consuming call in a token loop",
           (BP, """        while self.tokenizer.token is not et.NEW_LINE:
            self.current_model["EBLIF.clock"].append(self.tokenizer.token)
            self.tokenizer.next()""", """        while self.tokenizer.token is not et.NEW_LINE:
            if self.tokenizer.token in self.current_model["EBLIF.clock"]:
                continue
            self.current_model["EBLIF.clock"].append(self.tokenizer.token)
            self.tokenizer.next()"""), "EBLIFParser.parse_clock|"),
    Mutant("P2 module body branch that only peeks",
           (VP, """            elif token == vt.DEFPARAM:
                self.parse_defparam_parameters()""", """            elif token == vt.DEFPARAM:
                pass"""), "VerilogParser.parse_module_body|"),
    Mutant("P2 EDIF skip loop no longer advances",
           (EP, """            elif self.tokenizer.peek_equals(RIGHT_PAREN):
                count -= 1
            self.tokenizer.next()""", """            elif self.tokenizer.peek_equals(RIGHT_PAREN):
                count -= 1
                self.tokenizer.next()"""), "EdifParser.skip_until_next_construct|"),
    Mutant("P3 cellRef result used unchecked",
           (EP, """        assert definition is not None, (
            "Definition not found within library by EDIF identifier. definition: "
            + definition_identifer
            + " in "
            + library.name
        )
""", ""), "EdifParser.parse_cellRef|get_definitions"),
    Mutant("P3 libraryRef falls back to the enclosing library (seeded C15-A)",
           (EP, """        library = self.elements[-3]
        if library["EDIF.identifier"].lower() != library_identifier.lower():
            library = next(
                environment.get_libraries(library_identifier, key="EDIF.identifier"),
                None,
            )
            assert library is not None, (
                "Library not found within netlist by EDIF identifier "
                + library_identifier
            )""", """        library = next(
            environment.get_libraries(library_identifier, key="EDIF.identifier"),
            self.elements[-3],
        )
        assert library is not None, (
            "Library not found within netlist by EDIF identifier "
            + library_identifier
        )"""), "EdifParser.parse_libraryRef|get_libraries|default"),
    Mutant("P3 design search without rejecting else",
           (EP, """        else:
            raise RuntimeError(
                "Parse error: design references undeclared cell {}".format(
                    definition_name
                )
            )
""", ""), "EdifParser.parse_design|search definitions"),
    Mutant("P5 unknown directive swallowed",
           (BP, "    def parse_param(self):\n        self.expect(et.PARAM)", "    def parse_param(self):\n        try:\n            self.expect(et.PARAM)\n        except Exception:\n            return"),
           "EBLIFParser.parse_param|except Exception|swallow"),
    Mutant("twin: context-manager style restore through a helper with finally",
           (EP, """        try:
            self.netlist = self.parse_construct(self.parse_edif)
        finally:
            namespace_manager.default = ns_default""", """        try:
            self.netlist = self.parse_construct(self.parse_edif)
        except BaseException:
            namespace_manager.default = ns_default
            raise
        namespace_manager.default = ns_default"""), None),
    Mutant("twin: if/raise instead of assert after a lookup",
           (EP, """        assert (
            instance is not None
        ), "Instance not found within definition by EDIF identifier\"""", """        if instance is None:
            raise RuntimeError("Instance not found within definition by EDIF identifier")"""), None),
    )

add("C15",
    Mutant("P3 the design's cell is looked up in the whole netlist although its library was resolved (seeded C15-w3A)",
           (EP, """        for definition in library.definitions:
            if definition["EDIF.identifier"] == definition_name:
                break
        else:""", """        definition = next(
            self.elements[0].get_definitions(definition_name, key="EDIF.identifier"),
            None,
        )
        if definition is None:"""), "P3|spydrnet/parsers/edif/parser.py:EdifParser.parse_design|search libraries|result unused"),
)
