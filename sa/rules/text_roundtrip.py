"""C04 (Verilog) and C18 (EBLIF), narrow claims: the text written is accepted by the reader —
delimiter balance, token / directive / category agreement, metadata-key agreement, per-iteration updates."""
import ast
import re

from ..core import AnalysisError, norm, short, walk_local, parent_chain, reaching_assign
from ..cfg import cfg_of, node_exprs
from ..pairing import alts_of, negate
from . import register
from .edif_roundtrip import _position_counters

VC = "spydrnet/composers/verilog/composer.py"
VP = "spydrnet/parsers/verilog/parser.py"
VT = "spydrnet/parsers/verilog/verilog_tokens.py"
VTOK = ["spydrnet/parsers/verilog/tokenizer.py", "spydrnet/parsers/verilog/verilog_token_factory.py"]
BC = "spydrnet/composers/eblif/eblif_composer.py"
BP = "spydrnet/parsers/eblif/eblif_parser.py"
BT = "spydrnet/parsers/eblif/eblif_tokens.py"

PAIRS = {"paren": ({"OPEN_PARENTHESIS"}, {"CLOSE_PARENTHESIS"}, "(", ")"),
         "brace": ({"OPEN_BRACE"}, {"CLOSE_BRACE"}, "{", "}"),
         "bracket": ({"OPEN_BRACKET"}, {"CLOSE_BRACKET"}, "[", "]"),
         "module": ({"MODULE"}, {"END_MODULE"}, None, None),
         "celldefine": ({"CELL_DEFINE"}, {"END_CELL_DEFINE"}, None, None)}
PAIR_NAMES = sorted(PAIRS)
# composer-only tokens confirmed by reading: layout only
LAYOUT_TOKENS = {"SPACE", "NEW_LINE", "TAB"}
# VERILOG.* keys the reader stores and the writer deliberately does not read (reviewed, one reason each)
V_KEYS_NOT_WRITTEN = {"VERILOG.TimeScale": "the `timescale directive is not regenerated (documented omission in _write_preprocessor_directives)",
                      "VERILOG.primitive": "marks inferred black boxes; they are written as empty modules under write_blackbox"}
E_KEYS_NOT_WRITTEN = {"EBLIF.cname": "carried by the instance name (.cname is regenerated from it)",
                      "EBLIF.blackbox": "black boxes are regenerated from the primitive library"}


def _delta_of_expr(e):
    """(paren, brace, bracket, module, celldefine) contribution of one written / concatenated expression"""
    d = {k: 0 for k in PAIR_NAMES}
    for n in ast.walk(e):
        if isinstance(n, ast.Compare):
            return {k: 0 for k in PAIR_NAMES}
        if isinstance(n, ast.Attribute) and norm(n.value) == "vt":
            for k, (op, cl, _, _) in PAIRS.items():
                if n.attr in op:
                    d[k] += 1
                if n.attr in cl:
                    d[k] -= 1
        if isinstance(n, ast.Constant) and isinstance(n.value, str):
            for k, (_, _, oc, cc) in PAIRS.items():
                if oc:
                    d[k] += n.value.count(oc) - n.value.count(cc)
    return d


class Balance:
    def __init__(self, P):
        self.P = P
        self.cls = P.cls(VC, "Composer")
        self.summary = {}
        self.problems = []
        self.order = []
        for name in sorted(self.cls.methods):
            self.delta(name)

    def delta(self, name, depth=0):
        if name in self.summary:
            return self.summary[name]
        self.summary[name] = None  # recursion guard / unknown
        f = self.cls.methods.get(name)
        if f is None or depth > 12:
            return None
        cfg = cfg_of(f.node)
        zero = tuple(0 for _ in PAIR_NAMES)

        def contrib(n):
            tot = list(zero)
            exprs, tg = node_exprs(n)
            a = n.ast
            written = []
            for e in exprs:
                for c in ast.walk(e):
                    if isinstance(c, ast.Call) and isinstance(c.func, ast.Attribute):
                        if c.func.attr == "write" and c.args:
                            written.append(c.args[0])
                        elif norm(c.func.value) == "self" and c.func.attr in self.cls.methods and c.func.attr != name:
                            cd = self.delta(c.func.attr, depth + 1)
                            if cd is not None:
                                for i, v in enumerate(cd):
                                    tot[i] += v
            # text accumulated into a local string that is written later
            if n.kind == "stmt" and isinstance(a, (ast.Assign, ast.AugAssign)) and isinstance(a.targets[0] if isinstance(a, ast.Assign) else a.target, ast.Name):
                if not any(isinstance(c, ast.Call) and isinstance(c.func, ast.Attribute) and c.func.attr == "write" for c in ast.walk(a.value)):
                    written.append(a.value)
            for w in written:
                d = _delta_of_expr(w)
                for i, k in enumerate(PAIR_NAMES):
                    tot[i] += d[k]
            return tuple(tot)

        # worlds: (facts, counters); correlated conditions prune infeasible combinations
        init = frozenset([(frozenset(), zero)])
        state = {cfg.entry.id: init}
        work = [cfg.entry]
        guard = 0
        while work:
            guard += 1
            if guard > 20000:
                self.problems.append((f, f.node, "delimiter analysis did not converge (a loop changes the nesting depth)"))
                self.summary[name] = None
                return None
            n = work.pop()
            st = state[n.id]
            c = contrib(n)
            outs = frozenset((fa, tuple(x + y for x, y in zip(cn, c))) for fa, cn in st)
            # a local that is (re)bound: what was known about it is gone; a flag bound to True / False / None is known from here on
            if n.kind == "stmt" and isinstance(n.ast, (ast.Assign, ast.AugAssign, ast.AnnAssign)):
                tgs = n.ast.targets if isinstance(n.ast, ast.Assign) else [n.ast.target]
                names_ = {x.id for t in tgs for x in ast.walk(t) if isinstance(x, ast.Name) and isinstance(x.ctx, ast.Store)}
                if names_:
                    pat = re.compile(r"\b(%s)\b" % "|".join(re.escape(x) for x in names_))
                    gain = frozenset()
                    if isinstance(n.ast, ast.Assign) and len(tgs) == 1 and isinstance(tgs[0], ast.Name) and isinstance(n.ast.value, ast.Constant) \
                            and (n.ast.value.value is None or isinstance(n.ast.value.value, bool)):
                        gain = frozenset(["%s(%s)" % ("truthy" if n.ast.value.value is True else "falsy", tgs[0].id)])
                    outs = frozenset((frozenset(x for x in fa if not pat.search(x)) | gain, cn) for fa, cn in outs)
            if any(abs(v) > 6 for fa, cn in outs for v in cn):
                self.problems.append((f, n.ast if n.ast is not None else f.node, "a loop opens or closes a delimiter on every iteration"))
                self.summary[name] = None
                return None
            for s, lab in n.succ:
                if lab in ("exc", "raise") or s is cfg.raise_exit:
                    continue
                o = outs
                if n.kind in ("test", "assert") and lab in ("true", "false"):
                    ws = set()
                    for add in alts_of(n.ast.test, lab == "true"):
                        for fa, cn in outs:
                            if any(negate(x) in fa for x in add if negate(x)):
                                continue
                            ws.add((fa | frozenset(x for x in add if x.startswith(("eq(", "ne(", "truthy(", "falsy(", "in(", "notin(", "is(", "isnot("))), cn))
                    o = frozenset(ws)
                if not o:
                    continue
                old = state.get(s.id)
                new = o if old is None else (old | o)
                if len(new) > 64:
                    by = {}
                    for fa, cn in new:
                        by[cn] = fa if cn not in by else (by[cn] & fa)
                    new = frozenset((fa, cn) for cn, fa in by.items())
                if new != old:
                    state[s.id] = new
                    work.append(s)
        ex = state.get(cfg.exit.id, frozenset())
        finals = {cn for fa, cn in ex}
        self.order.append(name)
        if len(finals) > 1:
            self.problems.append((f, f.node, "leaves different delimiter balances on different paths: %s" %
                                  "; ".join(", ".join("%s%+d" % (k, v) for k, v in zip(PAIR_NAMES, cn) if v) or "balanced" for cn in sorted(finals))))
            self.summary[name] = None
            return None
        res = finals.pop() if finals else zero
        self.summary[name] = res
        return res


def _separator_updates(R, cls, rid):
    """a separator variable initialised empty before a loop and used in what the loop writes is updated on every iteration"""
    n = 0
    for f in cls.methods.values():
        for lp in walk_local(f.node):
            if not isinstance(lp, ast.For):
                continue
            par = getattr(lp, "_parent", None)
            blk = None
            for b in ("body", "orelse"):
                if lp in getattr(par, b, []):
                    blk = getattr(par, b)
            if blk is None:
                continue
            inits = {norm(a.targets[0]) for a in blk[: blk.index(lp)] if isinstance(a, ast.Assign) and isinstance(a.targets[0], ast.Name)
                     and isinstance(a.value, ast.Constant) and a.value.value == ""}
            for v in sorted(inits):
                sets = [a for a in ast.walk(lp) if isinstance(a, ast.Assign) and norm(a.targets[0]) == v]
                used = any(isinstance(x, ast.Name) and x.id == v and isinstance(x.ctx, ast.Load) for x in ast.walk(lp))
                if not sets or not used:
                    continue
                n += 1
                if all(a in lp.body for a in sets):
                    R.ok(rid, "%s: separator %s updated on every iteration" % (f.qualname, v), f.loc(lp))
                else:
                    R.bad(rid, "%s|separator %s" % (f.key, v), f.loc(sets[0]),
                          "%s: the separator `%s` is only set under a condition inside the loop: after an iteration that skips it the next item is written without a separator and fuses with the previous one" % (f.qualname, v))
    return n


def _bit_ranges(P, R, cls, rid):
    """every bit range written next to a cable name: the bounds come from the one function that turns a wire into its bit index
    (position + lower_index), and from wires of that same cable expression"""
    conv = None
    writers = {}
    for mname, f in cls.methods.items():
        if len(f.params) == 4 and any((isinstance(c, ast.Attribute) and norm(c).startswith("vt.OPEN_BRACKET")) or
                                      (isinstance(c, ast.Constant) and c.value == "[") for c in ast.walk(f.node)):
            writers[mname] = f
        if len(f.params) == 2 and any(isinstance(c, ast.Attribute) and c.attr == "lower_index" for c in ast.walk(f.node)) \
                and any(isinstance(r, ast.Return) and isinstance(r.value, ast.BinOp) for r in ast.walk(f.node)):
            conv = f
    # wrappers that forward (bundle, low, high) unchanged to a range writer
    for mname, f in cls.methods.items():
        if len(f.params) == 4 and mname not in writers:
            for c in walk_local(f.node):
                if isinstance(c, ast.Call) and isinstance(c.func, ast.Attribute) and norm(c.func.value) == "self" and c.func.attr in writers \
                        and [norm(x) for x in c.args] == f.params[1:]:
                    writers[mname] = f
    if not writers or conv is None:
        raise AnalysisError("anchor vanished: the Verilog range writer (name[hi:lo]) or the wire-to-bit-index function")
    n = 0
    from ..inline import inlined_view
    keepers = tuple(writers) + (conv.name,)
    views = {m: inlined_view(P, f_, keep=keepers) for m, f_ in cls.methods.items()}
    spliced = {h for v in views.values() for h in getattr(v, "inlined_helpers", [])}
    for mname, f in sorted(views.items()):
        assigns = {}
        families = {}
        loopvars = set()
        for a in walk_local(f.node):
            if isinstance(a, ast.Assign):
                for t in a.targets:
                    if isinstance(t, ast.Name):
                        assigns.setdefault(t.id, []).append(a.value)
                    elif isinstance(t, ast.Tuple):
                        fam = "family@%s" % norm(a.value)[:40]
                        for e in t.elts:
                            if isinstance(e, ast.Name):
                                families[e.id] = fam
            elif isinstance(a, ast.For):
                for e in ast.walk(a.target):
                    if isinstance(e, ast.Name):
                        loopvars.add(e.id)

        def origins(e, depth=0, seen=None, at=None):
            """(set of root names, converted through the index function?, raw position used?); `at` = the node from which a name is
            read, used to pick the assignment that reaches it in straight-line code"""
            seen = seen if seen is not None else set()
            if isinstance(e, ast.Name) and at is not None and e.id not in families and e.id not in f.params and e.id not in loopvars:
                ra = reaching_assign(at, e.id)
                if ra is not None and isinstance(ra.targets[0], ast.Name):
                    return origins(ra.value, depth + 1, seen, at=ra)
            if depth > 8:
                return {"?"}, False, False
            if isinstance(e, ast.Constant):
                return set(), True, False
            if isinstance(e, ast.Call) and isinstance(e.func, ast.Attribute) and norm(e.func.value) == "self" and e.func.attr == conv.name and e.args:
                r, _, raw = origins(e.args[0], depth + 1, seen)
                return r, True, raw
            if isinstance(e, ast.Call) and isinstance(e.func, ast.Attribute) and e.func.attr == "index":
                r, _, _ = origins(e.func.value, depth + 1, seen)
                return r, False, True
            if isinstance(e, ast.BinOp):
                r1, c1, w1 = origins(e.left, depth + 1, seen)
                r2, c2, w2 = origins(e.right, depth + 1, seen)
                return r1 | r2, c1 and c2, w1 or w2
            if isinstance(e, (ast.Attribute, ast.Subscript)):
                return origins(e.value, depth + 1, seen)
            if isinstance(e, ast.Name):
                if e.id in families:
                    return {families[e.id]}, False, False
                if e.id in f.params or e.id in loopvars or e.id == "self":
                    return {e.id}, False, False
                if e.id in seen or e.id not in assigns:
                    return set(), True, False
                seen = seen | {e.id}
                roots, conv_all, raw_any = set(), True, False
                for v in assigns[e.id]:
                    r, c, w = origins(v, depth + 1, seen)
                    roots |= r
                    conv_all = conv_all and c
                    raw_any = raw_any or w
                return roots, conv_all, raw_any
            return {"?"}, False, False

        for c in walk_local(f.node):
            if mname in writers:
                continue  # a wrapper forwards its own parameters
            if not (isinstance(c, ast.Call) and isinstance(c.func, ast.Attribute) and norm(c.func.value) == "self" and c.func.attr in writers
                    and len(c.args) == 3):
                continue
            own = set(f.params)
            for a_ in walk_local(f.node):
                # … or the pieces of a parameter that bundles them: `low, high = index_range`
                if isinstance(a_, ast.Assign) and len(a_.targets) == 1 and isinstance(a_.targets[0], ast.Tuple) and isinstance(a_.value, ast.Name) and a_.value.id in f.params:
                    own |= {t_.id for t_ in a_.targets[0].elts if isinstance(t_, ast.Name)}
            if f.qualname in spliced and all(isinstance(a, ast.Name) and a.id in own for a in c.args[1:]):
                continue  # a private helper forwarding its own parameters: read in place at each of its call sites
            n += 1
            croots, _, _ = origins(c.args[0], at=c)
            problems = []
            for which, a in (("low", c.args[1]), ("high", c.args[2])):
                roots, converted, raw = origins(a, at=c)
                if raw or not converted:
                    problems.append(("raw-position", "the %s bound `%s` is a position in a list, not a bit index: it does not go through %s, so the "
                                     "cable's lower_index is lost (wire [5:2] w comes out as w[3:0])" % (which, norm(a), conv.name)))
                elif roots and croots and "?" not in roots and "?" not in croots and not (roots & croots):
                    problems.append(("foreign-wire", "the %s bound `%s` is computed from `%s` while the name written is that of `%s`: the range of one "
                                     "cable is written next to the name of another" % (which, norm(a), "/".join(sorted(roots)), norm(c.args[0]))))
            if problems:
                code, txt = problems[0]
                R.bad(rid, "%s|%s|%s" % (f.key, code, norm(c.args[0])), f.loc(c), "%s: %s" % (f.qualname, txt))
            else:
                R.ok(rid, "%s: range of %s" % (f.qualname, norm(c.args[0])), f.loc(c))
    return n


def _pairs_from_one_iteration(P, R, rel, rid):
    """A loop that reads `key [= value]` items and stores them (`D[key] = value`): when the key is decided afresh in every iteration, so is
    the value — on every path from the loop head to the store the value is bound.  A value bound on some paths only is the previous item's
    (`(* A = "x", KEEP *)` read back as KEEP = "x").  Accumulators (`v += …`, `v = v + …`) and values not bound in the loop at all (context
    carried on purpose) are not pairs and are left alone."""
    from ..cfg import cfg_of
    mod = P.module(rel)
    funcs = list(mod.functions.values()) + [m for c in mod.classes.values() for m in c.methods.values()]
    n = 0

    def binds(cn, name):
        a = cn.ast
        if cn.kind == "stmt" and isinstance(a, (ast.Assign, ast.AnnAssign)):
            ts = a.targets if isinstance(a, ast.Assign) else [a.target]
            if any(isinstance(z, ast.Name) and z.id == name for t in ts for z in ast.walk(t)):
                v = a.value
                return v is not None and not any(isinstance(z, ast.Name) and z.id == name for z in ast.walk(v))
        if cn.kind == "next" and isinstance(a, (ast.For, ast.AsyncFor)):
            return any(isinstance(z, ast.Name) and z.id == name for z in ast.walk(a.target))
        if cn.kind == "with" and isinstance(a, ast.With):
            return any(i.optional_vars is not None and any(isinstance(z, ast.Name) and z.id == name for z in ast.walk(i.optional_vars)) for i in a.items)
        return False

    for f in funcs:
        stores = [(L, S) for L in walk_local(f.node) if isinstance(L, (ast.While, ast.For)) for S in ast.walk(L)
                  if isinstance(S, ast.Assign) and len(S.targets) == 1 and isinstance(S.targets[0], ast.Subscript)
                  and isinstance(S.targets[0].slice, ast.Name) and isinstance(S.value, ast.Name)]
        if not stores:
            continue
        cfg = cfg_of(f.node)
        for L, S in stores:
            head = next((c for c in cfg.nodes if c.ast is L and c.kind in ("test", "next")), None)
            sn = next((c for c in cfg.nodes if c.ast is S), None)
            if head is None or sn is None:
                continue
            inside = {id(z) for z in ast.walk(L)}
            key, val = S.targets[0].slice.id, S.value.id

            def stale(name):
                """a path from the loop head to the store on which `name` is not bound, when the loop binds it somewhere"""
                if not any(binds(c, name) for c in cfg.nodes if c.ast is not None and id(c.ast) in inside and c is not head) and not binds(head, name):
                    return None
                if binds(head, name):
                    return False
                seen, todo = set(), [x for x, lab in head.succ if lab in ("true", "item")]
                while todo:
                    x = todo.pop()
                    if x.id in seen or x is head or x is cfg.raise_exit:
                        continue
                    seen.add(x.id)
                    if x.ast is not None and id(x.ast) not in inside and x.kind != "join":
                        continue
                    if x is sn:
                        return True
                    if binds(x, name):
                        continue
                    todo.extend(y for y, lab in x.succ)
                return False

            if stale(key) is not False:
                continue  # the key is not decided per iteration of this loop: not a pair read item by item
            n += 1
            st = stale(val)
            if st is True:
                R.bad(rid, "%s|stale value|%s" % (f.key, norm(S.targets[0])), f.loc(S),
                      "%s stores `%s` with a key read in this iteration, but on some path through the loop body `%s` is not bound in this iteration: "
                      "the item gets the value of the item before it" % (f.qualname, short(S, 50), val))
            else:
                R.ok(rid, "%s: `%s` key and value from one iteration" % (f.qualname, short(S, 40)), f.loc(S))
    return n


@register("C04",
          "Static analysis of the Verilog writer against the Verilog reader (narrow claim: the text written is accepted by the reader; which bit "
          "lands on which pin is a runtime property and is not decided): B1' path-sensitive delimiter balance — ( ) { } [ ] module/endmodule "
          "`celldefine/`endcelldefine — per method (one net balance on all normal paths, correlated conditions pruned) and zero for a whole "
          "module; B2' every token constant the writer emits is one the reader's modules reference (layout tokens excepted); B4' VERILOG.* "
          "metadata keys stored by the reader minus keys read by the writer equals the reviewed table; B5' separators in item lists are "
          "updated on every iteration; hand-maintained position counters advance once per element; B6' the bounds of every bit range written next to a cable "
          "name come from the one wire-to-bit-index function (position + lower_index) applied to wires of that same cable expression; B7' the readers of named and of positional port maps place a connection narrower than its port on the same end of the port (abstract alignment: wire k meets pin k, or pin k + max(len(pins) - len(wires), 0)); B8' (CFG paths within one iteration) in the reader's item loops a value stored under a key read in this iteration is bound in this iteration on every path to the store.")
def check_c04(ctx, R):
    P = ctx.P
    R.rule("B1'", "delimiter balance of the Verilog writer")
    R.rule("B2'", "token agreement between writer and reader")
    R.rule("B4'", "VERILOG.* metadata-key agreement")
    R.rule("B5'", "per-iteration updates (separators, position counters)")
    B = Balance(P)
    bad = set()
    for f, node, text in B.problems:
        bad.add(f.name)
        R.bad("B1'", "%s|%s" % (f.key, text.split(":")[0][:50]), f.loc(node), "%s %s: the reader rejects (or mis-nests) the text" % (f.qualname, text))
    n_w = 0
    for m in sorted(B.cls.methods):
        if m.startswith("_write_"):
            n_w += 1
            if m not in bad:
                R.ok("B1'", "Composer.%s: %s" % (m, ", ".join("%s%+d" % (k, v) for k, v in zip(PAIR_NAMES, B.summary.get(m) or ()) if v) or "balanced"))
    R.count("Verilog _write_* methods (B1')", n_w)
    R.floor("Verilog _write_* methods (B1')", 20)
    top = B.summary.get("_write_module")
    if top is None and "_write_module" not in bad:
        raise AnalysisError("B1': no balance summary for Composer._write_module")
    if top is not None and any(top):
        R.bad("B1'", "%s|module-total" % VC, VC, "a whole module is written with unbalanced delimiters: %s" % ", ".join("%s%+d" % (k, v) for k, v in zip(PAIR_NAMES, top) if v))
    elif top is not None:
        R.ok("B1'", "Composer._write_module is balanced as a whole")
    # B2'
    vt = P.module(VT)
    tokens = {k for k, v in vt.assigns.items() if isinstance(v, ast.Constant) and isinstance(v.value, str)}
    comp = P.module(VC)
    emitted = {n.attr for n in ast.walk(comp.tree) if isinstance(n, ast.Attribute) and norm(n.value) == "vt"}
    reader_refs = set()
    for rel in [VP] + VTOK:
        m = P.module(rel)
        reader_refs |= {n.attr for n in ast.walk(m.tree) if isinstance(n, ast.Attribute) and norm(n.value) == "vt"}
        reader_refs |= {n.id for n in ast.walk(m.tree) if isinstance(n, ast.Name) and n.id in tokens}
    # tokens the tokenizer handles through the token sets of verilog_tokens itself
    for k, v in vt.assigns.items():
        if isinstance(v, (ast.Set, ast.List)):
            reader_refs |= {x.id for x in ast.walk(v) if isinstance(x, ast.Name)}
    R.count("token constants emitted by the Verilog writer (B2')", len(emitted))
    R.floor("token constants emitted by the Verilog writer (B2')", 18)
    for t in sorted(emitted):
        if t not in tokens and t not in vt.assigns and t not in vt.functions:
            R.bad("B2'", "unknown|%s" % t, VC, "the writer uses vt.%s, which verilog_tokens does not define" % t)
        elif t in reader_refs or t in LAYOUT_TOKENS or t in vt.functions:
            R.ok("B2'", "vt.%s" % t)
        else:
            R.bad("B2'", "writer-only|%s" % t, VC, "the writer emits the token vt.%s, which no reader module refers to: the construct it writes is not one the reader parses" % t)
    # B4'
    def keys_stored(mod, prefix):
        out = set()
        for n in ast.walk(mod.tree):
            if isinstance(n, ast.Subscript) and isinstance(n.ctx, ast.Store) and isinstance(n.slice, ast.Constant) and isinstance(n.slice.value, str) and n.slice.value.startswith(prefix):
                out.add(n.slice.value)
        return out

    def keys_mentioned(mod, prefix):
        return {n.value for n in ast.walk(mod.tree) if isinstance(n, ast.Constant) and isinstance(n.value, str) and n.value.startswith(prefix)}

    stored = keys_stored(P.module(VP), "VERILOG.")
    read = keys_mentioned(comp, "VERILOG.")
    R.count("VERILOG.* keys stored by the reader (B4')", len(stored))
    R.floor("VERILOG.* keys stored by the reader (B4')", 4)
    for k in sorted(stored):
        if k in read:
            R.ok("B4'", "%s read by the writer" % k)
        elif k in V_KEYS_NOT_WRITTEN:
            R.ok("B4'", "%s not written: %s" % (k, V_KEYS_NOT_WRITTEN[k]))
        else:
            R.bad("B4'", "key|%s" % k, VC, "the reader stores %s but the writer never reads it: that information (parameters / attributes / types) is lost on write-then-read" % k)
    # B5'
    n5 = _separator_updates(R, B.cls, "B5'")
    n5 += _position_counters(ctx, R, B.cls, "B5'", 0)
    R.count("per-iteration update sites (B5')", n5)
    R.floor("per-iteration update sites (B5')", 1)
    # B7': named and positional port maps place a connection on the port the same way (the writer always writes named maps, so
    # whatever the positional reader does differently cannot be written back)
    R.rule("B7'", "the port-map readers agree: how wires meet pins (pin order, low-end offset) is the same for named and positional maps")
    sk = _connect_skeletons(P)
    R.count("wire-to-pin connection loops in the Verilog reader (B7')", len(sk))
    R.floor("wire-to-pin connection loops in the Verilog reader (B7')", 1)
    sk = [x for x in sk if x[3] is not None]
    if len(sk) >= 2:
        ref_f, ref_lp, ref_txt, ref_al = sk[0]
        for f_, lp_, txt, al in sk[1:]:
            if al == ref_al:
                R.ok("B7'", "%s places connections like %s (%s end of the port)" % (f_.qualname, ref_f.qualname, al), f_.loc(lp_))
            else:
                R.bad("B7'", "%s|differs from %s" % (f_.key, ref_f.qualname), f_.loc(lp_),
                      "%s and %s place the wires of a connection on the pins of a port differently (`%s` vs `%s`): a connection narrower than its port "
                      "lands on other bits depending on whether the port map is named or positional, and the writer can only write one of the two"
                      % (f_.qualname, ref_f.qualname, txt[:120], ref_txt[:120]))
    R.rule("B8'", "a key and the value stored under it are read in the same iteration of the reader's item loops")
    n8 = _pairs_from_one_iteration(P, R, VP, "B8'")
    R.count("key / value stores in the Verilog reader's item loops (B8')", n8)
    R.floor("key / value stores in the Verilog reader's item loops (B8')", 4)
    R.rule("B6'", "bit ranges: bounds go through the wire-to-bit-index function and belong to the cable whose name is written")
    n6 = _bit_ranges(P, R, B.cls, "B6'")
    R.count("range emissions (B6')", n6)
    R.floor("range emissions (B6')", 6)


# ---------------------------------------------------------------------------------------------- C18
def _consistent(node, binding, params):
    """the If conditions around `node` that test a parameter (`p` / `not p`) agree with the binding {param: True / False}"""
    prev = node
    for p in parent_chain(node):
        if isinstance(p, ast.If):
            t, neg = p.test, False
            if isinstance(t, ast.UnaryOp) and isinstance(t.op, ast.Not):
                t, neg = t.operand, True
            if isinstance(t, ast.Name) and t.id in params:
                in_body = any(prev is x or any(prev is y for y in ast.walk(x)) for x in p.body)
                want = (not neg) if in_body else neg
                if bool(binding.get(t.id, False)) != want:
                    return False
        if isinstance(p, (ast.FunctionDef, ast.AsyncFunctionDef)):
            break
        prev = p
    return True


def _flag_binding(call, h):
    """{flag parameter: constant} for a call of h (defaults for what is not passed); None when an argument is not a constant"""
    params = h.params[1:] if h.params and h.params[0] == "self" else list(h.params)
    a = h.node.args
    binding = {}
    for p_, d_ in zip(params[len(params) - len(a.defaults):], a.defaults):
        if isinstance(d_, ast.Constant):
            binding[p_] = d_.value
    for k in call.keywords:
        if k.arg in params and isinstance(k.value, ast.Constant):
            binding[k.arg] = k.value.value
    for p_, v in zip(params, call.args):
        if isinstance(v, ast.Constant):
            binding[p_] = v.value
    return binding, params


def _kind_round_trip(P, R, pars, cc, ci):
    R.rule("B5b", "statement kinds survive: a category is written with the directive the reader turns into that category")
    pc = next((c for c in pars.classes.values() if "parse_model_helper" in c.methods or any(m.startswith("parse_") for m in c.methods)), None)
    if pc is None:
        raise AnalysisError("anchor vanished: the EBLIF reader class")
    toks = {}
    for rel, m in P.modules.items():
        if rel.endswith("eblif_tokens.py"):
            toks = {k: v.value for k, v in m.assigns.items() if isinstance(v, ast.Constant) and isinstance(v.value, str)}
    # reader: directive -> categories it can produce
    reader = {}
    for f in pc.all_funcs():
        for n in walk_local(f.node):
            if not (isinstance(n, ast.If) and isinstance(n.test, ast.Compare) and len(n.test.ops) == 1 and isinstance(n.test.ops[0], ast.Eq)):
                continue
            tk = next((x for x in (n.test.left, n.test.comparators[0]) if isinstance(x, ast.Attribute) and x.attr in toks), None)
            if tk is None or not toks[tk.attr].startswith("."):
                continue
            for c in [x for s_ in n.body for x in ast.walk(s_)]:
                if isinstance(c, ast.Call) and isinstance(c.func, ast.Attribute) and norm(c.func.value) == "self" and c.func.attr in pc.methods:
                    h = pc.methods[c.func.attr]
                    binding, params = _flag_binding(c, h)
                    for a_ in walk_local(h.node):
                        if isinstance(a_, ast.Assign) and isinstance(a_.targets[0], ast.Subscript) and isinstance(a_.targets[0].slice, ast.Constant) \
                                and a_.targets[0].slice.value == "EBLIF.type" and isinstance(a_.value, ast.Constant) and _consistent(a_, binding, params):
                            reader.setdefault(toks[tk.attr], set()).add(a_.value.value)
    # writer: category -> directives it is written with
    writer = {}
    for n in walk_local(ci.node):
        if isinstance(n, ast.If) and isinstance(n.test, ast.Compare) and isinstance(n.test.left, ast.Constant) and isinstance(n.test.left.value, str):
            cat = n.test.left.value
            for c in [x for s_ in n.body for x in ast.walk(s_)]:
                if isinstance(c, ast.Call) and isinstance(c.func, ast.Attribute) and norm(c.func.value) == "self" and c.func.attr in cc.methods:
                    h = cc.methods[c.func.attr]
                    binding, params = _flag_binding(c, h)
                    for k in walk_local(h.node):
                        if isinstance(k, ast.Constant) and isinstance(k.value, str) and re.match(r"\.[a-z]+\s*$", k.value) and _consistent(k, binding, params):
                            writer.setdefault(cat, set()).add(k.value.strip())
    n = 0
    for d, cats in sorted(reader.items()):
        for cat in sorted(cats):
            if cat not in writer:
                continue
            n += 1
            if writer[cat] == {d}:
                R.ok("B5b", "%s is written as %s, which is read back as %s" % (cat, d, cat), ci.loc())
            elif d not in writer[cat]:
                R.bad("B5b", "kind|%s|%s" % (cat, ",".join(sorted(writer[cat]))), ci.loc(),
                      "instances the reader tags %s (from `%s`) are written as `%s`: after write-then-read they come back as another kind of statement"
                      % (cat, d, ", ".join(sorted(writer[cat]))))
            else:
                R.ok("B5b", "%s can be written as %s" % (cat, d), ci.loc())
    R.count("categories with a reader directive and a writer branch (B5b)", n)
    R.floor("categories with a reader directive and a writer branch (B5b)", 3)


def _independent_keys(P, R, comp):
    R.rule("B10", "independent metadata is written independently: the presence tests of two different EBLIF.* keys are not arms of one "
                  "if / elif chain (an element carrying both would lose the second on write)")
    n = 0

    def key_of(t):
        if isinstance(t, ast.Compare) and len(t.ops) == 1 and isinstance(t.ops[0], ast.In) and isinstance(t.left, ast.Constant) \
                and isinstance(t.left.value, str) and t.left.value.startswith("EBLIF."):
            return t.left.value
        return None
    for f in (g for c in comp.classes.values() for g in c.all_funcs()):
        for i_ in walk_local(f.node):
            if not isinstance(i_, ast.If) or key_of(i_.test) is None:
                continue
            par = getattr(i_, "_parent", None)
            if isinstance(par, ast.If) and len(par.orelse) == 1 and par.orelse[0] is i_ and key_of(par.test) is not None:
                continue  # an inner link of a chain: judged from the head
            n += 1
            chain, cur = [key_of(i_.test)], i_
            while len(cur.orelse) == 1 and isinstance(cur.orelse[0], ast.If) and key_of(cur.orelse[0].test) is not None:
                cur = cur.orelse[0]
                chain.append(key_of(cur.test))
            # (the category dispatch of compose_instances tests keys of a dict it built itself, one category per instance; what matters here
            # are tests on an element's own data)
            on_element = "data" in norm(i_.test.comparators[0]) or norm(i_.test.comparators[0]) in ("instance", "definition", "self.current_model", "cable", "port")
            if len(set(chain)) > 1 and on_element:
                R.bad("B10", "%s|chained %s" % (f.key, ",".join(chain)), f.loc(i_),
                      "%s tests %s in one if / elif chain: an element that carries %s is written with the first only, the rest is lost on write-then-read"
                      % (f.qualname, " and ".join("`%s`" % k for k in chain), " and ".join(chain)))
            else:
                R.ok("B10", "%s: %s" % (f.qualname, chain[0]), f.loc(i_))
    R.count("EBLIF.* presence tests in the writer (B10)", n)
    R.floor("EBLIF.* presence tests in the writer (B10)", 3)


def _merged_directions(P, R, pars):
    """`.inputs a` followed by `.outputs a` makes `a` bidirectional.  The reader may turn a port it found by name into INOUT only after
    looking at the direction the port has: a port found by name can also be an earlier bit of the same output bus (`.outputs r[0] r[1]`)."""
    R.rule("B11", "a port found by name becomes INOUT only under a test of the direction it has")
    n = 0
    for f in (g for c in pars.classes.values() for g in c.all_funcs()):
        once = {}
        for a in walk_local(f.node):
            if isinstance(a, ast.Assign) and len(a.targets) == 1 and isinstance(a.targets[0], ast.Name):
                once.setdefault(a.targets[0].id, []).append(a.value)
        for a in walk_local(f.node):
            if not (isinstance(a, ast.Assign) and any(isinstance(t, ast.Attribute) and t.attr == "direction" for t in a.targets)
                    and norm(a.value).split(".")[-1] == "INOUT"):
                continue
            tgt = next(t for t in a.targets if isinstance(t, ast.Attribute) and t.attr == "direction")
            want = norm(tgt)
            n += 1

            def reads(e, depth=0):
                for z in ast.walk(e):
                    if isinstance(z, ast.Attribute) and norm(z) == want:
                        return True
                    if isinstance(z, ast.Name) and depth < 3 and len(once.get(z.id, ())) == 1 and reads(once[z.id][0], depth + 1):
                        return True
                return False
            prev, ok = a, False
            for p_ in parent_chain(a):
                if isinstance(p_, ast.If) and reads(p_.test):
                    ok = True
                for fld in ("body", "orelse"):
                    blk = getattr(p_, fld, None)
                    if isinstance(blk, list) and any(x is prev for x in blk):
                        for x in blk[: [y is prev for y in blk].index(True)]:
                            if isinstance(x, ast.If) and not x.orelse and x.body and isinstance(x.body[-1], (ast.Continue, ast.Return, ast.Raise, ast.Break)) and reads(x.test):
                                ok = True
                if p_ is f.node:
                    break
                prev = p_
            if ok:
                R.ok("B11", "%s: `%s` under a test of %s" % (f.qualname, short(a, 40), want), f.loc(a))
            else:
                R.bad("B11", "%s|unconditional INOUT" % f.key, f.loc(a),
                      "%s sets `%s` without looking at `%s`: every port that already exists (the earlier bits of the same output bus included) "
                      "becomes bidirectional and is left unconnected" % (f.qualname, short(a, 40), want))
    R.count("INOUT merges in the EBLIF reader (B11)", n)
    R.floor("INOUT merges in the EBLIF reader (B11)", 1)


def _open_actuals_stay_open(P, R, pars):
    R.rule("B9", "open actuals stay open: once the reader has recognised an actual as the `unconn` marker, no statement that joins the pin "
                 "to a net can run in the same iteration")
    from ..inline import inlined_view
    n = 0
    for f in (g for c in pars.classes.values() for g in c.all_funcs()):
        tests = [t for t in walk_local(f.node) if isinstance(t, ast.Compare) and len(t.ops) == 1 and isinstance(t.ops[0], (ast.Eq, ast.NotEq, ast.Is, ast.IsNot))
                 and any(isinstance(x, (ast.Attribute, ast.Name)) and norm(x).split(".")[-1] == "UNCONN" for x in (t.left, t.comparators[0]))]
        if not tests:
            continue
        fv = inlined_view(P, f)
        cfg = cfg_of(fv.node)

        def joins(node):
            a = node.ast
            if a is None or node.kind in ("entry", "exit"):
                return None
            exprs, _ = node_exprs(node)
            for e in exprs:
                for c in ast.walk(e):
                    if isinstance(c, ast.Call) and isinstance(c.func, ast.Attribute) and c.func.attr in ("connect_pin_to_wire", "connect_pin"):
                        return c
            return None
        for t in cfg.nodes:
            if t.kind != "test" or not isinstance(t.ast, (ast.If, ast.While)):
                continue
            marker = [c for c in ast.walk(t.ast.test) if isinstance(c, ast.Compare) and len(c.ops) == 1 and isinstance(c.ops[0], (ast.Eq, ast.NotEq, ast.Is, ast.IsNot))
                      and any(isinstance(x, (ast.Attribute, ast.Name)) and norm(x).split(".")[-1] == "UNCONN" for x in (c.left, c.comparators[0]))]
            if not marker or marker[0] is not t.ast.test:
                continue
            n += 1
            want = "true" if isinstance(marker[0].ops[0], (ast.Eq, ast.Is)) else "false"
            loops = [p for p in parent_chain(t.ast) if isinstance(p, (ast.For, ast.While))]
            seen, todo, hit = set(), [s_ for s_, lab in t.succ if lab == want], None
            while todo and hit is None:
                x = todo.pop()
                if x.id in seen:
                    continue
                seen.add(x.id)
                if x.kind in ("next", "test") and any(x.ast is lp for lp in loops):
                    continue  # the next element: another actual
                hit = joins(x)
                if hit is None:
                    todo.extend(s_ for s_, lab in x.succ if s_ is not cfg.raise_exit)
            if hit is not None:
                R.bad("B9", "%s|open actual joined" % f.key, fv.loc(hit),
                      "%s can reach `%s` after recognising the actual as the open marker (`%s`): a pin written as unconnected is wired to a net named "
                      "after the marker, which also shorts all such pins together" % (f.qualname, short(hit, 50), short(marker[0], 40)))
            else:
                R.ok("B9", "%s: nothing is joined once `%s` holds" % (f.qualname, short(marker[0], 40)), fv.loc(t.ast))
    R.count("tests for the open-actual marker in the EBLIF reader (B9)", n)
    R.floor("tests for the open-actual marker in the EBLIF reader (B9)", 1)


def _str_consts(node):
    return [n.value for n in ast.walk(node) if isinstance(n, ast.Constant) and isinstance(n.value, str)]


@register("C18",
          "Static analysis of the EBLIF writer against the EBLIF reader (narrow claim; per-pin connectivity is a runtime property and is not decided): "
          "B2'' every directive the writer can emit (string literals starting with '.') is one the reader dispatches on; B5 every EBLIF.type "
          "category the reader assigns has a branch in the writer's compose_instances (otherwise instances vanish on write); B4'' EBLIF.* keys "
          "stored by the reader minus keys read by the writer equals the reviewed table; B1'' every .model written is followed by .end on all "
          "paths; B6 the .conn wire merge iterates over a snapshot of the pin lists it empties; hand-maintained position counters advance once "
          "per element; B7 a bus grown on demand to hold bit I is then read at bit I; B8 the (name, index) pair a bit of a bus is stored under comes from one parse of one token; B5b per category, the directive the writer emits under the flags it passes is the directive the reader turns into that category; B9 (CFG reachability within one iteration) once an actual is recognised as the `unconn` marker no statement that joins the pin to a net can run; B10 the presence tests of two different EBLIF.* keys on an element's data are not arms of one if / elif chain; B11 the reader turns a port it found by name into INOUT only under a test of the direction the port has.")
def check_c18(ctx, R):
    P = ctx.P
    R.rule("B2''", "directive agreement")
    R.rule("B5", "instance category agreement")
    R.rule("B4''", "EBLIF.* metadata-key agreement")
    R.rule("B1''", ".model / .end pairing")
    R.rule("B6", "mutation-safe iteration in the reader's wire merge; emitted indices are true positions")
    comp = P.module(BC)
    pars = P.module(BP)
    toks = P.module(BT)
    tokvals = {k: v.value for k, v in toks.assigns.items() if isinstance(v, ast.Constant) and isinstance(v.value, str)}
    # directives the reader dispatches on: token constants compared with the current token in the parser
    reader_dirs = set()
    for n in ast.walk(pars.tree):
        if isinstance(n, ast.Attribute) and norm(n.value) == "et" and n.attr in tokvals and tokvals[n.attr].startswith("."):
            reader_dirs.add(tokvals[n.attr])
    if len(reader_dirs) < 8:
        raise AnalysisError("anchor vanished: directive constants used by the EBLIF reader (%d)" % len(reader_dirs))
    emitted = set()
    for s in _str_consts(comp.tree):
        for w in s.replace("\n", " ").split():
            if w.startswith(".") and len(w) > 1 and w[1:].replace("_", "").isalpha():
                emitted.add(w)
    R.count("directives emitted by the EBLIF writer (B2'')", len(emitted))
    R.floor("directives emitted by the EBLIF writer (B2'')", 8)
    for d in sorted(emitted):
        if d in reader_dirs:
            R.ok("B2''", d)
        else:
            R.bad("B2''", "directive|%s" % d, BC, "the writer emits the directive `%s`, which the reader does not dispatch on (it knows %s)" % (d, ", ".join(sorted(reader_dirs))))
    # B5 categories
    assigned = set()
    for n in ast.walk(pars.tree):
        if isinstance(n, ast.Assign) and isinstance(n.targets[0], ast.Subscript) and isinstance(n.targets[0].slice, ast.Constant) and n.targets[0].slice.value == "EBLIF.type" \
                and isinstance(n.value, ast.Constant):
            assigned.add(n.value.value)
        if isinstance(n, ast.Dict):
            for k, v in zip(n.keys, n.values):
                if isinstance(k, ast.Constant) and k.value == "EBLIF.type" and isinstance(v, ast.Constant):
                    assigned.add(v.value)
    cc = P.cls(BC, "EBLIFComposer")
    ci = cc.methods.get("compose_instances")
    if ci is None:
        raise AnalysisError("anchor vanished: EBLIFComposer.compose_instances")
    handled = {c for c in _str_consts(ci.node) if c.startswith("EBLIF.")}
    R.count("EBLIF.type categories assigned by the reader (B5)", len(assigned))
    R.floor("EBLIF.type categories assigned by the reader (B5)", 3)
    for c in sorted(assigned):
        if c in handled:
            R.ok("B5", "%s handled by compose_instances" % c)
        else:
            R.bad("B5", "category|%s" % c, ci.loc(), "the reader tags instances %s but compose_instances has no branch for it: such instances are silently dropped when the netlist is written" % c)
    # each handled category is written by a call whose list argument is that category's list
    for n in walk_local(ci.node):
        if isinstance(n, ast.If) and isinstance(n.test, ast.Compare) and isinstance(n.test.left, ast.Constant):
            cat = n.test.left.value
            dvar = norm(n.test.comparators[0].func.value) if isinstance(n.test.comparators[0], ast.Call) and isinstance(n.test.comparators[0].func, ast.Attribute) else norm(n.test.comparators[0])
            subs = [norm(x.slice) for s in n.body for x in ast.walk(s) if isinstance(x, ast.Subscript) and norm(x.value) == dvar]
            if subs and all(s == repr(cat) for s in subs):
                R.ok("B5", "branch %s writes categories[%s]" % (cat, cat), ci.loc(n))
            else:
                R.bad("B5", "branch|%s" % cat, ci.loc(n), "the branch for %s writes %s" % (cat, ", ".join(subs) or "nothing"))
    # B5b: statement kinds survive: the directive a category is written with is the directive the reader turns into that category
    _kind_round_trip(P, R, pars, cc, ci)
    # B9: an actual recognised as the open marker is joined to nothing
    _open_actuals_stay_open(P, R, pars)
    _merged_directions(P, R, pars)
    # B10: independent metadata is written independently
    _independent_keys(P, R, comp)
    # B4''
    stored = set()
    for n in ast.walk(pars.tree):
        if isinstance(n, ast.Subscript) and isinstance(n.ctx, ast.Store) and isinstance(n.slice, ast.Constant) and isinstance(n.slice.value, str) and n.slice.value.startswith("EBLIF."):
            stored.add(n.slice.value)
    read = {c for c in _str_consts(comp.tree) if c.startswith("EBLIF.")}
    R.count("EBLIF.* keys stored by the reader (B4'')", len(stored))
    R.floor("EBLIF.* keys stored by the reader (B4'')", 5)
    for k in sorted(stored):
        if k in read:
            R.ok("B4''", "%s read by the writer" % k)
        elif k in E_KEYS_NOT_WRITTEN:
            R.ok("B4''", "%s not written: %s" % (k, E_KEYS_NOT_WRITTEN[k]))
        else:
            R.bad("B4''", "key|%s" % k, BC, "the reader stores %s but the writer never reads it: that data is lost on write-then-read" % k)
    # B1'' .model ... .end
    n_models = 0
    for f in cc.methods.values():
        writes_model = [c for c in walk_local(f.node) if isinstance(c, ast.Constant) and isinstance(c.value, str) and ".model " in c.value]
        if not writes_model:
            continue
        n_models += 1
        cfg = cfg_of(f.node)
        from ..cfg import forward

        def tr(n_, st):
            ex, tg = node_exprs(n_)
            txt = " ".join(norm(e) for e in ex)
            if ".model " in txt:
                st = "open"
            if "compose_end" in txt or ".end" in txt:
                st = "closed"
            return st

        rank = {"none": 0, "closed": 0, "open": 1}
        state = forward(cfg, "none", tr, lambda a, b: a if rank[a] >= rank[b] else b, follow=lambda n_, s, l: l != "exc")
        if state.get(cfg.exit.id) == "open":
            R.bad("B1''", "%s|model-without-end" % f.key, f.loc(), "%s writes `.model` and can return without writing `.end`: the next model is read as part of this one" % f.qualname)
        else:
            R.ok("B1''", "%s closes every .model with .end" % f.qualname, f.loc())
    R.count("methods writing .model (B1'')", n_models)
    R.floor("methods writing .model (B1'')", 2)
    # B6: loops that disconnect / reconnect pins while iterating the same wire's pins must iterate a snapshot
    pc = P.cls(BP, "EBLIFParser")
    n6 = 0
    for f in pc.methods.values():
        for lp in walk_local(f.node):
            if isinstance(lp, ast.For):
                it = lp.iter
                src = None
                if isinstance(it, ast.Attribute) and it.attr == "pins":
                    src = it
                elif isinstance(it, ast.Name):
                    for a in walk_local(f.node):
                        if isinstance(a, ast.Assign) and norm(a.targets[0]) == it.id and isinstance(a.value, ast.Attribute) and a.value.attr == "pins":
                            src = a.value
                if src is None:
                    continue
                lv = norm(lp.target)
                mutates = [c for s in lp.body for c in ast.walk(s) if isinstance(c, ast.Call) and isinstance(c.func, ast.Attribute)
                           and ((c.func.attr in ("disconnect_pin", "connect_pin", "remove_pin") and norm(c.func.value) == norm(src.value))
                                or (c.func.attr == "disconnect_pin" and c.args and norm(c.args[0]) == lv))]
                if not mutates:
                    continue
                n6 += 1
                R.bad("B6", "%s|live-iteration|%s" % (f.key, norm(src)), f.loc(lp),
                      "%s iterates `%s` (a live view) while `%s` changes that very list: every second pin is skipped and stays on a wire that is then discarded" % (f.qualname, norm(src), short(mutates[0], 40)))
            if isinstance(lp, ast.For) and isinstance(lp.iter, ast.Name):
                for a in walk_local(f.node):
                    if isinstance(a, ast.Assign) and norm(a.targets[0]) == lp.iter.id and isinstance(a.value, ast.Call) and isinstance(a.value.func, ast.Attribute) \
                            and a.value.func.attr == "copy" and norm(a.value.func.value).endswith(".pins"):
                        if any(isinstance(c, ast.Call) and isinstance(c.func, ast.Attribute) and c.func.attr in ("disconnect_pin", "connect_pin") for s in lp.body for c in ast.walk(s)):
                            n6 += 1
                            R.ok("B6", "%s iterates a snapshot of %s" % (f.qualname, norm(a.value.func.value)), f.loc(lp))
    n6 += _position_counters(ctx, R, cc, "B6", 0)
    # indices written next to a net name come from the wire's position, not the pin's
    for f in cc.methods.values():
        for c in walk_local(f.node):
            if isinstance(c, ast.Call) and isinstance(c.func, ast.Attribute) and c.func.attr == "index" and not c.args:
                recv = norm(c.func.value)
                n6 += 1
                ctx_txt = ""
                for p_ in parent_chain(c):
                    if isinstance(p_, (ast.If, ast.For)):
                        ctx_txt += " " + norm(p_)
                        if isinstance(p_, ast.For):
                            break
                if recv.endswith("pin") and ("wire.cable" in ctx_txt or "cable.name" in ctx_txt or ".wire" in ctx_txt):
                    R.bad("B6", "%s|pin-index-for-net|%s" % (f.key, recv), f.loc(c),
                          "%s writes `%s.index()` next to a net name: the bit index of a net is the wire's position in its cable, not the pin's position in its port" % (f.qualname, recv))
                else:
                    R.ok("B6", "%s: %s.index()" % (f.qualname, recv), f.loc(c))
    R.count("merge loops / emitted indices (B6)", n6)
    R.floor("merge loops / emitted indices (B6)", 2)
    # B7: a bus grown on demand to hold bit I is then read at bit I
    R.rule("B7", "grow-then-index agreement: `while len(X.f) < I + 1: X.create_…()` is followed by `X.f[I]` with the same I")
    n7 = 0
    for f in pars.all_funcs():
        for w in walk_local(f.node):
            if not (isinstance(w, ast.While) and isinstance(w.test, ast.Compare) and len(w.test.ops) == 1 and isinstance(w.test.ops[0], ast.Lt)
                    and isinstance(w.test.left, ast.Call) and norm(w.test.left.func) == "len" and w.test.left.args
                    and isinstance(w.test.left.args[0], ast.Attribute)):
                continue
            lst_ = norm(w.test.left.args[0])
            bound = w.test.comparators[0]
            idx = None
            if isinstance(bound, ast.BinOp) and isinstance(bound.op, ast.Add):
                if isinstance(bound.right, ast.Constant) and bound.right.value == 1:
                    idx = norm(bound.left)
                elif isinstance(bound.left, ast.Constant) and bound.left.value == 1:
                    idx = norm(bound.right)
            if idx is None:
                continue
            par = getattr(w, "_parent", None)
            blk = None
            for b in ("body", "orelse", "finalbody"):
                if w in getattr(par, b, []):
                    blk = getattr(par, b)
            if blk is None:
                continue
            use = None
            for st in blk[blk.index(w) + 1:]:
                for x in ast.walk(st):
                    if isinstance(x, ast.Subscript) and norm(x.value) == lst_ and not isinstance(x.slice, ast.Slice):
                        use = x
                        break
                if use is not None or any(isinstance(x, ast.Name) and isinstance(x.ctx, ast.Store) and x.id in (idx, lst_.split(".")[0]) for x in ast.walk(st)):
                    break
            if use is None:
                continue
            n7 += 1
            if norm(use.slice) == idx:
                R.ok("B7", "%s: %s grown for and read at [%s]" % (f.qualname, lst_, idx), f.loc(use))
            else:
                R.bad("B7", "%s|%s grown for %s" % (f.key, lst_, idx), f.loc(use),
                      "%s grows `%s` until it can hold bit `%s` and then reads `%s`: the bit that is connected is not the one the text names "
                      "(or the read runs off the end of the bus)" % (f.qualname, lst_, idx, norm(use)))
    R.count("grow-then-index sites (B7)", n7)
    R.floor("grow-then-index sites (B7)", 4)
    # B8: a bit reference `name[index]` is split once into (name, index); wherever the two halves are handed on side by side they
    # are the halves of the same reference
    R.rule("B8", "name / index pairs stay together: adjacent (name, index) arguments come from the same split of one bit reference")
    n8 = 0
    for f in pars.all_funcs():
        fams = {}
        for a in walk_local(f.node):
            if isinstance(a, ast.Assign) and len(a.targets) == 1 and isinstance(a.targets[0], ast.Tuple) and len(a.targets[0].elts) == 2 \
                    and all(isinstance(e, ast.Name) for e in a.targets[0].elts) and isinstance(a.value, ast.Call):
                fams[id(a)] = a

        def part(e, at, depth=0):
            """(family assign, position 0/1) the expression stands for, through `x = int(x)`-style rebinding"""
            while isinstance(e, ast.Call) and norm(e.func) in ("int", "str") and e.args:
                e = e.args[0]
            if not isinstance(e, ast.Name) or depth > 4:
                return None
            ra = reaching_assign(at, e.id, unpack=True)
            if ra is None:
                return None
            if id(ra) in fams:
                names = [x.id for x in ra.targets[0].elts]
                return (ra, names.index(e.id)) if e.id in names else None
            if isinstance(ra.targets[0], ast.Name):
                return part(ra.value, ra, depth + 1)
            return None
        for c in walk_local(f.node):
            if not (isinstance(c, ast.Call) and isinstance(c.func, ast.Attribute) and norm(c.func.value) == "self"
                    and (len(c.args) >= 2 or any(isinstance(a, ast.Tuple) and len(a.elts) == 2 for a in c.args))):
                continue
            st = c
            while not isinstance(st, ast.stmt):
                st = getattr(st, "_parent")
            # (a pair handed over as one tuple argument `(name, index)` is the same two halves side by side)
            flat = [x for a in c.args for x in (a.elts if isinstance(a, ast.Tuple) else [a])]
            parts = [part(a, st) for a in flat]
            for k in range(len(parts) - 1):
                p0, p1 = parts[k], parts[k + 1]
                if p0 is None or p1 is None or p0[1] != 0 or p1[1] != 1:
                    continue
                if norm(p0[0].value.func) != norm(p1[0].value.func):
                    continue  # halves of different kinds of split
                n8 += 1
                if p0[0] is p1[0]:
                    R.ok("B8", "%s: `%s`, `%s` are the two halves of one reference" % (f.qualname, norm(flat[k]), norm(flat[k + 1])), f.loc(c))
                else:
                    R.bad("B8", "%s|%s(%s, %s)" % (f.key, c.func.attr, norm(flat[k]), norm(flat[k + 1])), f.loc(c),
                          "%s passes the name of one bit reference (`%s`, from `%s`) together with the index of another (`%s`, from `%s`): the bit that is "
                          "connected is not the one the text names" % (f.qualname, norm(flat[k]), short(p0[0].value, 40), norm(flat[k + 1]), short(p1[0].value, 40)))
    R.count("name/index argument pairs (B8)", n8)
    R.floor("name/index argument pairs (B8)", 4)


def _connect_skeletons(P):
    """[(func, loop, canonical text)] for the loops of the Verilog reader that connect the wires of a port-map expression to the pins of
    an instance port: the statements of the enclosing block that decide which pin each wire meets (sorting of the pin list, offset,
    the connect itself), with the local names replaced by roles"""
    out = []
    mod = P.module(VP)
    from ..inline import inlined_view
    for f in mod.all_funcs():
        f = inlined_view(P, f)  # a helper shared by the two readers is read in each of them
        # the readers of instance port maps: they parse a connection expression and order the pins most-significant first
        if not any(isinstance(c, ast.Call) and isinstance(c.func, ast.Attribute) and c.func.attr == "parse_cable_concatenation" for c in walk_local(f.node)) or \
                not any(isinstance(c, ast.Call) and ((isinstance(c.func, ast.Attribute) and c.func.attr == "sort") or norm(c.func) == "sorted")
                        and any(k.arg == "reverse" and isinstance(k.value, ast.Constant) and k.value.value is True for k in c.keywords) for c in walk_local(f.node)) or \
                not any(isinstance(x, ast.Attribute) and "instance" in x.attr for x in walk_local(f.node)):
            continue
        for lp in walk_local(f.node):
            if not isinstance(lp, ast.For):
                continue
            conn = [c for st in lp.body for c in ast.walk(st) if isinstance(c, ast.Call) and isinstance(c.func, ast.Attribute) and c.func.attr == "connect_pin" and c.args]
            if len(conn) != 1:
                continue
            c = conn[0]
            # the loop pairs wire number k of W with a pin of P.  Forms:  for i in range(len(W)): W[i] … P[e]
            #                                                           for i, w in enumerate(W[, s]): w … P[e]      (i = k + s)
            #                                                           for …, w, p, … in zip(…, W, P[o:], …): w … p
            pins = wires = None
            start = None  # what the loop variable i is ahead of k by
            pin_index = None  # index expression into P, or ("slice", lower bound) for the zip form
            ivar = None
            it = lp.iter
            if isinstance(c.args[0], ast.Subscript) and isinstance(lp.target, ast.Name) and isinstance(c.func.value, ast.Subscript):
                pins, wires, ivar, pin_index = norm(c.args[0].value), norm(c.func.value.value), lp.target.id, c.args[0].slice
            elif isinstance(c.args[0], ast.Subscript) and isinstance(lp.target, ast.Tuple) and len(lp.target.elts) == 2 and isinstance(it, ast.Call) \
                    and norm(it.func) == "enumerate" and it.args and norm(lp.target.elts[1]) == norm(c.func.value):
                pins, wires, ivar, pin_index = norm(c.args[0].value), norm(it.args[0]), norm(lp.target.elts[0]), c.args[0].slice
                start = it.args[1] if len(it.args) > 1 else next((k.value for k in it.keywords if k.arg == "start"), None)
            elif isinstance(c.args[0], ast.Name) and isinstance(lp.target, ast.Tuple) and isinstance(it, ast.Call) and norm(it.func) == "zip" \
                    and len(it.args) == len(lp.target.elts):
                tnames = [norm(t) for t in lp.target.elts]
                if norm(c.args[0]) not in tnames or norm(c.func.value) not in tnames:
                    continue
                parg = it.args[tnames.index(norm(c.args[0]))]
                wires = norm(it.args[tnames.index(norm(c.func.value))])
                if isinstance(parg, ast.Subscript) and isinstance(parg.slice, ast.Slice) and parg.slice.upper is None and parg.slice.step is None:
                    pins, pin_index = norm(parg.value), ("slice", parg.slice.lower)
                else:
                    pins, pin_index = norm(parg), ("slice", None)
            else:
                continue
            par = getattr(lp, "_parent", None)
            blk = next((getattr(par, fld) for fld in ("body", "orelse") if lp in getattr(par, fld, [])), None)
            if blk is None:
                continue

            def offset_class(e):
                """0, "D" (= max(len(P) - len(W), 0)) or None for an offset expression"""
                if e is None or (isinstance(e, ast.Constant) and e.value == 0):
                    return 0
                want = ("len(%s)" % pins, "len(%s)" % wires)

                def is_diff(x):
                    return isinstance(x, ast.BinOp) and isinstance(x.op, ast.Sub) and (norm(x.left), norm(x.right)) == want

                def is_max(x):
                    return isinstance(x, ast.Call) and norm(x.func) == "max" and len(x.args) == 2 and not x.keywords and \
                        any(is_diff(a_) for a_ in x.args) and any(isinstance(a_, ast.Constant) and a_.value == 0 for a_ in x.args)
                if is_max(e):
                    return "D"
                if isinstance(e, ast.Name):
                    defs = [a for a in walk_local(f.node) if isinstance(a, ast.Assign) and len(a.targets) == 1 and norm(a.targets[0]) == e.id]
                    if not defs:
                        return None
                    if all(isinstance(a.value, ast.Constant) and a.value.value == 0 for a in defs):
                        return 0
                    if all(is_max(a.value) for a in defs):
                        return "D"
                    # offset = 0; if len(P) > len(W): offset = len(P) - len(W)
                    diff = [a for a in defs if is_diff(a.value)]
                    zero = [a for a in defs if isinstance(a.value, ast.Constant) and a.value.value == 0]
                    if diff and len(diff) + len(zero) == len(defs):
                        return "D"
                return None
            # abstract alignment: with the pins ordered most-significant first, wire k meets pin k ("high": the connection sits at the top of
            # the port) or pin k + max(len(P) - len(W), 0) ("low": at the bottom); None when the form is not one of those
            total = None
            s0 = offset_class(start)
            if isinstance(pin_index, tuple):
                total = offset_class(pin_index[1])
            elif isinstance(pin_index, ast.Name) and pin_index.id == ivar:
                total = s0
            elif isinstance(pin_index, ast.BinOp) and isinstance(pin_index.op, ast.Add) and ivar in (norm(pin_index.left), norm(pin_index.right)):
                other = pin_index.right if norm(pin_index.left) == ivar else pin_index.left
                oc = offset_class(other)
                total = None if oc is None or s0 is None else (oc if s0 == 0 else (s0 if oc == 0 else None))
            align = {0: "high", "D": "low"}.get(total)
            keep = [norm(lp)]
            out.append((f, lp, " ; ".join(keep), align))
    return out
