"""C08 (uniquify) and C09 (flatten) — narrow structural clauses of the two hierarchy transformations.

Both are short work-list algorithms.  What is decided here is the part of each property whose truth is in the shape of
the code on every path: closure and ordering of the work list, placement / re-pointing / naming of what is created or
moved, agreement of the parallel queues, snapshot iteration while moving, disconnect-before-merge pairing, removal of
the emptied shells.  That the elaborated design is the same before and after is a graph property of runtime netlists
and is NOT decided."""
import ast
import re

from ..core import AnalysisError, norm, short, walk_local, parent_chain, reaching_assign
from ..cfg import cfg_of, forward, Branch, node_exprs
from . import register

UNIQ = "spydrnet/uniquify.py"
FLAT = "spydrnet/flatten.py"


# -- small helpers -------------------------------------------------------------------------------
def _calls(node, pred):
    return [c for c in ast.walk(node) if isinstance(c, ast.Call) and pred(c)]


def _is_method(c, name):
    return isinstance(c.func, ast.Attribute) and c.func.attr == name


def _stmt_of(node):
    if isinstance(node, ast.stmt):
        return node
    for p in parent_chain(node):
        if isinstance(p, ast.stmt):
            return p
    return None


def _must(f, gen, kill=None, init=False):
    """forward must-dataflow over f's CFG: {node id: fact holds on every path reaching the node};
    gen(node) / kill(node) decide what the node does to the fact (kill wins)."""
    cfg = cfg_of(f.node)

    def transfer(n, st):
        if kill is not None and kill(n):
            return False
        if gen(n):
            return True
        return st
    state = forward(cfg, init, transfer, lambda a, b: a and b, follow=lambda a_, b_, lab: lab != "exc")
    return cfg, state


def _node_has(n, pred):
    if n.ast is None:
        return False
    exprs, targets = node_exprs(n)
    for e in list(exprs) + list(targets):
        for x in ast.walk(e):
            if pred(x):
                return True
    return False


def _work_loop(f):
    """the `while <queue not empty>: x = <queue>.popleft()/pop()` loop of a work-list function: (loop, [(queue, var, pop stmt)])"""
    for w in walk_local(f.node):
        if not isinstance(w, ast.While):
            continue
        pops = []
        for st in w.body:
            if isinstance(st, ast.Assign) and len(st.targets) == 1 and isinstance(st.targets[0], ast.Name) and isinstance(st.value, ast.Call) \
                    and isinstance(st.value.func, ast.Attribute) and st.value.func.attr in ("popleft", "pop") and isinstance(st.value.func.value, ast.Name) \
                    and (pops or st.value.func.value.id in norm(w.test)):
                pops.append((st.value.func.value.id, st.targets[0].id, st))
            elif pops:
                break
        if pops:
            return w, pops
    return None, []


def _counter_functions(mod):
    """module functions that hand out a fresh suffix from a module-level counter: {name: (func, counter name)}"""
    out = {}
    for fn, f in mod.functions.items():
        globs = {g for x in walk_local(f.node) if isinstance(x, ast.Global) for g in x.names}
        rets = [r for r in walk_local(f.node) if isinstance(r, ast.Return) and r.value is not None]
        reads = [g for g in sorted(globs) if any(isinstance(x, ast.Name) and x.id == g and isinstance(x.ctx, ast.Load) for x in walk_local(f.node))]
        if len(globs) == 1 and reads and rets:
            out[fn] = (f, reads[0])
    return out


def _check_counter(R, rid, f, counter):
    """a fresh-name counter: every call returns a string that contains the counter's value, and advances the counter exactly once"""
    cfg = cfg_of(f.node)

    def transfer(n, st):
        if n.kind == "stmt" and isinstance(n.ast, ast.AugAssign) and norm(n.ast.target) == counter:
            return frozenset(min(x + 1, 2) for x in st)
        return st
    state = forward(cfg, frozenset([0]), transfer, lambda a, b: a | b, follow=lambda a_, b_, lab: lab != "exc")
    at_exit = state.get(cfg.exit.id, frozenset())
    reads = False
    for a in walk_local(f.node):
        if isinstance(a, (ast.Assign, ast.Return)) and a.value is not None and any(isinstance(x, ast.Name) and x.id == counter for x in ast.walk(a.value)):
            reads = True
    if at_exit == frozenset([1]) and reads:
        R.ok(rid, "%s hands out the value of `%s` and advances it exactly once per call" % (f.qualname, counter), f.loc())
    else:
        R.bad(rid, "%s|counter %s" % (f.key, counter), f.loc(),
              "%s does not advance `%s` exactly once on every path (%s) or does not use its value: two calls can return the same suffix, so two "
              "generated names collide" % (f.qualname, counter, "increments per call: %s" % sorted(at_exit)))


def _boundary_pin_left_behind(pl, d_in, d_out, iw, ow):
    """every way through one iteration of the port-pin loop `pl` disconnects the port pin from the inner net unless that net is known
    to be missing, and the instance pin from the outer net unless that one is; returns the side left behind, or None"""
    from ..paths import stmt_paths
    from ..core import copy_tree
    marks = {}
    for nm, c in (("in", d_in), ("out", d_out)):
        st = _stmt_of(c)
        marks[norm(st)] = nm

    def swap(stmts):
        out = []
        for st in stmts:
            if isinstance(st, ast.Expr) and norm(st) in marks:
                out.append(ast.copy_location(ast.Assign(targets=[ast.Name(id="__done_" + marks[norm(st)], ctx=ast.Store())], value=ast.Constant(value=True)), st))
                continue
            if isinstance(st, (ast.For, ast.While)):
                out.append(st)
                continue
            for fld in ("body", "orelse"):
                sub = getattr(st, fld, None)
                if isinstance(sub, list) and sub and isinstance(sub[0], ast.stmt):
                    setattr(st, fld, swap(sub))
            out.append(st)
        return out
    body = swap(copy_tree(list(pl.body)))
    for oc, fa, df in stmt_paths(body, frozenset(), {}, None, None, opaque_loops=True):
        if oc is None:
            return None
        if oc == "raise":
            continue
        from ..paths import expand
        if any(a.startswith("falsy(") and ("truthy(" + a[len("falsy("):]) in fa for a in fa):
            continue  # the same local tested twice with different outcomes: not a way through the body
        for side, w in (("in", iw), ("out", ow)):
            names = {w, expand(w, df)}
            missing = any(a in fa for x in names for a in ("falsy(%s)" % x, "is(%s,None)" % x))
            if not missing and ("__done_" + side) not in df:
                return "port pin" if side == "in" else "instance pin"
    return None


def _recorded_exactly_for_non_leaves(w, st_sh):
    """every way through one iteration of the work loop `w` records the instance for removal (statement st_sh) exactly when the leaf
    test came out false; None when the loop body is outside what path enumeration models"""
    from ..paths import stmt_paths
    from ..core import copy_tree
    mark = ast.Assign(targets=[ast.Name(id="__recorded", ctx=ast.Store())], value=ast.Constant(value=True))
    want = norm(st_sh)
    hit = [0]

    def swap(stmts):
        out = []
        for st in stmts:
            if norm(st) == want and isinstance(st, ast.Expr):
                hit[0] += 1
                out.append(ast.copy_location(copy_tree(mark), st))
                continue
            if isinstance(st, (ast.For, ast.While)):
                out.append(st)  # nested loops are opaque to the enumeration
                continue
            for fld in ("body", "orelse"):
                sub = getattr(st, fld, None)
                if isinstance(sub, list) and sub and isinstance(sub[0], ast.stmt):
                    setattr(st, fld, swap(sub))
            out.append(st)
        return out
    body = swap(copy_tree(list(w.body)))
    if hit[0] != 1:
        return None
    n = 0
    for oc, fa, df in stmt_paths(body, frozenset(), {}, None, None, opaque_loops=True):
        if oc is None:
            return None
        if oc == "raise":
            continue
        if oc not in ("fall", "continue"):
            return False  # leaves the work loop for good
        n += 1
        leaf = any(re.match(r"truthy\(.*\.is_leaf\(\)\)$", a) for a in fa)
        nonleaf = any(re.match(r"(falsy\(.*\.is_leaf\(\)\)|(is|eq)\(.*\.is_leaf\(\),False\))$", a) for a in fa)
        recorded = "__recorded" in df
        if recorded != nonleaf or (not leaf and not nonleaf):
            return False
    return n > 0


def _number(node):
    """document order of the nodes of a view: line numbers do not order code that was spliced in from elsewhere"""
    i = 0
    todo = [node]
    while todo:
        n = todo.pop()
        n._ord = i
        i += 1
        todo.extend(reversed(list(ast.iter_child_nodes(n))))


def _pos(n):
    o = getattr(n, "_ord", None)
    if o is None:
        # a node of a tree that was not numbered yet: number its function
        root = n
        while getattr(root, "_parent", None) is not None and not isinstance(root, (ast.FunctionDef, ast.AsyncFunctionDef)):
            root = root._parent
        _number(root)
        o = getattr(n, "_ord", 0)
    return o


def _canon(P, f, keep=()):
    """view of a work-list function in one canonical form: private helpers spliced in (except `keep`), single-assignment aliases of
    attribute chains substituted, `Q.extend(E)` / `Q = deque(E)` written as loops of `Q.append(...)`, adjacent loops over the same
    collection merged — so that the rules below see one shape whichever idiom the maintainer prefers"""
    from ..inline import inlined_view
    from ..core import FuncInfo, copy_tree
    g = inlined_view(P, f, keep=keep)
    node = copy_tree(g.node)
    # work items built with a module-level namedtuple are read as the tuples they are (the queue rules unpack them positionally)
    nts = {nm for nm, v in f.module.assigns.items() if isinstance(v, ast.Call) and norm(v.func).split(".")[-1] in ("namedtuple", "NamedTuple")}
    if nts:
        class NT(ast.NodeTransformer):
            def visit_Call(self, n):
                self.generic_visit(n)
                if isinstance(n.func, ast.Name) and n.func.id in nts and n.args and not n.keywords:
                    return ast.copy_location(ast.Tuple(elts=list(n.args), ctx=ast.Load()), n)
                return n
        node = NT().visit(node)
    # aliases: a single-assignment local that holds a plain attribute read (`ref = inst.reference`) or a copy of another
    # single-assignment local is replaced by what it stands for at the uses that follow — but only where nothing in between could have
    # changed what the attribute read gives (a call that receives the root object, a store to one of its attributes): `children =
    # inst.reference.children` taken before the instance is re-pointed is not the same as reading it afterwards
    stores = {}
    for n in ast.walk(node):
        if isinstance(n, ast.Name) and isinstance(n.ctx, ast.Store):
            stores[n.id] = stores.get(n.id, 0) + 1
    params = {a_.arg for a_ in node.args.args}
    _number(node)

    def root_of(e):
        while isinstance(e, ast.Attribute):
            e = e.value
        return e.id if isinstance(e, ast.Name) else None
    alias = {}
    for n in ast.walk(node):
        if not (isinstance(n, ast.Assign) and len(n.targets) == 1):
            continue
        pairs = []
        if isinstance(n.targets[0], ast.Name):
            pairs = [(n.targets[0], n.value)]
        elif isinstance(n.targets[0], ast.Tuple) and isinstance(n.value, ast.Tuple) and len(n.targets[0].elts) == len(n.value.elts) \
                and all(isinstance(t, ast.Name) for t in n.targets[0].elts):
            pairs = list(zip(n.targets[0].elts, n.value.elts))
        for t, v in pairs:
            if stores.get(t.id) != 1 or t.id in params:
                continue
            r = root_of(v)
            if r is None or not (stores.get(r, 0) <= 1):
                continue
            if isinstance(v, ast.Name) and stores.get(v.id) == 1 and re.search(r"__[gi]\d+$", v.id):
                alias[t.id] = (v, n._ord)  # a copy of a local the inliner introduced (walker generator fused with its consumer)
            elif isinstance(v, ast.Attribute) and v.attr in ("children", "cables", "ports", "pins", "reference", "name"):
                alias[t.id] = (v, n._ord)
    disturb = []  # (first ord, last ord, root name): constructs that may change what `root.attr…` reads as
    for n in ast.walk(node):
        last = max(getattr(x, "_ord", 0) for x in ast.walk(n)) if isinstance(n, (ast.Call, ast.Assign, ast.AugAssign, ast.Delete)) else 0
        if isinstance(n, ast.Call):
            for a_ in n.args:
                if isinstance(a_, ast.Name):
                    disturb.append((n._ord, last, a_.id))
            if isinstance(n.func, ast.Attribute) and isinstance(n.func.value, ast.Name):
                disturb.append((n._ord, last, n.func.value.id))
        elif isinstance(n, (ast.Assign, ast.AugAssign, ast.Delete)):
            tg = n.targets if isinstance(n, (ast.Assign, ast.Delete)) else [n.target]
            for t in tg:
                for x in ast.walk(t):
                    if isinstance(x, ast.Attribute) and isinstance(x.ctx, (ast.Store, ast.Del)) and root_of(x) is not None:
                        disturb.append((n._ord, last, root_of(x)))

    def resolve(name, at, depth=0):
        """what `name`, read at position `at`, stands for (an expression), or None"""
        if name not in alias or depth > 4:
            return None
        v, d = alias[name]
        if not d < at:
            return None
        if isinstance(v, ast.Attribute):
            r = root_of(v)
            # the root itself may be an alias (ref = inst.reference; kids = ref.children)
            names = {r}
            if any(d < first and last < at and rn in names for first, last, rn in disturb):
                return None
        out = copy_tree(v)
        # resolve the root of the chain in turn
        r = root_of(v)
        inner = resolve(r, d, depth + 1) if r is not None else None
        if inner is not None:
            class S(ast.NodeTransformer):
                def visit_Name(self, x):
                    return copy_tree(inner) if x.id == r and isinstance(x.ctx, ast.Load) else x
            out = S().visit(out)
            if isinstance(inner, ast.Attribute) or isinstance(v, ast.Attribute):
                r2 = root_of(out)
                if any(d < first and last < at and rn == r2 for first, last, rn in disturb):
                    return None
        return out

    class A(ast.NodeTransformer):
        def visit_Name(self, n):
            if isinstance(n.ctx, ast.Load) and n.id in alias:
                e = resolve(n.id, n._ord)
                if e is not None:
                    return ast.copy_location(e, n)
            return n
    node = A().visit(node)

    class Pub(ast.NodeTransformer):
        """reads of a container's private field (spliced in from a private IR helper) are reads of the public view of the same list"""
        def visit_Attribute(self, n):
            self.generic_visit(n)
            if isinstance(n.ctx, ast.Load) and n.attr in ("_pins", "_wires", "_cables", "_children", "_ports", "_references"):
                n.attr = n.attr[1:]
            return n
    if getattr(g, "inlined_helpers", None):
        node = Pub().visit(node)
    counter = [0]

    def loop_over(coll, q, elem, at):
        if elem is None and isinstance(coll, ast.GeneratorExp) and len(coll.generators) == 1 and not coll.generators[0].ifs:
            # Q.extend(<elt> for <t> in <iter>)  ->  for <t> in <iter>: Q.append(<elt>)
            g0 = coll.generators[0]
            body = ast.Expr(value=ast.Call(func=ast.Attribute(value=ast.Name(id=q, ctx=ast.Load()), attr="append", ctx=ast.Load()), args=[coll.elt], keywords=[]))
            lp = ast.For(target=g0.target, iter=g0.iter, body=[body], orelse=[])
            return ast.fix_missing_locations(ast.copy_location(lp, at))
        counter[0] += 1
        v = "_v%d" % counter[0]
        body = ast.Expr(value=ast.Call(func=ast.Attribute(value=ast.Name(id=q, ctx=ast.Load()), attr="append", ctx=ast.Load()),
                                       args=[elem if elem is not None else ast.Name(id=v, ctx=ast.Load())], keywords=[]))
        lp = ast.For(target=ast.Name(id=v, ctx=ast.Store()), iter=coll, body=[body], orelse=[])
        return ast.fix_missing_locations(ast.copy_location(lp, at))

    def rewrite(stmts):
        out = []
        for st in stmts:
            for fld in ("body", "orelse", "finalbody"):
                sub = getattr(st, fld, None)
                if isinstance(sub, list) and sub and isinstance(sub[0], ast.stmt):
                    setattr(st, fld, rewrite(sub))
            rep = None
            if isinstance(st, ast.Expr) and isinstance(st.value, ast.Call) and isinstance(st.value.func, ast.Attribute) and st.value.func.attr == "extend" \
                    and isinstance(st.value.func.value, ast.Name) and len(st.value.args) == 1:
                q, e = st.value.func.value.id, st.value.args[0]
                if isinstance(e, ast.BinOp) and isinstance(e.op, ast.Mult) and isinstance(e.left, ast.List) and len(e.left.elts) == 1 \
                        and isinstance(e.right, ast.Call) and norm(e.right.func) == "len" and e.right.args:
                    rep = [loop_over(e.right.args[0], q, e.left.elts[0], st)]
                else:
                    rep = [loop_over(e, q, None, st)]
            elif isinstance(st, ast.Assign) and len(st.targets) == 1 and isinstance(st.targets[0], ast.Name) and isinstance(st.value, ast.Call) \
                    and norm(st.value.func) in ("deque", "collections.deque") and len(st.value.args) == 1:
                q = st.targets[0].id
                empty = ast.Assign(targets=[ast.Name(id=q, ctx=ast.Store())], value=ast.Call(func=st.value.func, args=[], keywords=[]))
                rep = [ast.fix_missing_locations(ast.copy_location(empty, st)), loop_over(st.value.args[0], q, None, st)]
            out.extend(rep if rep is not None else [st])
        # merge adjacent append-only loops over the same collection
        merged = []
        for st in out:
            if merged and isinstance(st, ast.For) and isinstance(merged[-1], ast.For) and norm(st.iter) == norm(merged[-1].iter) \
                    and all(isinstance(b, ast.Expr) and isinstance(b.value, ast.Call) and isinstance(b.value.func, ast.Attribute) and b.value.func.attr == "append"
                            for b in st.body + merged[-1].body) and not st.orelse and not merged[-1].orelse:
                tv, pv = norm(st.target), norm(merged[-1].target)

                class Rn(ast.NodeTransformer):
                    def visit_Name(self, n):
                        return ast.copy_location(ast.Name(id=pv, ctx=n.ctx), n) if n.id == tv else n
                merged[-1].body.extend(Rn().visit(b) for b in st.body)
            else:
                merged.append(st)
        return merged
    node.body = rewrite(node.body)
    # a queue of (a, b) pairs is read as two queues that are, by construction, in step: Q.append((a, b)) -> Q.append(a); Q__2.append(b)
    # and `x, y = Q.popleft()` -> x = Q.popleft(); y = Q__2.popleft()
    pair_q = {n.value.func.value.id for n in ast.walk(node) if isinstance(n, ast.Assign) and len(n.targets) == 1 and isinstance(n.targets[0], ast.Tuple)
              and len(n.targets[0].elts) == 2 and isinstance(n.value, ast.Call) and isinstance(n.value.func, ast.Attribute)
              and n.value.func.attr in ("pop", "popleft") and isinstance(n.value.func.value, ast.Name)}

    def split(stmts):
        out = []
        for st in stmts:
            for fld in ("body", "orelse", "finalbody"):
                sub = getattr(st, fld, None)
                if isinstance(sub, list) and sub and isinstance(sub[0], ast.stmt):
                    setattr(st, fld, split(sub))
            if isinstance(st, ast.Expr) and isinstance(st.value, ast.Call) and isinstance(st.value.func, ast.Attribute) and st.value.func.attr == "append" \
                    and isinstance(st.value.func.value, ast.Name) and st.value.func.value.id in pair_q and st.value.args \
                    and isinstance(st.value.args[0], ast.Tuple) and len(st.value.args[0].elts) == 2:
                q = st.value.func.value.id
                for k, nm in enumerate((q, q + "__2")):
                    e_ = ast.Expr(value=ast.Call(func=ast.Attribute(value=ast.Name(id=nm, ctx=ast.Load()), attr="append", ctx=ast.Load()),
                                                 args=[st.value.args[0].elts[k]], keywords=[]))
                    out.append(ast.fix_missing_locations(ast.copy_location(e_, st)))
                continue
            if isinstance(st, ast.Assign) and len(st.targets) == 1 and isinstance(st.targets[0], ast.Tuple) and len(st.targets[0].elts) == 2 \
                    and isinstance(st.value, ast.Call) and isinstance(st.value.func, ast.Attribute) and st.value.func.attr in ("pop", "popleft") \
                    and isinstance(st.value.func.value, ast.Name) and st.value.func.value.id in pair_q:
                q = st.value.func.value.id
                for k, nm in enumerate((q, q + "__2")):
                    a_ = ast.Assign(targets=[st.targets[0].elts[k]], value=ast.Call(func=ast.Attribute(value=ast.Name(id=nm, ctx=ast.Load()), attr=st.value.func.attr, ctx=ast.Load()),
                                                                                 args=[], keywords=[]))
                    out.append(ast.fix_missing_locations(ast.copy_location(a_, st)))
                continue
            out.append(st)
        return out
    if pair_q:
        node.body = split(node.body)
    ast.fix_missing_locations(node)
    for parent in ast.walk(node):
        for child in ast.iter_child_nodes(parent):
            child._parent = parent
    node._parent = getattr(f.node, "_parent", None)
    _number(node)
    v = FuncInfo(f.name, f.qualname, f.module, f.cls, node, f.role, f.prop)
    v.inlined_helpers = list(getattr(g, "inlined_helpers", []))
    return v


# -- C08 -----------------------------------------------------------------------------------------
@register("C08",
          "Static analysis of uniquify.py (narrow claim; that the elaborated design is unchanged is a graph property of runtime netlists and "
          "is not decided): U1 the function that clones a shared definition puts the clone into the library read from the original "
          "reference before the instance is re-pointed, and re-points the instance to that clone, on every path; U2 generated names are "
          "fresh: the clone's name — and its EDIF identifier when it has one — is the original's plus a suffix from a counter that "
          "advances exactly once per call; U3 the work list is closed and ordered: seeded with every child of the top definition, every "
          "iteration queues every child of the instance's reference, reads that reference after the instance was made unique, and no path "
          "through the loop body skips the queueing; U4 the instance is made unique exactly when the uniqueness test on that same instance "
          "fails, and the test looks at the reference's set of instances and at leaf-ness.",
          ["uniquify's helper functions are identified by what they do (clone + re-point; counter + return), not by name"])
def check_c08(ctx, R):
    P = ctx.P
    mod = P.module(UNIQ)
    entry = mod.functions.get("uniquify")
    if entry is None:
        raise AnalysisError("anchor vanished: uniquify()")
    counters0 = _counter_functions(mod)
    views = {fn: _canon(P, f, keep=tuple(counters0)) for fn, f in mod.functions.items()}
    R.rule("U1", "the clone is placed in the original's library and the instance is re-pointed to it, on every path")
    R.rule("U2", "generated definition names (and EDIF identifiers) carry a suffix from a counter that advances once per call")
    R.rule("U3", "work list: seeded with all children of the top, closed under children of the (new) reference, no path skips the queueing")
    R.rule("U4", "an instance is made unique exactly when the uniqueness test on it fails")
    cloners = [f for f in views.values() if _calls(f.node, lambda c: _is_method(c, "clone")) and any(
        isinstance(a, ast.Assign) and isinstance(a.targets[0], ast.Attribute) and a.targets[0].attr == "reference" for a in walk_local(f.node))]
    names = {c.qualname for c in cloners}
    cloners = [c for c in cloners if not (set(c.inlined_helpers) & (names - {c.qualname}))]
    if len(cloners) != 1 or not cloners[0].params:
        raise AnalysisError("anchor vanished: the function of uniquify.py that clones a definition and re-points the instance (%d candidates)" % len(cloners))
    mk = cloners[0]
    inst = mk.params[0]
    # ---- U1
    cl = [a for a in walk_local(mk.node) if isinstance(a, ast.Assign) and isinstance(a.value, ast.Call) and _is_method(a.value, "clone")
          and isinstance(a.targets[0], ast.Name)]
    if len(cl) != 1:
        raise AnalysisError("U1: cannot identify the clone variable of %s" % mk.qualname)
    cvar = cl[0].targets[0].id
    cvars = {cvar}  # the clone under all the local names it is handed on by (`x = clone`; a helper's local returned into the caller's)
    grew = True
    while grew:
        grew = False
        for a in walk_local(mk.node):
            if isinstance(a, ast.Assign) and len(a.targets) == 1 and isinstance(a.targets[0], ast.Name) and isinstance(a.value, ast.Name) \
                    and a.value.id in cvars and a.targets[0].id not in cvars:
                cvars.add(a.targets[0].id)
                grew = True
    # the instance is whatever gets the clone as its reference (the parameter of a dedicated helper, or the work-list variable when the
    # cloning is written into the walk itself: `inst.reference = _make_unique_copy(inst.reference)`)
    rp_ = [a for a in walk_local(mk.node) if isinstance(a, ast.Assign) and len(a.targets) == 1 and isinstance(a.targets[0], ast.Attribute)
           and a.targets[0].attr == "reference" and norm(a.value) in cvars]
    if rp_ and isinstance(rp_[0].targets[0].value, ast.Name):
        inst = rp_[0].targets[0].value.id
    made = cl[0]  # the obligations arise where the clone is made: from there every way out re-points the instance and places the clone
    repoint = [a for a in walk_local(mk.node) if isinstance(a, ast.Assign) and norm(a.targets[0]) == "%s.reference" % inst]
    adds = _calls(mk.node, lambda c: _is_method(c, "add_definition") and c.args and norm(c.args[0]) in cvars)
    if not repoint or any(norm(a.value) not in cvars for a in repoint):
        R.bad("U1", "%s|re-point" % mk.key, mk.loc(repoint[0] if repoint else None),
              "%s does not assign the clone `%s` to `%s.reference`: the instance keeps sharing its definition (or is pointed at something else)" % (mk.qualname, cvar, inst))
    else:
        cfg, st = _must(mk, lambda n: n.ast is repoint[0], kill=lambda n: n.ast is made, init=True)
        if st.get(cfg.exit.id):
            R.ok("U1", "%s re-points `%s` to the clone on every path" % (mk.qualname, inst), mk.loc(repoint[0]))
        else:
            R.bad("U1", "%s|re-point path" % mk.key, mk.loc(repoint[0]), "%s: a path reaches the end without re-pointing the instance to the clone" % mk.qualname)
    if not adds:
        R.bad("U1", "%s|placement" % mk.key, mk.loc(), "%s never adds the clone to a library: the new definition is an orphan (no library, not written, "
              "not found by queries), and the netlist is no longer self-contained" % mk.qualname)
    else:
        add = adds[0]
        lib = add.func.value
        st_add = _stmt_of(add)
        cfg, st = _must(mk, lambda n: n.ast is st_add, kill=lambda n: n.ast is made, init=True)
        if not st.get(cfg.exit.id):
            R.bad("U1", "%s|placement path" % mk.key, mk.loc(add), "%s: a path reaches the end without adding the clone to a library" % mk.qualname)
        # the library is the ORIGINAL reference's: read from `<inst>.reference...library` before the re-point (afterwards the same
        # expression names the clone, whose library is None)
        src = lib
        via = None
        if isinstance(lib, ast.Name):
            via = reaching_assign(st_add, lib.id)
            src = via.value if via is not None else None
        txt = norm(src) if src is not None else ""
        reads_orig = txt.endswith(".library") and (txt.startswith("%s.reference" % inst) or (
            isinstance(src, ast.Attribute) and isinstance(src.value, ast.Name) and (lambda ra: ra is not None and norm(ra.value) == "%s.reference" % inst)(
                reaching_assign(via if via is not None else st_add, src.value.id))))
        bind = via if via is not None else st_add
        before = _pos(bind) < _pos(repoint[0]) if repoint else True
        if reads_orig and before:
            R.ok("U1", "%s adds the clone to the library of the original reference (`%s`, read before the re-point)" % (mk.qualname, txt), mk.loc(add))
        else:
            R.bad("U1", "%s|library" % mk.key, mk.loc(add),
                  "%s adds the clone to `%s`%s: the clone has to go into the library of the definition it was cloned from, read while the instance still "
                  "references that definition" % (mk.qualname, txt or norm(lib), "" if before else " (read after the instance was re-pointed, i.e. the clone's own library, None)"))
    # ---- U2
    counters = _counter_functions(mod)
    R.count("fresh-suffix counters (U2)", len(counters))
    R.floor("fresh-suffix counters (U2)", 1)
    for fn, (cf, counter) in sorted(counters.items()):
        _check_counter(R, "U2", cf, counter)
    name_sets = [a for a in walk_local(mk.node) if isinstance(a, ast.Assign) and norm(a.targets[0]) in {"%s.name" % c for c in cvars}]
    if not name_sets:
        R.bad("U2", "%s|no-name" % mk.key, mk.loc(), "%s never renames the clone: it carries the original's name, which add_definition refuses as a duplicate" % mk.qualname)

    def fresh(e, at):
        """the expression contains a call to a counter function, directly or through a local assigned from one"""
        for x in ast.walk(e):
            if isinstance(x, ast.Call) and isinstance(x.func, ast.Name) and x.func.id in counters:
                return True
            if isinstance(x, ast.Name) and x.id not in mk.params:
                ra = reaching_assign(at, x.id)
                if ra is not None and isinstance(ra.value, ast.Call) and isinstance(ra.value.func, ast.Name) and ra.value.func.id in counters:
                    return True
        return False

    def keeps_original(e, at, what):
        """the expression starts from the original's value (so the tree of instance names / the identifier stays recognisable)"""
        for x in ast.walk(e):
            if isinstance(x, ast.Name):
                ra = reaching_assign(at, x.id)
                if ra is not None and what(ra.value):
                    return True
            if what(x):
                return True
        return False
    for a in name_sets:
        if fresh(a.value, a) and keeps_original(a.value, a, lambda v: isinstance(v, ast.Attribute) and v.attr == "name"):
            R.ok("U2", "%s: clone name = original name + fresh suffix" % mk.qualname, mk.loc(a))
        else:
            R.bad("U2", "%s|name" % mk.key, mk.loc(a), "%s sets the clone's name to `%s`, which is not the original's name plus a suffix from the counter: "
                  "names of generated definitions collide (or lose the original name)" % (mk.qualname, short(a.value, 50)))
    id_sets = [a for a in walk_local(mk.node) if isinstance(a, ast.Assign) and isinstance(a.targets[0], ast.Subscript) and norm(a.targets[0].value) in cvars
               and isinstance(a.targets[0].slice, ast.Constant) and a.targets[0].slice.value == "EDIF.identifier"]
    if not id_sets:
        R.bad("U2", "%s|no-identifier" % mk.key, mk.loc(), "%s leaves the clone with the original's EDIF.identifier: in a netlist read from EDIF the library "
              "refuses the clone as a duplicate identifier" % mk.qualname)
    for a in id_sets:
        if fresh(a.value, a) and keeps_original(a.value, a, lambda v: isinstance(v, ast.Subscript) and isinstance(v.slice, ast.Constant) and v.slice.value == "EDIF.identifier"):
            R.ok("U2", "%s: clone identifier = original identifier + fresh suffix" % mk.qualname, mk.loc(a))
        else:
            R.bad("U2", "%s|identifier" % mk.key, mk.loc(a), "%s sets the clone's EDIF.identifier to `%s`, not the original identifier plus a fresh suffix" % (mk.qualname, short(a.value, 50)))
    # ---- U3 / U4
    # (when the cloning is part of the walk itself, the helpers that make the clone are read in place here as well)
    in_mk = {h_.split(".")[-1] for h_ in getattr(mk, "inlined_helpers", ())} if mk.key == entry.key else set()
    entry = _canon(P, entry, keep=tuple(counters0) + (mk.name,) + tuple(fn for fn in mod.functions if fn != "uniquify" and fn not in in_mk and any(
        isinstance(x, ast.Return) and x.value is not None for x in walk_local(mod.functions[fn].node))))
    w, pops = _work_loop(entry)
    if w is None:
        raise AnalysisError("anchor vanished: the work loop of uniquify()")
    queue, var, pop = pops[0]
    seeds = [lp for lp in walk_local(entry.node) if isinstance(lp, ast.For) and _pos(lp) < _pos(w) and norm(lp.iter).endswith(".children")
             and _calls(lp, lambda c: _is_method(c, "append") and norm(c.func.value) == queue and c.args and norm(c.args[0]) == norm(lp.target))]
    seed_ok = False
    for lp in seeds:
        root = lp.iter.value
        txt = norm(root)
        # the leading local is replaced by what it was assigned, a few levels deep: top_definition -> top_instance.reference ->
        # netlist.top_instance.reference (whatever the locals are called)
        at = lp
        for _ in range(4):
            e = root
            while isinstance(e, ast.Attribute):
                e = e.value
            if not isinstance(e, ast.Name):
                break
            ra = reaching_assign(at, e.id)
            if ra is None or ra.value is None:
                break
            txt = re.sub(r"^%s\b" % re.escape(e.id), norm(ra.value), txt)
            root = ast.parse(txt, mode="eval").body
            at = ra
        if txt.endswith("top_instance.reference") and not any(isinstance(x, (ast.If, ast.Break, ast.Continue)) for st in lp.body for x in ast.walk(st)):
            seed_ok = True
    if seed_ok:
        R.ok("U3", "the queue is seeded with every child of the top instance's definition", entry.loc(seeds[0]))
    else:
        R.bad("U3", "%s|seed" % entry.key, entry.loc(w), "uniquify does not seed its queue with every child of `netlist.top_instance.reference`: part of the hierarchy is never visited")
    mk_calls = _calls(w, lambda c: isinstance(c.func, ast.Name) and c.func.id == mk.name and c.args and norm(c.args[0]) == var)
    if not mk_calls and mk.key == entry.key:
        # the cloning is written into the walk itself: the place where the clone is made stands for the call
        mk_calls = [c for c in _calls(w, lambda c: _is_method(c, "clone"))][:1]
    child_loops = [lp for lp in walk_local(w) if isinstance(lp, ast.For) and norm(lp.iter) == "%s.reference.children" % var
                   and _calls(lp, lambda c: _is_method(c, "append") and norm(c.func.value) == queue and c.args and norm(c.args[0]) == norm(lp.target))]
    if not child_loops:
        R.bad("U3", "%s|no-descent" % entry.key, entry.loc(w), "the loop never queues the children of `%s.reference`: only the first level below the top is made unique" % var)
    else:
        cl_ = child_loops[0]
        filtered = any(isinstance(x, (ast.If, ast.Break, ast.Continue, ast.Return)) for st in cl_.body for x in ast.walk(st))
        # every path from the pop back to the loop head passes through the completed children loop
        cfg = cfg_of(entry.node)

        def transfer(n, st):
            if n.kind == "stmt" and n.ast is pop:
                return False
            return st

        def tr(n, st):
            st = transfer(n, st)
            if n.kind == "next" and n.ast is cl_:
                return Branch({"done": True, None: st})
            return st
        state = forward(cfg, True, tr, lambda a, b: a and b, follow=lambda a_, b_, lab: lab != "exc")
        head = [n for n in cfg.nodes if n.kind == "test" and n.ast is w]
        skipped = head and state.get(head[0].id) is False
        leaves_early = any(isinstance(x, (ast.Break, ast.Return)) for st in w.body for x in ast.walk(st) if not any(p is cl_ for p in parent_chain(x)))
        if filtered:
            R.bad("U3", "%s|descent filtered" % entry.key, entry.loc(cl_), "not every child of `%s.reference` is queued: the instances that are skipped keep sharing their definitions" % var)
        elif skipped or leaves_early:
            R.bad("U3", "%s|descent skipped" % entry.key, entry.loc(cl_),
                  "a path through the loop body goes on to the next instance (or leaves the loop) without queueing the children of `%s.reference`: "
                  "whatever lies below that instance is never made unique" % var)
        else:
            R.ok("U3", "every iteration queues every child of `%s.reference`" % var, entry.loc(cl_))
        # order: the children are read from the reference AFTER the instance was made unique
        if mk_calls:
            first = min(_pos(c) for c in mk_calls)
            inside = any(any(p is cl_ for p in parent_chain(c)) for c in mk_calls)
            if _pos(cl_) > first and not inside:
                R.ok("U3", "the children are read from the reference after the instance was made unique", entry.loc(cl_))
            else:
                R.bad("U3", "%s|descent-before-unique" % entry.key, entry.loc(cl_),
                      "the children of `%s.reference` are queued before the instance is made unique: they are the children of the still-shared original, so "
                      "the children of the clone are never visited and keep sharing" % var)
    if not mk_calls:
        R.bad("U4", "%s|never-unique" % entry.key, entry.loc(w), "uniquify never calls %s on the instance taken from the queue" % mk.name)
    # truth-table evaluation of the condition under which the instance is made unique, over the two facts it may depend on:
    # A = "the reference has exactly one instance", B = "the reference is a leaf".  It must run exactly when (not A) and (not B).
    # Boolean locals, aliases of `<inst>.reference` and a predicate helper of the module are looked through.
    def make_eval(scope_node, binding):
        defs = {}
        for a_ in ast.walk(scope_node):
            if isinstance(a_, ast.Assign) and len(a_.targets) == 1 and isinstance(a_.targets[0], ast.Name):
                defs.setdefault(a_.targets[0].id, []).append(a_.value)

        def ref_of(e, depth=0):
            """does the expression denote <the instance>.reference ?"""
            t = norm(e)
            if t in ("%s.reference" % binding, "%s._reference" % binding):
                return True
            if isinstance(e, ast.Name) and len(defs.get(e.id, [])) == 1 and depth < 4:
                return ref_of(defs[e.id][0], depth + 1)
            return False

        def ev(e, A, B, depth=0):
            if depth > 6:
                return None
            if isinstance(e, ast.UnaryOp) and isinstance(e.op, ast.Not):
                v = ev(e.operand, A, B, depth + 1)
                return None if v is None else (not v)
            if isinstance(e, ast.BoolOp):
                vs = [ev(v, A, B, depth + 1) for v in e.values]
                if any(v is None for v in vs):
                    return None
                return all(vs) if isinstance(e.op, ast.And) else any(vs)
            if isinstance(e, ast.Compare) and len(e.ops) == 1 and isinstance(e.comparators[0], ast.Constant) and e.comparators[0].value == 1 \
                    and isinstance(e.left, ast.Call) and norm(e.left.func) == "len" and e.left.args and isinstance(e.left.args[0], ast.Attribute) \
                    and e.left.args[0].attr in ("references", "_references") and ref_of(e.left.args[0].value):
                if isinstance(e.ops[0], ast.Eq):
                    return A
                if isinstance(e.ops[0], ast.NotEq):
                    return not A
                if isinstance(e.ops[0], ast.Gt):
                    return not A  # len > 1  (a referenced definition has at least one instance)
                return None
            if isinstance(e, ast.Compare) and len(e.ops) == 1 and isinstance(e.ops[0], (ast.Is, ast.Eq, ast.IsNot, ast.NotEq)) \
                    and isinstance(e.comparators[0], ast.Constant) and isinstance(e.comparators[0].value, bool):
                v = ev(e.left, A, B, depth + 1)
                if v is None:
                    return None
                same = isinstance(e.ops[0], (ast.Is, ast.Eq))
                return v == e.comparators[0].value if same else v != e.comparators[0].value
            if isinstance(e, ast.Call) and isinstance(e.func, ast.Attribute) and e.func.attr == "is_leaf" and not e.args and ref_of(e.func.value):
                return B
            if isinstance(e, ast.Call) and isinstance(e.func, ast.Attribute) and e.func.attr == "is_unique" and not e.args and norm(e.func.value) == binding:
                return A or B
            if isinstance(e, ast.Call) and isinstance(e.func, ast.Name) and e.func.id in mod.functions and len(e.args) == 1 and norm(e.args[0]) == binding:
                h = mod.functions[e.func.id]
                body = [s_ for s_ in h.node.body if not (isinstance(s_, ast.Expr) and isinstance(s_.value, ast.Constant))]
                # a single return, possibly after single-assignment locals (`reference = instance.reference`), which ref_of looks through
                if len(h.params) == 1 and body and isinstance(body[-1], ast.Return) and body[-1].value is not None and all(
                        isinstance(b_, ast.Assign) and len(b_.targets) == 1 and isinstance(b_.targets[0], ast.Name) for b_ in body[:-1]):
                    return make_eval(h.node, h.params[0])(body[-1].value, A, B)
                return None
            if isinstance(e, ast.Name) and len(defs.get(e.id, [])) == 1:
                return ev(defs[e.id][0], A, B, depth + 1)
            return None
        return lambda e, A, B: ev(e, A, B)

    evaluate = make_eval(entry.node, var)
    for c in mk_calls:
        tests = []
        prev = c
        for p in parent_chain(c):
            if p is w:
                break
            if isinstance(p, ast.If):
                tests.append((p.test, any(prev is s_ or any(prev is z for z in ast.walk(s_)) for s_ in p.body)))
            prev = p
        verdict = []
        for A in (False, True):
            for B in (False, True):
                runs = True
                for t, in_body in tests:
                    v = evaluate(t, A, B)
                    if v is None:
                        runs = None
                        break
                    runs = runs and (v if in_body else not v)
                verdict.append((A, B, runs))
        if tests and all(r is not None for _, _, r in verdict) and all(r == ((not A) and (not B)) for A, B, r in verdict):
            R.ok("U4", "%s(%s) runs exactly when the reference of `%s` has several instances and is not a leaf" % (mk.name, var, var), entry.loc(c))
            R.ok("U4", "the uniqueness test looks at the number of instances of the reference and at leaf-ness", entry.loc(c))
        else:
            why = "depends on something other than the number of instances of the reference and its leaf-ness" if any(r is None for _, _, r in verdict) or not tests else \
                "runs for (one instance: %s, leaf: %s)" % next((A, B) for A, B, r in verdict if r != ((not A) and (not B)))
            R.bad("U4", "%s|guard" % entry.key, entry.loc(c),
                  "%s(%s) must run exactly when the reference of `%s` has more than one instance and is not a leaf; the condition it is under (%s) %s: shared "
                  "instances are left alone or unique ones are cloned again (a second run then changes the netlist)"
                  % (mk.name, var, var, "; ".join(short(t, 40) for t, b in tests) or "none", why))


# -- C09 -----------------------------------------------------------------------------------------
@register("C09",
          "Static analysis of flatten.py (narrow claim; electrical equivalence before/after is a graph property of runtime netlists and is not "
          "decided): F1 the instance queue and the name queue stay in step (seeded, fed and popped together) and the name queued for a child "
          "is its parent's name read after the parent was moved to the top (so names are slash-joined paths); F2 every element taken from "
          "the queue is moved to the top definition — removed from its current parent and added to the top on every path, with the name "
          "`<parent path>/<name>`; F3 a non-leaf instance queues all its children, moves all its cables from a snapshot of the cable list, "
          "redoes the connections of every port, and is recorded for removal; every recorded shell is removed from the top at the end; "
          "F4 the connection merge disconnects both sides of the port pin before moving pins (each side on every path where its net exists), moves a snapshot of the inner net's pins, and "
          "pairs each disconnect with a connect to the outer net; F5 generated identifiers come from a counter that advances once per call.",
          ["flatten's helper functions are identified by what they do, not by name"])
def check_c09(ctx, R):
    P = ctx.P
    mod = P.module(FLAT)
    entry = mod.functions.get("flatten")
    if entry is None:
        raise AnalysisError("anchor vanished: flatten()")
    R.rule("F1", "the instance queue and the name queue stay in step; a child's queued name is its parent's path")
    R.rule("F2", "every queued element is moved to the top definition under its path name, on every path")
    R.rule("F3", "a hierarchical instance queues all children, moves all cables (snapshot), redoes every port and is removed at the end")
    R.rule("F4", "connection merge: both sides disconnected first, snapshot of the inner net, disconnect/connect paired")
    R.rule("F5", "generated identifiers come from a counter that advances once per call")
    counters0 = _counter_functions(mod)
    views = {fn: _canon(P, f, keep=tuple(counters0)) for fn, f in mod.functions.items() if fn != "flatten"}
    # which queue carries instances: the one whose variable is handed to the mover as first argument
    def arity(f):
        a_ = f.node.args
        return len(a_.posonlyargs) + len(a_.args) + len(a_.kwonlyargs)
    movers = [f for f in views.values() if arity(f) == 3 and _calls(f.node, lambda c: _is_method(c, "add_child")) and _calls(f.node, lambda c: _is_method(c, "add_cable"))]
    if len(movers) != 1:
        raise AnalysisError("anchor vanished: the function of flatten.py that moves an instance or a cable to the top (%d candidates)" % len(movers))
    mv = movers[0]
    # the roles of the mover's three parameters, read from its body (the signature may be reordered or partly keyword-only): the element is
    # what is added, the top definition is what it is added to, the remaining one is the path prefix
    all3 = [x.arg for x in mv.node.args.posonlyargs + mv.node.args.args + mv.node.args.kwonlyargs]
    addc_ = _calls(mv.node, lambda c: _is_method(c, "add_child") and c.args)
    mv_roles = None
    if addc_ and norm(addc_[0].args[0]) in all3 and norm(addc_[0].func.value) in all3:
        e_, top_ = norm(addc_[0].args[0]), norm(addc_[0].func.value)
        rest_ = [x for x in all3 if x not in (e_, top_)]
        if len(rest_) == 1:
            mv_roles = (e_, rest_[0], top_)
    if mv_roles is None:
        mv_roles = tuple(all3)

    def mover_args(c):
        """the call's arguments in the order (element, prefix, top definition), whatever the order and the passing style"""
        pos = [x.arg for x in mv.node.args.posonlyargs + mv.node.args.args]
        m_ = dict(zip(pos, c.args))
        for k_ in c.keywords:
            if k_.arg:
                m_[k_.arg] = k_.value
        return [m_.get(r_) for r_ in mv_roles]
    redo0 = [f for f in views.values() if len(f.params) == 2 and _calls(f.node, lambda c: _is_method(c, "disconnect_pin")) and _calls(f.node, lambda c: _is_method(c, "connect_pin"))]
    entry = _canon(P, entry, keep=tuple(counters0) + (mv.name,) + tuple(r.name for r in redo0))
    w, pops = _work_loop(entry)
    if w is None or len(pops) < 2:
        raise AnalysisError("anchor vanished: the work loop of flatten() with its two queues")
    (iq, ivar, ipop), (nq, nvar, npop) = pops[0], pops[1]
    first_mv = [c for c in _calls(w, lambda c: isinstance(c.func, ast.Name) and c.func.id == mv.name and len(c.args) + len(c.keywords) == 3)]
    # from here on the calls are read in canonical order
    for c_ in first_mv:
        ordered = mover_args(c_)
        if all(x is not None for x in ordered):
            c_.args, c_.keywords = ordered, []
    if first_mv and norm(first_mv[0].args[0]) == nvar:
        (iq, ivar, ipop), (nq, nvar, npop) = (nq, nvar, npop), (iq, ivar, ipop)
    # ---- F1
    n_feed = 0
    feeds_ok = True
    for blk_owner in walk_local(entry.node):
        for fld in ("body", "orelse"):
            blk = getattr(blk_owner, fld, None)
            if not isinstance(blk, list):
                continue
            ia = [st for st in blk if isinstance(st, ast.Expr) and isinstance(st.value, ast.Call) and _is_method(st.value, "append") and norm(st.value.func.value) == iq]
            na = [st for st in blk if isinstance(st, ast.Expr) and isinstance(st.value, ast.Call) and _is_method(st.value, "append") and norm(st.value.func.value) == nq]
            if ia or na:
                n_feed += 1
                if len(ia) != len(na):
                    feeds_ok = False
                    R.bad("F1", "%s|unpaired feed" % entry.key, entry.loc((ia or na)[0]),
                          "flatten appends to `%s` %d time(s) and to `%s` %d time(s) in the same block: the two queues get out of step and every later "
                          "instance is named after the wrong parent" % (iq, len(ia), nq, len(na)))
    if feeds_ok and n_feed >= 2:
        R.ok("F1", "every append to `%s` is paired with an append to `%s` (%d blocks)" % (iq, nq, n_feed), entry.loc(w))
    elif feeds_ok:
        R.bad("F1", "%s|feeds" % entry.key, entry.loc(w), "flatten feeds its queues in %d place(s); seeding and descent are both needed" % n_feed)
    child_loops = [lp for lp in walk_local(w) if isinstance(lp, ast.For) and norm(lp.iter) == "%s.reference.children" % ivar]
    seeds = [lp for lp in walk_local(entry.node) if isinstance(lp, ast.For) and _pos(lp) < _pos(w) and norm(lp.iter).endswith(".children")]
    if not seeds or any(isinstance(x, (ast.If, ast.Break, ast.Continue)) for lp in seeds for st in lp.body for x in ast.walk(st)):
        R.bad("F1", "%s|seed" % entry.key, entry.loc(w), "flatten does not seed its queue with every child of the top definition")
    else:
        seed_names = _calls(seeds[0], lambda c: _is_method(c, "append") and norm(c.func.value) == nq)
        if seed_names and isinstance(seed_names[0].args[0], ast.Constant) and seed_names[0].args[0].value == "":
            R.ok("F1", "children of the top are queued with the empty path", entry.loc(seeds[0]))
        else:
            R.bad("F1", "%s|seed name" % entry.key, entry.loc(seeds[0]), "children of the top are not queued with the empty parent path: first-level names get a prefix")
    mv_inst = [c for c in first_mv if norm(c.args[0]) == ivar]
    if not mv_inst:
        R.bad("F2", "%s|instance not moved" % entry.key, entry.loc(w), "flatten never moves the instance taken from the queue to the top definition")
    else:
        c0 = mv_inst[0]
        if norm(c0.args[1]) != nvar:
            R.bad("F1", "%s|path arg" % entry.key, entry.loc(c0), "the instance is moved with `%s` as its parent path, not with the path popped together with it (`%s`)" % (norm(c0.args[1]), nvar))
        else:
            R.ok("F1", "the instance is moved under the path popped together with it", entry.loc(c0))
        # the move happens on every path through the body, before anything else uses the instance's name
        st0 = _stmt_of(c0)
        cfg = cfg_of(entry.node)

        def tr(n, st):
            if n.kind == "stmt" and n.ast is ipop:
                return False
            if n.kind == "stmt" and n.ast is st0:
                return True
            return st
        state = forward(cfg, True, tr, lambda a, b: a and b, follow=lambda a_, b_, lab: lab != "exc")
        head = [n for n in cfg.nodes if n.kind == "test" and n.ast is w]
        if head and state.get(head[0].id) is False:
            R.bad("F2", "%s|instance move skipped" % entry.key, entry.loc(c0), "a path through the loop body goes on without moving the instance to the top: it stays inside its "
                  "parent, which is deleted at the end")
        else:
            R.ok("F2", "every instance taken from the queue is moved to the top", entry.loc(c0))
        for lp in child_loops:
            names = _calls(lp, lambda c: _is_method(c, "append") and norm(c.func.value) == nq)
            for c in names:
                if norm(c.args[0]) == "%s.name" % ivar and _pos(lp) > _pos(c0):
                    R.ok("F1", "children are queued with the parent's name read after the parent was moved (its full path)", entry.loc(c))
                else:
                    R.bad("F1", "%s|child path" % entry.key, entry.loc(c),
                          "children are queued with `%s`%s: a child's prefix has to be its parent's full path, i.e. `%s.name` read after the parent was renamed by the move"
                          % (norm(c.args[0]), "" if _pos(lp) > _pos(c0) else " read before the parent was moved", ivar))
    # ---- F2: the mover
    e, pfx, top = mv_roles
    cfgm = cfg_of(mv.node)
    for kind, rem, add in (("Cable", "remove_cable", "add_cable"), ("Instance", "remove_child", "add_child")):
        rems = _calls(mv.node, lambda c: _is_method(c, rem) and c.args and norm(c.args[0]) == e)
        addc = _calls(mv.node, lambda c: _is_method(c, add) and c.args and norm(c.args[0]) == e)
        if not rems or not addc:
            R.bad("F2", "%s|%s" % (mv.key, kind), mv.loc(), "%s does not both %s and %s the element: it ends up in no definition, or in two" % (mv.qualname, rem, add))
            continue
        if norm(addc[0].func.value) != top:
            R.bad("F2", "%s|%s target" % (mv.key, kind), mv.loc(addc[0]), "%s adds the element to `%s`, not to the top definition `%s`" % (mv.qualname, norm(addc[0].func.value), top))
        elif _pos(rems[0]) > _pos(addc[0]):
            R.bad("F2", "%s|%s order" % (mv.key, kind), mv.loc(addc[0]), "%s adds the element to the top before removing it from its parent: the add is refused (it still has a parent)" % mv.qualname)
        else:
            R.ok("F2", "%s: %s is taken out of its parent and added to `%s`" % (mv.qualname, kind, top), mv.loc(addc[0]))
    # complementary dispatch: the remove and the add are chosen by the same test, so exactly one of each runs
    tests = {}
    for c in _calls(mv.node, lambda c: isinstance(c.func, ast.Attribute) and c.func.attr in ("remove_cable", "remove_child", "add_cable", "add_child")):
        prev = c
        for p in parent_chain(c):
            if isinstance(p, ast.If):
                tests[c.func.attr] = (norm(p.test), any(prev is s_ or any(prev is z for z in ast.walk(s_)) for s_ in p.body))
                break
            prev = p
    if tests.get("remove_cable") == tests.get("add_cable") and tests.get("remove_child") == tests.get("add_child") and tests.get("remove_cable") is not None \
            and tests.get("remove_cable") != tests.get("remove_child"):
        R.ok("F2", "%s: the remove and the add of an element are selected by the same test" % mv.qualname, mv.loc())
    else:
        R.bad("F2", "%s|dispatch" % mv.key, mv.loc(), "%s selects the remove and the add of an element by different tests (%s): an element can be removed as one kind and added as the other, or not at all"
              % (mv.qualname, tests))
    renames = [a for a in walk_local(mv.node) if isinstance(a, ast.Assign) and norm(a.targets[0]) == "%s.name" % e]
    good = [a for a in renames if isinstance(a.value, ast.BinOp) and norm(a.value).replace(" ", "") in
            ("%s+'/'+%s.name" % (pfx, e), '%s+"/"+%s.name' % (pfx, e))]
    if good and all(a in good or norm(a.value) == "%s.name" % e for a in renames):
        R.ok("F2", "%s names the moved element `<parent path>/<name>`" % mv.qualname, mv.loc(good[0]))
    else:
        R.bad("F2", "%s|name" % mv.key, mv.loc(renames[0] if renames else None),
              "%s does not rename the moved element to `%s + \"/\" + %s.name`: flattened names are not the slash-joined instance paths" % (mv.qualname, pfx, e))
    # ---- F3
    if not child_loops or any(isinstance(x, (ast.If, ast.Break, ast.Continue)) for lp in child_loops for st in lp.body for x in ast.walk(st)):
        R.bad("F3", "%s|children" % entry.key, entry.loc(w), "a hierarchical instance does not queue every child of its definition: deeper levels are lost when the shell is removed")
    else:
        R.ok("F3", "all children of a hierarchical instance are queued", entry.loc(child_loops[0]))
    cable_moves = [c for c in first_mv if norm(c.args[0]) != ivar]
    ok_snapshot = False
    for c in cable_moves:
        lp = next((p for p in parent_chain(c) if isinstance(p, ast.For)), None)
        if lp is None:
            continue
        it = norm(lp.iter)
        if isinstance(lp.iter, ast.Call) and norm(lp.iter.func) in ("list", "tuple") and lp.iter.args and norm(lp.iter.args[0]) == "%s.reference.cables" % ivar:
            ok_snapshot = True
            if norm(c.args[1]) != "%s.name" % ivar:
                R.bad("F3", "%s|cable path" % entry.key, entry.loc(c), "cables are moved with the prefix `%s`, not the instance's path `%s.name`" % (norm(c.args[1]), ivar))
        elif it.endswith(".cables"):
            R.bad("F3", "%s|live cables" % entry.key, entry.loc(lp), "cables are moved to the top while iterating `%s`, the very list they are removed from: every second cable is skipped and lost" % it)
            ok_snapshot = None
        elif isinstance(lp.iter, ast.Name):
            fills = [x for x in walk_local(w) if isinstance(x, ast.For) and norm(x.iter) == "%s.reference.cables" % ivar
                     and _calls(x, lambda c2: _is_method(c2, "append") and norm(c2.func.value) == lp.iter.id)]
            copies = [a for a in walk_local(w) if isinstance(a, ast.Assign) and norm(a.targets[0]) == lp.iter.id and ("%s.reference.cables" % ivar) in norm(a.value)
                      and isinstance(a.value, ast.Call)]
            if (fills and not any(isinstance(x, (ast.If, ast.Break, ast.Continue)) for f_ in fills for st in f_.body for x in ast.walk(st))) or copies:
                ok_snapshot = True
                if norm(c.args[1]) != "%s.name" % ivar:
                    R.bad("F3", "%s|cable path" % entry.key, entry.loc(c), "cables are moved with the prefix `%s`, not the instance's path `%s.name`" % (norm(c.args[1]), ivar))
    if ok_snapshot:
        R.ok("F3", "all cables of a hierarchical instance are moved, from a snapshot of the list", entry.loc(cable_moves[0]))
    elif ok_snapshot is False:
        R.bad("F3", "%s|cables" % entry.key, entry.loc(w), "the cables of a hierarchical instance are not (all) moved to the top: the nets inside it disappear with the shell")
    redo = redo0
    if len(redo) != 1:
        raise AnalysisError("anchor vanished: the function of flatten.py that merges the nets on both sides of a port (%d candidates)" % len(redo))
    rd = redo[0]
    port_loops = [lp for lp in walk_local(w) if isinstance(lp, ast.For) and norm(lp.iter) == "%s.reference.ports" % ivar
                  and _calls(lp, lambda c: isinstance(c.func, ast.Name) and c.func.id == rd.name and [norm(a) for a in c.args] in ([ivar, norm(lp.target)], [ivar, norm(lp.target) + ".pins"]))]
    if port_loops and not any(isinstance(x, (ast.If, ast.Break, ast.Continue)) for lp in port_loops for st in lp.body for x in ast.walk(st)):
        R.ok("F3", "the connections of every port of a hierarchical instance are redone", entry.loc(port_loops[0]))
    else:
        R.bad("F3", "%s|ports" % entry.key, entry.loc(w), "not every port of a hierarchical instance has its connections redone: nets that crossed that port are cut when the shell is removed")
    shells = [c for c in _calls(w, lambda c: _is_method(c, "append") and c.args and norm(c.args[0]) == ivar and norm(c.func.value) not in (iq, nq))]
    if not shells:
        R.bad("F3", "%s|shell not recorded" % entry.key, entry.loc(w), "hierarchical instances are not recorded for removal: they remain in the flattened netlist")
    else:
        lst_ = norm(shells[0].func.value)
        final = [lp for lp in walk_local(entry.node) if isinstance(lp, ast.For) and norm(lp.iter) == lst_ and _pos(lp) > _pos(w)
                 and _calls(lp, lambda c: _is_method(c, "remove_child") and c.args and norm(c.args[0]) == norm(lp.target))]
        # recorded on every path that does not leave through the leaf test
        st_sh = _stmt_of(shells[0])
        leaf_exit = [st for st in w.body if isinstance(st, ast.If) and "is_leaf" in norm(st.test) and st.body and isinstance(st.body[-1], ast.Continue)]
        later_exit = [x for st in w.body for x in ast.walk(st) if isinstance(x, (ast.Continue, ast.Break, ast.Return)) and not (leaf_exit and any(x is y for y in ast.walk(leaf_exit[0])))]
        by_paths = _recorded_exactly_for_non_leaves(w, st_sh)
        if final and by_paths:
            R.ok("F3", "every hierarchical instance is recorded and removed from the top at the end; leaves are kept", entry.loc(final[0]))
        elif final and by_paths is None and leaf_exit and not later_exit and st_sh in w.body and _pos(st_sh) > _pos(leaf_exit[0]):
            R.ok("F3", "every hierarchical instance is recorded and removed from the top at the end; leaves are kept", entry.loc(final[0]))
        else:
            R.bad("F3", "%s|shell removal" % entry.key, entry.loc(shells[0]),
                  "the emptied hierarchical instances are not all removed from the top at the end (recorded unconditionally for non-leaves: %s; leaf test first: %s; "
                  "final removal loop: %s): hierarchy remains, or a leaf is deleted" % (st_sh in w.body and not later_exit, bool(leaf_exit), bool(final)))
    # ---- F4
    pin_loops = [lp for lp in walk_local(rd.node) if isinstance(lp, ast.For) and norm(lp.iter) == "%s.pins" % rd.params[1]]
    if not pin_loops:
        # the caller may hand over the pins themselves: `_redo_connections(inst, port.pins)` … `for pin in port_pins:`
        handed = [c for c in walk_local(entry.node) if isinstance(c, ast.Call) and isinstance(c.func, ast.Name) and c.func.id == rd.name and len(c.args) == 2
                  and isinstance(c.args[1], ast.Attribute) and c.args[1].attr == "pins"]
        if handed:
            pin_loops = [lp for lp in walk_local(rd.node) if isinstance(lp, ast.For) and norm(lp.iter) == rd.params[1]]
    if not pin_loops:
        raise AnalysisError("anchor vanished: the loop over the port's pins in %s" % rd.qualname)
    pl = pin_loops[0]
    pv = norm(pl.target)
    # names bound to the two sides
    binds = {}
    for a in walk_local(pl):
        if isinstance(a, ast.Assign) and isinstance(a.targets[0], ast.Name):
            binds[a.targets[0].id] = norm(a.value)

    def resolve(nm, depth=0):
        t = binds.get(nm, nm)
        for k in sorted(binds, key=len, reverse=True):
            if depth < 4 and t != k and (t == k or t.startswith(k + ".")):
                t = resolve(k, depth + 1) + t[len(k):]
        return t
    inner_w = [n for n in binds if resolve(n) == "%s.wire" % pv]
    outer_w = [n for n in binds if resolve(n) == "%s.pins[%s].wire" % (rd.params[0], pv)]
    if not inner_w or not outer_w:
        R.bad("F4", "%s|sides" % rd.key, rd.loc(pl), "%s does not read both the net inside (`%s.wire`) and the net outside (`%s.pins[%s].wire`) of the port pin" % (rd.qualname, pv, rd.params[0], pv))
    else:
        iw, ow = inner_w[0], outer_w[0]
        disc = _calls(pl, lambda c: _is_method(c, "disconnect_pin"))
        conn = _calls(pl, lambda c: _is_method(c, "connect_pin"))
        d_in = [c for c in disc if norm(c.func.value) == iw and resolve(norm(c.args[0])) == pv]
        d_out = [c for c in disc if norm(c.func.value) == ow and resolve(norm(c.args[0])) == "%s.pins[%s]" % (rd.params[0], pv)]
        moves = [lp for lp in walk_local(pl) if isinstance(lp, ast.For) and lp is not pl and _calls(lp, lambda c: _is_method(c, "connect_pin") and norm(c.func.value) == ow
                                                                                                       and c.args and norm(c.args[0]) == norm(lp.target))]
        one_sided = _boundary_pin_left_behind(pl, d_in[0] if d_in else None, d_out[0] if d_out else None, iw, ow) if d_in and d_out else None
        if one_sided:
            R.bad("F4", "%s|boundary pin left on a one-sided port" % rd.key, rd.loc(pl),
                  "%s can finish a port pin without taking the %s off its net although that net exists (a path that only knows the other side is missing): when "
                  "a port is wired on one side only, the pin of the dissolved cell stays on a net of the flattened design" % (rd.qualname, one_sided))
        elif d_in and d_out and moves and _pos(d_in[0]) < _pos(moves[0]) and _pos(d_out[0]) < _pos(moves[0]):
            R.ok("F4", "%s takes the port pin off the inner net and the instance pin off the outer net before merging" % rd.qualname, rd.loc(d_in[0]))
        else:
            R.bad("F4", "%s|boundary pins" % rd.key, rd.loc(pl),
                  "%s does not disconnect both the port pin from the inner net and the instance pin from the outer net before moving pins (inner: %s, outer: %s): the "
                  "pins of the removed shell stay on the merged net, or are moved onto it" % (rd.qualname, bool(d_in), bool(d_out)))
        for mvl in moves:
            it = norm(mvl.iter)
            tv = norm(mvl.target)
            paired = _calls(mvl, lambda c: _is_method(c, "disconnect_pin") and norm(c.func.value) == iw and c.args and norm(c.args[0]) == tv)
            first_d = _pos(paired[0]) if paired else None
            first_c = _pos(_calls(mvl, lambda c: _is_method(c, "connect_pin"))[0])
            snap_call = isinstance(mvl.iter, ast.Call) and ((norm(mvl.iter.func) in ("list", "tuple") and mvl.iter.args and norm(mvl.iter.args[0]) == "%s.pins" % iw)
                                                           or norm(mvl.iter) == "%s.pins.copy()" % iw)
            if it == "%s.pins" % iw:
                R.bad("F4", "%s|live pins" % rd.key, rd.loc(mvl), "%s moves pins while iterating `%s.pins`, the list the disconnect shrinks: every second pin stays on the inner net and "
                      "is cut off from the merged net" % (rd.qualname, iw))
            elif not paired or first_d > first_c:
                R.bad("F4", "%s|move pairing" % rd.key, rd.loc(mvl), "%s connects a moved pin to the outer net without first disconnecting it from the inner net: the connect is refused" % rd.qualname)
            else:
                src_ok = snap_call
                if isinstance(mvl.iter, ast.Name):
                    fills = [x for x in walk_local(pl) if isinstance(x, ast.For) and norm(x.iter) == "%s.pins" % iw
                             and _calls(x, lambda c2: _is_method(c2, "append") and norm(c2.func.value) == mvl.iter.id)]
                    copies = [a for a in walk_local(pl) if isinstance(a, ast.Assign) and norm(a.targets[0]) == mvl.iter.id and ("%s.pins" % iw) in norm(a.value) and isinstance(a.value, ast.Call)]
                    src_ok = bool(copies) or (bool(fills) and not any(isinstance(x, (ast.If, ast.Break, ast.Continue)) for f_ in fills for st in f_.body for x in ast.walk(st)))
                if src_ok:
                    R.ok("F4", "%s moves a snapshot of all pins of the inner net, each disconnected then connected" % rd.qualname, rd.loc(mvl))
                else:
                    R.bad("F4", "%s|move source" % rd.key, rd.loc(mvl), "%s does not move all pins of the inner net (`%s.pins`) to the outer net: part of the net is left behind" % (rd.qualname, iw))
    # ---- F5
    counters = _counter_functions(mod)
    R.count("fresh-suffix counters (F5)", len(counters))
    R.floor("fresh-suffix counters (F5)", 1)
    for fn, (cf, counter) in sorted(counters.items()):
        _check_counter(R, "F5", cf, counter)
    ids = [a for a in walk_local(mv.node) if isinstance(a, ast.Assign) and isinstance(a.targets[0], ast.Subscript) and norm(a.targets[0].value) == e
           and isinstance(a.targets[0].slice, ast.Constant) and a.targets[0].slice.value == "EDIF.identifier"]
    for a in ids:
        if any(isinstance(x, ast.Call) and isinstance(x.func, ast.Name) and x.func.id in counters for x in ast.walk(a.value)):
            R.ok("F5", "%s: the moved element's EDIF identifier is made fresh" % mv.qualname, mv.loc(a))
        else:
            R.bad("F5", "%s|identifier" % mv.key, mv.loc(a), "%s assigns the EDIF identifier `%s`, which does not come from the counter: identifiers collide in the top definition" % (mv.qualname, short(a.value, 40)))
    R.count("identifier rewrites in the mover (F5)", len(ids))
    R.floor("identifier rewrites in the mover (F5)", 2)
