"""Self-test catalogue for the IR rules (C01, C02, C14, C19): in-memory edits of the current
tree.  expect = substring of the finding key the rule must report; None = benign twin."""
from ..mutants import Mutant, add

W = "spydrnet/ir/wire.py"
C = "spydrnet/ir/cable.py"
D = "spydrnet/ir/definition.py"
PT = "spydrnet/ir/port.py"
I = "spydrnet/ir/instance.py"
N = "spydrnet/ir/netlist.py"
L = "spydrnet/ir/library.py"
GC = "spydrnet/global_state/global_callback.py"
CL = "spydrnet/callback/callback_listener.py"
NS = "spydrnet/plugins/namespace_manager/__init__.py"

# ---------------------------------------------------------------- C01
add("C01",
    Mutant("O2 drop back-pointer clear in _remove_wire",
           (C, "        global_callback._call_cable_remove_wire(self, wire)\n        wire._cable = None\n",
            "        global_callback._call_cable_remove_wire(self, wire)\n"), "Cable.remove_wire|cable-wire|-0"),
    Mutant("O2 drop pin._wire = self in connect_pin",
           (W, "            self._pins.append(pin)\n        pin._wire = self\n", "            self._pins.append(pin)\n"),
           "Wire.connect_pin|wire-pin|+0"),
    Mutant("O2 drop uniqueness conjunct of Cable.wires setter",
           (C, "len(value_list) == len(value_set) and set(self._wires) == value_set", "set(self._wires) == value_set"),
           "Cable.wires.setter|cable-wire|reorder-guard"),
    Mutant("O2 drop the whole permutation assert of Definition.children setter",
           (D, """        assert (
            len(target) == len(target_set) and set(self._children) == target_set
        ), "Set of values do not match, this function can only reorder values, values \\
            must be unique"
        self._children = target""", "        self._children = target"), "Definition.children.setter|definition-child|reorder-guard"),
    Mutant("O2 remove_child without list removal",
           (D, "        self._remove_child(child)\n        self._children.remove(child)\n", "        self._remove_child(child)\n"),
           "Definition.remove_child|definition-child|0-"),
    Mutant("O2 add_port without ownership guard",
           (D, '        assert port.definition is None, "Port already belongs to a different definition"\n', ""),
           "Definition.add_port|definition-port|add-guard"),
    Mutant("O2 connect_pin checks the proxy instead of the stored pin (seeded C01-A)",
           (W, '            assert outer_pin.wire is None, "Pin already connected to a different wire"',
            '            assert pin.wire is None, "Pin already connected to a different wire"'),
           "Wire.connect_pin|wire-pin|add-guard"),
    Mutant("O2 back-pointer set before the vetoable notification (seeded C01-B)",
           (D, """        global_callback._call_definition_add_cable(self, cable)
        if position is not None:
            self._cables.insert(position, cable)
        else:
            self._cables.append(cable)
        cable._definition = self""", """        cable._definition = self
        global_callback._call_definition_add_cable(self, cable)
        if position is not None:
            self._cables.insert(position, cable)
        else:
            self._cables.append(cable)"""), "Definition.add_cable|definition-cable|refusal-after-write"),
    Mutant("O2 bulk remove without membership check",
           (L, """        assert all(x.library == self for x in excluded_definitions), (
            "Some definitions to remove are not included in " "the library "
        )
""", ""), "Library.remove_definitions_from|library-definition|bulk-guard"),
    Mutant("O2 remove wrong element",
           (C, "        self._remove_wire(wire)\n        self._wires.remove(wire)\n", "        self._remove_wire(wire)\n        self._wires.remove(self._wires[0])\n"),
           "Cable.remove_wire|cable-wire|remove-guard"),
    Mutant("O3 return the raw list",
           (PT, "        return ListView(self._pins)", "        return self._pins"), "Port.pins.getter|raw _pins"),
    Mutant("O3 ListView gains append",
           ("spydrnet/ir/views/listview.py", "    def copy(self):", "    def append(self, x):\n        self._list.append(x)\n\n    def copy(self):"),
           "ListView|mutator append"),
    Mutant("O4 flatten pokes _parent",
           ("spydrnet/flatten.py", "def flatten(", "def _poke(inst, d):\n    inst._parent = d\n\n\ndef flatten("), "flatten.py:_poke|_parent store"),
    Mutant("O4 parser appends to _wires",
           ("spydrnet/uniquify.py", "def uniquify(", "def _poke(c, w):\n    c._wires.append(w)\n\n\ndef uniquify("), "uniquify.py:_poke|_wires append"),
    Mutant("O1 Cable writes a pin's wire",
           (C, "    def _items(self):\n        \"\"\"Overrides the bundle _items function to return wires\"\"\"",
            "    def _zap(self, pin):\n        pin._wire = None\n\n    def _items(self):\n        \"\"\"Overrides the bundle _items function to return wires\"\"\""),
           "Cable._zap|Pin._wire"),
    # twins
    Mutant("twin: inline _remove_wire into remove_wire",
           (C, "        self._remove_wire(wire)\n        self._wires.remove(wire)\n",
            "        global_callback._call_cable_remove_wire(self, wire)\n        wire._cable = None\n        self._wires.remove(wire)\n"), None),
    Mutant("twin: swap the two independent writes of add_wire",
           (C, """        if position is not None:
            self._wires.insert(position, wire)
        else:
            self._wires.append(wire)
        wire._cable = self""", """        wire._cable = self
        if position is not None:
            self._wires.insert(position, wire)
        else:
            self._wires.append(wire)"""), None),
    Mutant("twin: rename locals of the Port.pins setter",
           (PT, """        value_list = list(value)
        value_set = set(value_list)
        assert (
            len(value_set) == len(value_list) and set(self._pins) == value_set
        ), "Set of values do not match, assignment can only be used to reorder values, values \\
            must be unique"
        self._pins = value_list""", """        new_order = list(value)
        members = set(new_order)
        assert (
            len(members) == len(new_order) and set(self._pins) == members
        ), "Set of values do not match, assignment can only be used to reorder values, values \\
            must be unique"
        self._pins = new_order"""), None),
    Mutant("twin: if/raise instead of assert in add_child",
           (D, """        assert (
            instance.parent is None
        ), "Instance already belongs to a different definition\"""", """        if instance.parent is not None:
            raise AssertionError("Instance already belongs to a different definition")"""), None),
    Mutant("twin: read-only view method",
           ("spydrnet/ir/views/listview.py", "    def copy(self):", "    def first(self):\n        return self._list[0]\n\n    def copy(self):"), None),
    Mutant("twin: read of a private field outside ir",
           ("spydrnet/flatten.py", "def flatten(", "def _peek(inst):\n    return inst._parent is None\n\n\ndef flatten("), None),
    )

# ---------------------------------------------------------------- C02
add("C02",
    Mutant("M1 remove the outer-pin loop from add_port",
           (D, """        port._definition = self
        for reference in self.references:
            for pin in port.pins:
                reference._pins[pin] = OuterPin(reference, pin)
""", "        port._definition = self\n"), "Definition.add_port|port into definition"),
    Mutant("M1 outer pin built for another instance",
           (D, "                reference._pins[pin] = OuterPin(reference, pin)", "                reference._pins[pin] = OuterPin(self, pin)"),
           "Definition.add_port|outer-pin-args"),
    Mutant("M1 add_pin returns early when a position is given",
           (PT, """        else:
            self._pins.insert(position, pin)
        pin._port = self
""", """        else:
            self._pins.insert(position, pin)
            pin._port = self
            return
        pin._port = self
"""), "Port.add_pin|pin into port"),
    Mutant("M2 remove the disconnect from _remove_port",
           (D, """                wire = outer_pin.wire
                if wire:
                    wire.disconnect_pin(outer_pin)
                del reference._pins[pin]
                outer_pin._instance = None""", """                del reference._pins[pin]
                outer_pin._instance = None"""), "Definition._remove_port|never takes"),
    Mutant("M6 delete before disconnect in _remove_pin",
           (PT, """                wire = outer_pin.wire
                if wire:
                    wire.disconnect_pin(outer_pin)
                del reference._pins[pin]
""", """                wire = outer_pin.wire
                del reference._pins[pin]
                if wire:
                    wire.disconnect_pin(outer_pin)
"""), "Port._remove_pin|order"),
    Mutant("M2 outer pin keeps its inner pin",
           (PT, "                outer_pin._instance = None\n                outer_pin._inner_pin = None\n", "                outer_pin._instance = None\n"),
           "Port._remove_pin|does not null"),
    Mutant("M3 drop value._references.add(self)",
           (I, "            value._references.add(self)\n", ""), "Instance.reference.setter|no-add"),
    Mutant("M3 drop removal from the old reference set on re-point",
           (I, """            if self._reference is not None:
                self._reference._references.remove(self)
                for cur_port""", """            if self._reference is not None:
                for cur_port"""), "Instance.reference.setter|no-remove"),
    Mutant("M4 construct new outer pins in the re-point branch",
           (I, """                        outer_pin = self._pins.pop(cur_pin)
                        outer_pin._inner_pin = new_pin
                        self._pins[new_pin] = outer_pin""", """                        self._pins.pop(cur_pin)
                        self._pins[new_pin] = OuterPin(self, new_pin)"""), "Instance.reference.setter|"),
    Mutant("M4 re-keyed pin not told about its new inner pin",
           (I, "                        outer_pin._inner_pin = new_pin\n", ""), "Instance.reference.setter|rekey"),
    Mutant("M4 drop the shape check",
           (I, """        if value is not None and self._reference is not None:
            assert len(self.reference.ports) == len(value.ports) and all(
                len(x.pins) == len(y.pins)
                for x, y in zip(self.reference.ports, value.ports)
            ), "Reference reassignment only supported for definitions with matching \\
                    port positions"
""", ""), "Instance.reference.setter|shape-check"),
    Mutant("M5 top instance wraps a definition by poking _reference",
           (N, "            top.reference = instance\n            top.is_top_instance = True", "            top._reference = instance\n            top.is_top_instance = True"),
           "Netlist.top_instance.setter|direct _reference"),
    Mutant("M8 Port.pins setter accepts a subset (seeded C02-B)",
           (PT, "len(value_set) == len(value_list) and set(self._pins) == value_set", "len(value_set) == len(value_list) and all(x in self._pins for x in value_list)"),
           "Port.pins.setter|port-pin|reorder-guard"),
    Mutant("twin: iterate self._references instead of self.references in add_port",
           (D, "        port._definition = self\n        for reference in self.references:", "        port._definition = self\n        for reference in self._references:"), None),
    Mutant("twin: hoist old-set removal into a helper",
           (I, """            if self._reference is not None:
                self._reference._references.remove(self)
                for cur_port""", """            if self._reference is not None:
                self._leave_old()
                for cur_port""", ),
           None),
    )
# helper for the twin above is added by a second edit of the same file
from ..mutants import CATALOGUE as _CAT  # noqa: E402
_CAT["C02"][-1].edits.append((I, "    @reference.deleter\n", "    def _leave_old(self):\n        self._reference._references.remove(self)\n\n    @reference.deleter\n"))

# ---------------------------------------------------------------- C14
add("C14",
    Mutant("R1 append before the vetoable notification",
           (C, """        global_callback._call_cable_add_wire(self, wire)
        if position is not None:
            self._wires.insert(position, wire)
        else:
            self._wires.append(wire)""", """        if position is not None:
            self._wires.insert(position, wire)
        else:
            self._wires.append(wire)
        global_callback._call_cable_add_wire(self, wire)"""), None),  # cable_add_wire is not vetoable by the naming rules: R1 silent
    Mutant("R1 add_child writes before the vetoable notification",
           (D, """        global_callback._call_definition_add_child(self, instance)
        if position is not None:
            self._children.insert(position, instance)
        else:
            self._children.append(instance)""", """        if position is not None:
            self._children.insert(position, instance)
        else:
            self._children.append(instance)
        global_callback._call_definition_add_child(self, instance)"""), "Definition.add_child|"),
    Mutant("R1 data written before dictionary_set can veto",
           ("spydrnet/ir/first_class_element.py", """        global_callback._call_dictionary_set(self, key, value)
        key = sys.intern(key)
        self._data.__setitem__(sys.intern(key), value)""", """        key = sys.intern(key)
        self._data.__setitem__(sys.intern(key), value)
        global_callback._call_dictionary_set(self, key, value)"""), "FirstClassElement.__setitem__|"),
    Mutant("R1 old reference set left before the shape assert (seeded C14-B / C02-A)",
           (I, """        if value is not None and self._reference is not None:
            assert len""", """        if value is not None and self._reference is not None:
            self._reference._references.remove(self)
            assert len"""), "Instance.reference.setter|"),
    Mutant("R1c create_child registers the reference before add_child",
           (D, "        self.add_child(instance)\n        instance.reference = reference\n", "        instance.reference = reference\n        self.add_child(instance)\n"),
           "Definition.create_child|"),
    Mutant("R1c create_port links pins into a shared port before add_port",
           (D, """        port = Port(name, properties, is_downto, is_scalar, lower_index, direction)
        self.add_port(port)""", """        port = Port(name, properties, is_downto, is_scalar, lower_index, direction)
        self._ports.append(port)
        self.add_port(port)"""), "Definition.create_port|"),
    Mutant("N2 index updated inside the conflict loop (seeded C14-A / C10-A)",
           (NS, """                        if no_conflict is False:
                            raise ValueError(
                                "Adding this element would result in a naming conflict. "
                                + child[key]
                            )
""", """                        if no_conflict is False:
                            raise ValueError(
                                "Adding this element would result in a naming conflict. "
                                + child[key]
                            )
                        namespace.update(child, key, child[key])
"""), "NamespaceManager.add|"),
    Mutant("N2 dictionary_set updates before validity check",
           (NS, """            if ".NS" in element:
                target_policy = self.policies[element[".NS"]]
                if target_policy.is_name_valid(key, value) is False:
                    raise ValueError(
                        "Target name not valid for the current namespace policy."
                    )

            parent = self.get_parent(element)""", """            parent = self.get_parent(element)
            if parent and parent in self.namespaces:
                self.namespaces[parent].update(element, key, value)
            if ".NS" in element:
                target_policy = self.policies[element[".NS"]]
                if target_policy.is_name_valid(key, value) is False:
                    raise ValueError(
                        "Target name not valid for the current namespace policy."
                    )
"""), "NamespaceManager.dictionary_set|"),
    Mutant("twin: build and configure a FRESH element before adding it",
           (D, """        cable = Cable(name, properties, is_downto, is_scalar, lower_index)
        self.add_cable(cable)
        if wires:
            cable.create_wires(wires)""", """        cable = Cable(name, properties, is_downto, is_scalar, lower_index)
        if wires:
            cable.create_wires(wires)
        self.add_cable(cable)"""), None),
    Mutant("twin: extract notification + write into a helper",
           (C, """        global_callback._call_cable_add_wire(self, wire)
        if position is not None:
            self._wires.insert(position, wire)
        else:
            self._wires.append(wire)
        wire._cable = self
""", """        self._link_wire(wire, position)

    def _link_wire(self, wire, position):
        global_callback._call_cable_add_wire(self, wire)
        if position is not None:
            self._wires.insert(position, wire)
        else:
            self._wires.append(wire)
        wire._cable = self
"""), None),
    )

# ---------------------------------------------------------------- C19
add("C19",
    Mutant("E1 register into the wrong container",
           (GC, "def register_port_remove_pin(method):\n    _register(_container_port_remove_pin, method)",
            "def register_port_remove_pin(method):\n    _register(_container_port_add_pin, method)"), "port_remove_pin|register"),
    Mutant("E1 listener passes the wrong hook",
           (CL, "global_callback.register_wire_connect_pin(self.wire_connect_pin)", "global_callback.register_wire_connect_pin(self.wire_disconnect_pin)"),
           "wire_connect_pin|listener_register"),
    Mutant("E1 dispatcher iterates another kind's listeners",
           (GC, "def _call_cable_remove_wire(*args, **kwargs):\n    for func in _container_cable_remove_wire:",
            "def _call_cable_remove_wire(*args, **kwargs):\n    for func in _container_cable_add_wire:"), "cable_remove_wire|dispatcher"),
    Mutant("E4 register_all tests another hook's override",
           (CL, """        if self.port_add_pin.__func__ is not CallbackListener.port_add_pin:
            self.register_port_add_pin()""", """        if self.port_remove_pin.__func__ is not CallbackListener.port_add_pin:
            self.register_port_add_pin()"""), "port_add_pin|register_all"),
    Mutant("E3 delete a dispatch",
           (D, "        global_callback._call_definition_remove_child(self, child)\n", ""), "Definition._remove_child|Instance._parent set"),
    Mutant("E3 dispatch moved below the first write",
           (L, """        global_callback._call_library_add_definition(self, definition)
        if position is not None:
            self._definitions.insert(position, definition)
        else:
            self._definitions.append(definition)""", """        if position is not None:
            self._definitions.insert(position, definition)
        else:
            self._definitions.append(definition)
        global_callback._call_library_add_definition(self, definition)"""), "Library.add_definition|Library._definitions"),
    Mutant("E2 dispatch moved above the asserts (seeded C19-B)",
           (D, """        assert instance.parent is not self, "Instance already included in definition"
        assert (
            instance.parent is None
        ), "Instance already belongs to a different definition"
        global_callback._call_definition_add_child(self, instance)""", """        assert instance.parent is not self, "Instance already included in definition"
        global_callback._call_definition_add_child(self, instance)
        assert (
            instance.parent is None
        ), "Instance already belongs to a different definition\""""), "Definition.add_child|definition_add_child"),
    Mutant("E5 wrapper instance installed although only the definition was announced (seeded C19-A)",
           (N, "            top.is_top_instance = True\n            self.top_instance = top", "            top.is_top_instance = True\n            self._top_instance = top"),
           "Netlist.top_instance.setter|Netlist._top_instance|top"),
    Mutant("E3 data deleted without announcement",
           ("spydrnet/ir/first_class_element.py", "        global_callback._call_dictionary_pop(self, item)\n        return self._data.pop(item)", "        return self._data.pop(item)"),
           "FirstClassElement.pop|FirstClassElement._data pop"),
    Mutant("E3a swapped dispatch arguments",
           (C, "global_callback._call_cable_add_wire(self, wire)", "global_callback._call_cable_add_wire(wire, self)"), "Cable.add_wire|"),
    Mutant("twin: reorder two of the 27 registration blocks",
           (GC, """def register_create_netlist(method):
    _register(_container_create_netlist, method)


def register_create_library(method):
    _register(_container_create_library, method)
""", """def register_create_library(method):
    _register(_container_create_library, method)


def register_create_netlist(method):
    _register(_container_create_netlist, method)
"""), None),
    Mutant("twin: dispatch + write extracted into a helper",
           (D, """        global_callback._call_definition_add_cable(self, cable)
        if position is not None:
            self._cables.insert(position, cable)
        else:
            self._cables.append(cable)
        cable._definition = self
""", """        self._link_cable(cable, position)

    def _link_cable(self, cable, position):
        global_callback._call_definition_add_cable(self, cable)
        if position is not None:
            self._cables.insert(position, cable)
        else:
            self._cables.append(cable)
        cable._definition = self
"""), None),
    )

# ---------------------------------------------------------------- third wave: cascade guards, stored-pin test
add("C14",
    Mutant("R1d remove_pins_from loops over the public remove_pin without establishing membership (seeded C14-w3C)",
           (PT, """        assert all(isinstance(x, InnerPin) and x.port == self for x in exclude_pins), (
            "All pins to remove must be " "InnerPins and belong to the port"
        )
        for pin in exclude_pins:
            self._remove_pin(pin)
        self._pins = list(x for x in self._pins if x not in exclude_pins)""",
            """        assert all(isinstance(x, InnerPin) for x in exclude_pins), "All pins to remove must be InnerPins"
        for pin in exclude_pins:
            self.remove_pin(pin)"""), "R1d|spydrnet/ir/port.py:Port.remove_pins_from|Port.remove_pin"),
    Mutant("R1d twin: the same loop over remove_pin, with membership asserted for all pins first",
           (PT, """        for pin in exclude_pins:
            self._remove_pin(pin)
        self._pins = list(x for x in self._pins if x not in exclude_pins)""",
            """        for pin in exclude_pins:
            self.remove_pin(pin)"""), None),
)
add("C01",
    Mutant("O2 disconnect_pins_from tests the handle's wire instead of the stored pin's (seeded C19-w3B)",
           (W, "                    or instance.pins[inner_pin].wire is not self", "                    or pin.wire is not self"),
           "Wire.disconnect_pins_from|wire-pin|bulk-guard"),
    Mutant("O2 disconnect_pins_from: inner-pin branch no longer tests the wire",
           (W, """                if pin.wire != self:
                    all_pins_can_be_disconnected = False
                    break""", """                if pin.wire is None:
                    all_pins_can_be_disconnected = False
                    break"""), "Wire.disconnect_pins_from|wire-pin|bulk-guard"),
)

add("C19",
    Mutant("E5b remove_ports_from announces over the caller's iterable, filters by the snapshot (seeded C19-w3C)",
           (D, "        for port in excluded_ports:\n            self._remove_port(port)", "        for port in ports:\n            self._remove_port(port)"),
           "E5b|spydrnet/ir/definition.py:Definition.remove_ports_from|bulk definition-port"),
)
add("C02",
    Mutant("M2 remove_ports_from unlinks over the caller's iterable, filters by the snapshot (seeded C02-w3C)",
           (D, "        for port in excluded_ports:\n            self._remove_port(port)", "        for port in ports:\n            self._remove_port(port)"),
           "M2|spydrnet/ir/definition.py:Definition.remove_ports_from|bulk definition-port"),
    Mutant("M9 the membership assert of remove_pins_from is folded into the removal loop (seeded C02-w3B)",
           (PT, """        assert all(isinstance(x, InnerPin) and x.port == self for x in exclude_pins), (
            "All pins to remove must be " "InnerPins and belong to the port"
        )
        for pin in exclude_pins:
            self._remove_pin(pin)""", """        for pin in exclude_pins:
            assert isinstance(pin, InnerPin) and pin.port == self, "All pins to remove must be InnerPins and belong to the port"
            self._remove_pin(pin)"""), "M9|spydrnet/ir/port.py:Port.remove_pins_from"),
)

# ---------------------------------------------------------------- spellings of a check (load-time normalisation)
add("C01",
    Mutant("twin: add_port guards through a _require(cond, msg) helper",
           [(D, "class Definition(FirstClassElement):", "def _require(condition, message):\n    if not condition:\n        raise AssertionError(message)\n\n\nclass Definition(FirstClassElement):"),
            (D, '        assert port.definition is None, "Port already belongs to a different definition"\n',
             '        _require(port.definition is None, "Port already belongs to a different definition")\n')], None),
    Mutant("twin: add_port guards with if / raise AssertionError",
           (D, '        assert port.definition is None, "Port already belongs to a different definition"\n',
            '        if port.definition is not None:\n            raise AssertionError("Port already belongs to a different definition")\n'), None),
    Mutant("O2 the _require helper is called with the wrong condition",
           [(D, "class Definition(FirstClassElement):", "def _require(condition, message):\n    if not condition:\n        raise AssertionError(message)\n\n\nclass Definition(FirstClassElement):"),
            (D, '        assert port.definition is None, "Port already belongs to a different definition"\n',
             '        _require(port is not None, "Port already belongs to a different definition")\n')], "Definition.add_port|definition-port|add-guard"),
)
