"""Self-test entries for the rules added after the sixth seed wave (one mutant per rule, with a benign twin where a natural one exists)."""
from ..mutants import Mutant, add

NS = "spydrnet/plugins/namespace_manager/edif_namespace.py"
DEF = "spydrnet/ir/definition.py"
HP = "spydrnet/util/get_hpins.py"
HI = "spydrnet/util/get_hinstances.py"
GI = "spydrnet/util/get_instances.py"
GS = "spydrnet/global_state/global_service.py"
BC = "spydrnet/composers/eblif/eblif_composer.py"
EC = "spydrnet/composers/edif/composer.py"
EN = "spydrnet/composers/edif/edifify_names.py"
EP = "spydrnet/parsers/edif/parser.py"

add("C10",
    Mutant("N10 the legality test answers with a match object (seeded C10-w6C)",
           (NS, 'return bool(re.match(r"^[0-9A-Za-z_]+$", identifier))', 'return re.match(r"^[0-9A-Za-z_]+$", identifier)'), "N10|"),
    Mutant("twin: the same answer as a comparison",
           (NS, 'return bool(re.match(r"^[0-9A-Za-z_]+$", identifier))', 'return re.match(r"^[0-9A-Za-z_]+$", identifier) is not None'), None))

add("C07",
    Mutant("L3c an early return skips the reference-set reset of a childless definition (seeded C08-w6C)",
           (DEF, """        for instance in self._children:
            instance._reference._references.add(instance)
        self._references = set()""",
            """        if not self._children:
            return
        for instance in self._children:
            instance._reference._references.add(instance)
        self._references = set()"""), "L3c|"))

add("C11",
    Mutant("H17 the name map keeps only the first reference of a name (seeded C11-w6C)",
           (HI, """                if hname not in namemap:
                    namemap[hname] = []
                namemap[hname].append(href)""", """                namemap.setdefault(hname, [href])"""), "H17|"),
    Mutant("twin: the name map filled through setdefault(...).append",
           (HI, """                if hname not in namemap:
                    namemap[hname] = []
                namemap[hname].append(href)""", """                namemap.setdefault(hname, []).append(href)"""), None))

add("C12",
    Mutant("H16' the parent reference is carried from one pin of the wire to the next (seeded C11-w6B / C12-w6C)",
           [(HP, """                href_parent_cable = obj.parent
                href_parent_instance = href_parent_cable.parent
                for pin in item.pins:""", """                href_inst = obj.parent.parent
                for pin in item.pins:"""),
            (HP, """                            href_inst = HRef.from_parent_and_item(
                                href_parent_instance, pin.instance
                            )""", """                            href_inst = HRef.from_parent_and_item(href_inst, instance)"""),
            (HP, """                            href_port = HRef.from_parent_and_item(
                                href_parent_instance, port
                            )""", """                            href_port = HRef.from_parent_and_item(href_inst, port)""")], "H16'|"))

add("C13",
    Mutant("Q10 the name map keeps only the first instance of a name (seeded C13-w6C)",
           (GI, """            if name not in namemap:
                namemap[name] = []
            namemap[name].append(other_instance)""", """            namemap.setdefault(name, [other_instance])"""), "Q10|"),
    Mutant("Q7 the fallback scan gives up at the first child without the key (seeded C13-w6B)",
           (GS, """                for instance in parent.children:
                    if key in instance and value == instance[key]:
                        return instance""", """                try:
                    for instance in parent.children:
                        if value == instance[key]:
                            return instance
                except KeyError:
                    pass"""), "scan inside try"))

add("C18",
    Mutant("B10 attributes and parameters written by one if / elif chain (seeded C18-w6C)",
           (BC, """        if "EBLIF.param" in instance.data:""", """        elif "EBLIF.param" in instance.data:"""), "B10|"))

add("C17",
    Mutant("I5 a legal name becomes the identifier without the sibling conflict test (seeded C17-w6B)",
           (EC, """        rename = rename_helper.make_valid(obj, namespace_list)""",
            """        if rename_helper.is_valid_identifier(name):
            rename = name
        else:
            rename = rename_helper.make_valid(obj, namespace_list)"""), "I5|"),
    Mutant("I3 a sibling's identifier is consulted for nameless siblings only (seeded C03-w6A)",
           (EN, """            if (
                element.name is not None and element.name.lower() == identifier.lower()
            ) or (
                "EDIF.identifier" in element.data
                and element["EDIF.identifier"].lower() == identifier.lower()
            ):
                return False""", """            taken = element.name or element.data.get("EDIF.identifier")
            if taken is not None and taken.lower() == identifier.lower():
                return False"""), "identifier only for nameless siblings"))

add("C03",
    Mutant("B3 the base name of a bit is cut at the first bracket (seeded C03-w6C)",
           (EP, """                for i in reversed(range(len(name))):
                    if name[i] == split_character:
                        break
                short_name = name[:i]""", """                short_name = name[: name.index(split_character)]"""), "first delimiter"),
    Mutant("twin: the base name cut at the last bracket with rindex",
           (EP, """                for i in reversed(range(len(name))):
                    if name[i] == split_character:
                        break
                short_name = name[:i]""", """                short_name = name[: name.rindex(split_character)]"""), None))

PT = "spydrnet/util/patterns.py"
add("C13",
    Mutant("Q11 compiled patterns cached under the pattern text alone (seeded C13-w6A)",
           [(PT, "import fnmatch\nimport re\n", """import fnmatch
import re

_compiled_patterns = {}


def _compile_pattern(pattern, is_case):
    regex = _compiled_patterns.get(pattern)
    if regex is None:
        regex = re.compile(pattern, flags=0 if is_case else re.IGNORECASE)
        _compiled_patterns[pattern] = regex
    return regex
"""),
            (PT, "            if re.fullmatch(pattern, value, flags=0 if is_case else re.IGNORECASE):", "            if _compile_pattern(pattern, is_case).fullmatch(value):")],
           "Q11|"),
    Mutant("twin: the cache keyed by pattern and case flag",
           [(PT, "import fnmatch\nimport re\n", """import fnmatch
import re

_compiled_patterns = {}


def _compile_pattern(pattern, is_case):
    regex = _compiled_patterns.get((pattern, is_case))
    if regex is None:
        regex = re.compile(pattern, flags=0 if is_case else re.IGNORECASE)
        _compiled_patterns[(pattern, is_case)] = regex
    return regex
"""),
            (PT, "            if re.fullmatch(pattern, value, flags=0 if is_case else re.IGNORECASE):", "            if _compile_pattern(pattern, is_case).fullmatch(value):")],
           None))

_TS_OLD_HEAD = """        def iterate(o):
            nonlocal visited
            nonlocal output_list
            nonlocal get_dependents
            stack = [o]
"""
_TS_NEW_HEAD = """        def iterate(stack):
            nonlocal visited
            nonlocal output_list
            nonlocal get_dependents
"""
_TS_OLD_DRIVER = """        for o in list_of_objects:
            if o not in visited:
                iterate(o)
"""
for _prop, _rid in (("C03", "B6|"), ("C16", "W6|")):
    add(_prop,
        Mutant("%s the dependency sort starts from the whole input on one stack (seeded C16-w6B)" % _rid[:2],
               [(EC, _TS_OLD_HEAD, _TS_NEW_HEAD), (EC, _TS_OLD_DRIVER, "        iterate(list(list_of_objects))\n")], "stack seeded with many roots"))

# ---- rules added after the seventh seed wave
PO = "spydrnet/ir/port.py"
HW = "spydrnet/util/get_hwires.py"
add("C02",
    Mutant("M2 the outer pin is dropped from the instance only when it was connected (seeded C02-w7C)",
           (PO, """                if wire:
                    wire.disconnect_pin(outer_pin)
                del reference._pins[pin]""", """                if wire:
                    wire.disconnect_pin(outer_pin)
                    del reference._pins[pin]"""), "conditional delete"))
add("C13",
    Mutant("Q2 a regular expression that does not match is tried again as a wildcard (seeded C13-w7A)",
           (PT, """    elif is_case:
        return fnmatch.fnmatchcase(value, pattern.replace("[", "[[]"))
    else:
        return fnmatch.fnmatchcase(value.lower(), pattern.replace("[", "[[]").lower())""", """    if is_case:
        return fnmatch.fnmatchcase(value, pattern.replace("[", "[[]"))
    return fnmatch.fnmatchcase(value.lower(), pattern.replace("[", "[[]").lower())"""), "regex falls through to glob"))
add("C11",
    Mutant("H6 the bus offset is applied twice in the wire name map (seeded C11-w7B)",
           (HW, "                    for wire_index, wire in enumerate(cable.wires):", "                    for wire_index, wire in enumerate(cable.wires, cable.lower_index):"), "bus offset twice"))
add("C03",
    Mutant("B4 the member index counts connected pins only (seeded C03-w7A)",
           (EC, """            for x in range(len(port_ref.pins)):
                # print(self.test)
                if port_ref.pins[x].wire is None:
                    # self.test += 1
                    # self._lisp_decrement_()
                    # print("test")
                    continue
                # if cable_name == port_ref.inner_pins[x].wire.cable["EDIF.identifier"]:
                if port_ref.pins[x] == pin:
                    break
""", """            connected = [p for p in port_ref.pins if p.wire is not None]
            x = connected.index(pin)
"""), "member index in a filtered list"))

HC = "spydrnet/util/get_hcables.py"
add("C12",
    Mutant("H5b one copy of the closure goes on from the wire it found for every selection (seeded C12-w7A; the defect repaired in 130375f)",
           (HC, """                if selection is Selection.ALL:
                    search_stack += (
                        x for x in _get_hpins_from_hwire(hwire_outside) if x != hpin
                    )""", """                search_stack += (
                    x for x in _get_hpins_from_hwire(hwire_outside) if x != hpin
                )"""), "H5b|"),
    Mutant("twin: the guard as an early continue",
           (HC, """                if selection is Selection.ALL:
                    search_stack += (
                        x for x in _get_hpins_from_hwire(hwire_outside) if x != hpin
                    )""", """                if selection is not Selection.ALL:
                    continue
                search_stack += (
                    x for x in _get_hpins_from_hwire(hwire_outside) if x != hpin
                )"""), None))

VPARSE = "spydrnet/parsers/verilog/parser.py"
BPARSE = "spydrnet/parsers/eblif/eblif_parser.py"
add("C04",
    Mutant("B8' the value of a bare attribute key is the previous key's (seeded C04-w7B)",
           (VPARSE, """                    value += token
                    token = self.next_token()
            else:
                value = None
            properties_dict[key] = value""", """                    value += token
                    token = self.next_token()
            properties_dict[key] = value"""), "B8'|"),
    Mutant("twin: the value reset at the top of every iteration",
           (VPARSE, """            key = token.strip()
            token = self.next_token()
            assert token in [vt.EQUAL, vt.STAR, vt.COMMA]""", """            key = token.strip()
            value = None
            token = self.next_token()
            assert token in [vt.EQUAL, vt.STAR, vt.COMMA]"""), None))

add("C18",
    Mutant("B11 every port that already exists becomes INOUT (seeded C18-w7A)",
           (BPARSE, """            if port.direction in {
                sdn.IN,
                sdn.INOUT,
            }:  # it's an input port and now an output, so it's inout""", """            if port:  # it's an input port and now an output, so it's inout"""), "B11|"),
    Mutant("twin: the direction test held in a local",
           (BPARSE, """            if port.direction in {
                sdn.IN,
                sdn.INOUT,
            }:  # it's an input port and now an output, so it's inout""", """            was_input = port.direction in {sdn.IN, sdn.INOUT}
            if was_input:"""), None))

add("C12",
    Mutant("H5b the helper that lists the pins of a wire leaves the port pins out on a switch (seeded C12-w6B)",
           (HC, """def _get_hpins_from_hwire(hwire):
    hcable = hwire.parent
    hinst = hcable.parent
    for pin in hwire.item.pins:
        if isinstance(pin, InnerPin):
            port = pin.port
            if port:""", """def _get_hpins_from_hwire(hwire, ports=True):
    hcable = hwire.parent
    hinst = hcable.parent
    for pin in hwire.item.pins:
        if isinstance(pin, InnerPin):
            port = pin.port
            if port and ports:"""), "H5b|"))
