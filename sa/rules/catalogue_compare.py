"""Self-test catalogue for the comparer rules (C20)."""
from ..mutants import Mutant, add

CMP = "spydrnet/compare/compare_netlists.py"

add("C20",
    Mutant("K7 the direction comparison wrapped in a one-element tuple",
           (CMP, """        assert port_orig.direction == port_composer.direction, (""",
            """        same_direction = (
            port_orig.direction == port_composer.direction,
        )
        assert same_direction, ("""), "K7|"),
    Mutant("K8 references compared only when both are present",
           (CMP, """        assert (
            instances_orig.reference is None and instances_composer.reference is None
        ) or (
            self.get_identifier(instances_orig.reference)
            == self.get_identifier(instances_composer.reference)
            and self.get_identifier(instances_orig.reference.library)
            == self.get_identifier(instances_composer.reference.library)
        ), "Instances do not have the same reference definition."
""", """        if instances_orig.reference is not None and instances_composer.reference is not None:
            assert (
                self.get_identifier(instances_orig.reference)
                == self.get_identifier(instances_composer.reference)
                and self.get_identifier(instances_orig.reference.library)
                == self.get_identifier(instances_composer.reference.library)
            ), "Instances do not have the same reference definition."
"""), "K8|"),
    Mutant("twin: both-missing handled by an early branch",
           (CMP, """        assert (
            instances_orig.reference is None and instances_composer.reference is None
        ) or (
            self.get_identifier(instances_orig.reference)
            == self.get_identifier(instances_composer.reference)
            and self.get_identifier(instances_orig.reference.library)
            == self.get_identifier(instances_composer.reference.library)
        ), "Instances do not have the same reference definition."
""", """        if instances_orig.reference is None:
            assert instances_composer.reference is None, "Instances do not have the same reference definition."
        else:
            assert (
                self.get_identifier(instances_orig.reference)
                == self.get_identifier(instances_composer.reference)
                and self.get_identifier(instances_orig.reference.library)
                == self.get_identifier(instances_composer.reference.library)
            ), "Instances do not have the same reference definition."
"""), None),
    Mutant("K1 direction compared with itself",
           (CMP, "assert port_orig.direction == port_composer.direction, (", "assert port_orig.direction == port_orig.direction, ("), "compare_ports|self-compare"),
    Mutant("K1 helper called with the original twice",
           (CMP, "            pin_orig.inner_pin, pin_composer.inner_pin", "            pin_orig.inner_pin, pin_orig.inner_pin"), "compare_outer_pins|same-side-call"),
    Mutant("K1 different quantities compared",
           (CMP, 'assert port_orig.is_array == port_composer.is_array, "Ports Array mismatch"', 'assert port_orig.is_array == port_composer.is_scalar, "Ports Array mismatch"'),
           "compare_ports|mismatch"),
    Mutant("K2 wire-count assert deleted",
           (CMP, "        assert len(cable_orig.wires) == len(cable_composer.wires), (", "        assert len(cable_orig.wires) >= 0, ("), "compare_cables|missing|len(X.wires)"),
    Mutant("K2 instance reference library no longer compared",
           (CMP, """            self.get_identifier(instances_orig.reference)
            == self.get_identifier(instances_composer.reference)
            and self.get_identifier(instances_orig.reference.library)
            == self.get_identifier(instances_composer.reference.library)
        ), "Instances do not have the same reference definition.\"""", """            self.get_identifier(instances_orig.reference)
            == self.get_identifier(instances_composer.reference)
        ), "Instances do not have the same reference definition.\""""), "compare_instances|missing|self.get_identifier(X.reference.library)"),
    Mutant("K3 leaf definitions skip cable/instance counts (seeded C20-B)",
           (CMP, "        assert len(definition_orig.cables) == len(definition_composer.cables), (", "        if definition_orig.is_leaf():\n            return\n        assert len(definition_orig.cables) == len(definition_composer.cables), ("),
           "compare_definition|early-return"),
    Mutant("K3 instances of leaf cells are skipped",
           (CMP, """                if orig_instance.name.startswith("SDN_Assignment_"):
                    # skip assignment statements for now
                    continue""", """                if orig_instance.name.startswith("SDN_Assignment_") or orig_instance.is_leaf():
                    # skip assignment statements for now
                    continue"""), "compare_definition|skip"),
    Mutant("K4 one-sided escape clause (seeded C20-A)",
           (CMP, "            instances_orig.reference is None and instances_composer.reference is None", "            instances_orig.reference is None or instances_composer.reference is None"),
           "compare_instances|one-sided-escape"),
    Mutant("twin: swap operand order of a cross-side comparison",
           (CMP, "assert port_orig.direction == port_composer.direction, (", "assert port_composer.direction == port_orig.direction, ("), None),
    )

add("C20",
    Mutant("K6 the counterpart definition is looked up in the whole copy netlist (seeded C20-w3B)",
           (CMP, "composer_definition = next(sdn.get_definitions(library_composer, patterns))", "composer_definition = next(sdn.get_definitions(self.ir_composer, patterns))"),
           "K6|spydrnet/compare/compare_netlists.py:Comparer.compare_libraries|get_definitions|self.ir_composer"),
    Mutant("K6 twin: method form of the same lookup",
           (CMP, "composer_definition = next(sdn.get_definitions(library_composer, patterns))", "composer_definition = next(library_composer.get_definitions(patterns))"), None),
)
