"""Self-test catalogue for the namespace rules (C10)."""
from ..mutants import Mutant, add

NS = "spydrnet/plugins/namespace_manager/__init__.py"
ED = "spydrnet/plugins/namespace_manager/edif_namespace.py"
DF = "spydrnet/plugins/namespace_manager/default_namespace.py"
GS = "spydrnet/global_state/global_service.py"

add("C10",
    Mutant("N1 delete the definition_remove_cable override",
           (NS, "    def definition_remove_cable(self, definition, cable):\n        self.remove(cable, parent=definition)\n\n", ""),
           "definition_remove_cable|missing"),
    Mutant("N1 add handler swaps parent and child",
           (NS, "    def library_add_definition(self, library, definition):\n        self.add(library, definition)",
            "    def library_add_definition(self, library, definition):\n        self.add(definition, library)"), "library_add_definition|args"),
    Mutant("N2 update above the conflict loop",
           (NS, """                namespace = self.namespaces[parent]
                for key in ["EDIF.identifier", ".NAME"]:
                    if key in child:
                        no_conflict""", """                namespace = self.namespaces[parent]
                for key in ["EDIF.identifier", ".NAME"]:
                    if key in child:
                        namespace.update(child, key, child[key])
                for key in ["EDIF.identifier", ".NAME"]:
                    if key in child:
                        no_conflict"""), "NamespaceManager.add|"),
    Mutant("N3 drop .lower() in EdifNamespace.update",
           (ED, "            namespace[value.lower()] = element", "            namespace[value] = element"), "EdifNamespace.update|index value"),
    Mutant("N3 lookup without case folding",
           (ED, "                return namespace.get(value.lower(), None)", "                return namespace.get(value, None)"), "EdifNamespace.lookup|get value"),
    Mutant("N3 remove tests the identifier as written",
           (ED, """                    old_name = element["EDIF.identifier"].lower()
                    if old_name in namespace:
                        del namespace[old_name]""", """                    old_name = element["EDIF.identifier"]
                    if old_name in namespace:
                        del namespace[old_name.lower()]"""), "EdifNamespace.remove|membership test old_name"),
    Mutant("N4 EDIF remove forgets identifiers",
           (ED, """        elif key == "EDIF.identifier":
            if element_type in self.edif_namespaces:
                namespace = self.edif_namespaces[element_type]
                if "EDIF.identifier" in element:
                    old_name = element["EDIF.identifier"].lower()
                    if old_name in namespace:
                        del namespace[old_name]
""", ""), "EdifNamespace|remove keys"),
    Mutant("N5 delete the old-name removal in update",
           (DF, """            if ".NAME" in element:
                old_name = element[".NAME"]
                if old_name in namespace:
                    del namespace[old_name]
            namespace[value] = element""", "            namespace[value] = element"), "DefaultNamespace.update|.NAME|no-delete"),
    Mutant("N6 dictionary_pop ignores identifiers",
           (NS, """    def dictionary_pop(self, element, key):
        if key == ".NS":
            if self.ignore_ns_change is False:
                if self.get_parent(element) is not None:
                    raise ValueError(
                        "Cannot change the namespace of a object already belonging to a parent"
                    )
                if ".NS" in element:
                    self.drop_namespace(element)
        elif key in {".NAME", "EDIF.identifier"}:""", """    def dictionary_pop(self, element, key):
        if key == ".NS":
            if self.ignore_ns_change is False:
                if self.get_parent(element) is not None:
                    raise ValueError(
                        "Cannot change the namespace of a object already belonging to a parent"
                    )
                if ".NS" in element:
                    self.drop_namespace(element)
        elif key in {".NAME"}:"""), "NamespaceManager.dictionary_pop|keys"),
    Mutant("N6 deleting one key de-indexes both (seeded C10-B)",
           (NS, """            if parent and parent in self.namespaces:
                namespace = self.namespaces[parent]
                namespace.remove(element, key)

    def dictionary_pop""", """            if parent and parent in self.namespaces:
                self.remove(element)

    def dictionary_pop"""), "NamespaceManager.dictionary_delete|remove forwards"),
    Mutant("N7 apply_namespace skips cables",
           (NS, """                self._update_new_namespace(element.cables, new_namespace)
""", ""), "apply_namespace|Definition.cables not indexed"),
    Mutant("N7 drop_namespace skips cables",
           (NS, """                search_stack += element.ports
                search_stack += element.cables
                search_stack += element.children
        self.ignore_ns_change = False


_load_policies()""", """                search_stack += element.ports
                search_stack += element.children
        self.ignore_ns_change = False


_load_policies()"""), "NamespaceManager.drop_namespace|Definition.cables missing"),
    Mutant("N7 get_parent forgets instances",
           (NS, "        elif isinstance(element, Instance):\n            parent = element.parent\n", ""), "get_parent|Instance.parent"),
    Mutant("N7 fallback scan stops at the first child without the key (seeded C13-B)",
           (GS, """                for instance in parent.children:
                    if key in instance and value == instance[key]:
                        return instance""", """                for instance in parent.children:
                    if key not in instance:
                        break
                    if value == instance[key]:
                        return instance"""), "lookup|children break"),
    Mutant("N7 fallback looks for ports among cables",
           (GS, "                for port in parent.ports:", "                for port in parent.cables:"), "lookup|Definition.ports"),
    Mutant("twin: reorder handler definitions",
           (NS, """    def definition_add_port(self, definition, port):
        self.add(definition, port)

    def definition_remove_port(self, definition, port):
        self.remove(port, parent=definition)
""", """    def definition_remove_port(self, definition, port):
        self.remove(port, parent=definition)

    def definition_add_port(self, definition, port):
        self.add(definition, port)
"""), None),
    Mutant("N9 the policy lets a plain identifier start with an underscore",
           (ED, """            if identifier[0].isalpha() is False:
                return False
            return bool(re.match(r"^[0-9A-Za-z_]+$", identifier))""",
            """            return bool(re.match(r"^[A-Za-z_][0-9A-Za-z_]*$", identifier))"""), "N9|"),
    Mutant("twin: the first-character test folded into the pattern",
           (ED, """            if identifier[0].isalpha() is False:
                return False
            return bool(re.match(r"^[0-9A-Za-z_]+$", identifier))""",
            """            return bool(re.match(r"^[A-Za-z][0-9A-Za-z_]*$", identifier))"""), None),
    Mutant("twin: bind the lowered value to a local first",
           (ED, "            namespace[value.lower()] = element", "            folded = value.lower()\n            namespace[folded] = element"), None),
    Mutant("twin: traverse relations in another order",
           (NS, """                search_stack += element.ports
                search_stack += element.cables
                search_stack += element.children
        self.ignore_ns_change = False


_load_policies()""", """                search_stack += element.children
                search_stack += element.cables
                search_stack += element.ports
        self.ignore_ns_change = False


_load_policies()"""), None),
    )
