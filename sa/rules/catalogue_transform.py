"""Self-test catalogue for C08 (uniquify) and C09 (flatten)."""
from ..mutants import Mutant, add

U = "spydrnet/uniquify.py"
F = "spydrnet/flatten.py"

add("C08",
    Mutant("U1 the clone is never added to a library",
           (U, "    lib.add_definition(new_def, index + 1)\n", ""), "U1|spydrnet/uniquify.py:_make_instance_unique|placement"),
    Mutant("U1 the library is read after the instance was re-pointed (the clone's own library)",
           (U, "    lib.add_definition(new_def, index + 1)\n    instance.reference = new_def\n",
            "    instance.reference = new_def\n    instance.reference.library.add_definition(new_def, index + 1)\n"),
           "U1|spydrnet/uniquify.py:_make_instance_unique|library"),
    Mutant("U1 the instance is pointed back at the shared original",
           (U, "    instance.reference = new_def\n", "    instance.reference = reference\n"), "U1|spydrnet/uniquify.py:_make_instance_unique|re-point"),
    Mutant("U1 re-point only for named definitions",
           (U, "    lib.add_definition(new_def, index + 1)\n    instance.reference = new_def\n",
            "    lib.add_definition(new_def, index + 1)\n    if instance.reference.name is not None:\n        instance.reference = new_def\n"),
           "U1|spydrnet/uniquify.py:_make_instance_unique|re-point path"),
    Mutant("U2 the counter is never advanced",
           (U, "    MOD_NAME_UID += 1\n", ""), "U2|spydrnet/uniquify.py:_get_unique_name_modifier|counter"),
    Mutant("U2 the clone keeps a constant suffix",
           (U, "        unique_suffix = _get_unique_name_modifier()\n", "        unique_suffix = \"_sdn_unique\"\n"), "U2|spydrnet/uniquify.py:_make_instance_unique|name"),
    Mutant("U2 the EDIF identifier is not made fresh",
           (U, "            new_def[\"EDIF.identifier\"] = new_def[\"EDIF.identifier\"] + unique_suffix\n", "            pass\n"),
           "U2|spydrnet/uniquify.py:_make_instance_unique|no-identifier"),
    Mutant("U3 only the first child of the top is queued",
           (U, "    for chld in top_definition.children:\n        instance_queue.append(chld)\n",
            "    for chld in top_definition.children:\n        instance_queue.append(chld)\n        break\n"), "U3|spydrnet/uniquify.py:uniquify|seed"),
    Mutant("U3 children are queued before the instance is made unique",
           (U, """        if not _is_unique(inst):
            # uniquify
            _make_instance_unique(inst)
        # put their children on the stack
        for chld in inst.reference.children:
            instance_queue.append(chld)""", """        for chld in inst.reference.children:
            instance_queue.append(chld)
        if not _is_unique(inst):
            _make_instance_unique(inst)"""), "U3|spydrnet/uniquify.py:uniquify|descent-before-unique"),
    Mutant("U3 instances that were already unique are not descended into",
           (U, """            _make_instance_unique(inst)
        # put their children on the stack
        for chld in inst.reference.children:
            instance_queue.append(chld)""", """            _make_instance_unique(inst)
        else:
            continue
        for chld in inst.reference.children:
            instance_queue.append(chld)"""), "U3|spydrnet/uniquify.py:uniquify|descent skipped"),
    Mutant("U3 leaf-looking children are not queued",
           (U, "        for chld in inst.reference.children:\n            instance_queue.append(chld)",
            "        for chld in inst.reference.children:\n            if chld.reference.children:\n                instance_queue.append(chld)"),
           "U3|spydrnet/uniquify.py:uniquify|"),
    Mutant("U4 the uniqueness test is inverted",
           (U, "        if not _is_unique(inst):", "        if _is_unique(inst):"), "U4|spydrnet/uniquify.py:uniquify|guard"),
    Mutant("U4 the uniqueness test ignores the number of instances",
           (U, "    return len(instance.reference.references) == 1 or instance.reference.is_leaf()", "    return instance.reference.is_leaf()"),
           "U4|spydrnet/uniquify.py:uniquify|guard"),
    Mutant("twin: depth-first instead of breadth-first",
           (U, "        inst = instance_queue.popleft()", "        inst = instance_queue.pop()"), None),
    Mutant("twin: suffix fetched inline",
           (U, "        unique_suffix = _get_unique_name_modifier()\n        new_def.name = name + unique_suffix\n",
            "        unique_suffix = _get_unique_name_modifier()\n        new_def.name = instance.reference.name + unique_suffix\n"), None),
    Mutant("twin: positive test with else branch",
           (U, "        if not _is_unique(inst):\n            # uniquify\n            _make_instance_unique(inst)\n",
            "        if _is_unique(inst):\n            pass\n        else:\n            _make_instance_unique(inst)\n"), None),
)

add("C09",
    Mutant("F1 children are queued without a name",
           (F, "            instance_queue.append(child)\n            name_queue.append(inst.name)\n", "            instance_queue.append(child)\n"),
           "F1|spydrnet/flatten.py:flatten|unpaired feed"),
    Mutant("F1 children inherit the grand-parent's path",
           (F, "            name_queue.append(inst.name)\n", "            name_queue.append(parent_name)\n"), "F1|spydrnet/flatten.py:flatten|child path"),
    Mutant("F1 first-level names get a prefix",
           (F, "        name_queue.append(\"\")\n", "        name_queue.append(top_instance.name)\n"), "F1|spydrnet/flatten.py:flatten|seed name"),
    Mutant("F1 the instance is moved under its own name instead of the popped path",
           (F, "        _bring_to_top(inst, parent_name, top_definition)\n", "        _bring_to_top(inst, inst.name, top_definition)\n"),
           "F1|spydrnet/flatten.py:flatten|path arg"),
    Mutant("F2 leaves are not moved to the top",
           (F, """        _bring_to_top(inst, parent_name, top_definition)
        if inst.reference.is_leaf():
            continue
""", """        if inst.reference.is_leaf():
            continue
        _bring_to_top(inst, parent_name, top_definition)
"""), "F2|spydrnet/flatten.py:flatten|instance move skipped"),
    Mutant("F2 the element is added to the top before it is removed from its parent",
           (F, """    if isinstance(e, Cable):
        d = e.definition
        d.remove_cable(e)
    else:
        d = e.parent
        d.remove_child(e)
    # _rename_element(c)
    if add_to_name != "":
        e.name = add_to_name + "/" + e.name
    else:
        e.name = e.name
    if isinstance(e, Cable):
        top_definition.add_cable(e)
    else:
        top_definition.add_child(e)
""", """    if add_to_name != "":
        e.name = add_to_name + "/" + e.name
    else:
        e.name = e.name
    if isinstance(e, Cable):
        top_definition.add_cable(e)
    else:
        top_definition.add_child(e)
    if isinstance(e, Cable):
        d = e.definition
        d.remove_cable(e)
    else:
        d = e.parent
        d.remove_child(e)
"""), "F2|spydrnet/flatten.py:_bring_to_top|"),
    Mutant("F2 names are joined with an underscore",
           (F, "        e.name = add_to_name + \"/\" + e.name\n", "        e.name = add_to_name + \"_\" + e.name\n"), "F2|spydrnet/flatten.py:_bring_to_top|name"),
    Mutant("F2 cables are put back into the definition they came from",
           (F, "        top_definition.add_cable(e)\n", "        d.add_cable(e)\n"), "F2|spydrnet/flatten.py:_bring_to_top|Cable target"),
    Mutant("F3 cables are moved while iterating the live list",
           (F, """        temp_cables = []
        for cable in inst.reference.cables:
            temp_cables.append(cable)
        for cable in temp_cables:
            _bring_to_top(cable, inst.name, top_definition)
""", """        for cable in inst.reference.cables:
            _bring_to_top(cable, inst.name, top_definition)
"""), "F3|spydrnet/flatten.py:flatten|live cables"),
    Mutant("F3 only output ports are reconnected",
           (F, "        for port in inst.reference.ports:\n            _redo_connections(inst, port)\n",
            "        for port in inst.reference.ports:\n            if port.direction is Port.Direction.OUT:\n                _redo_connections(inst, port)\n"),
           "F3|spydrnet/flatten.py:flatten|ports"),
    Mutant("F3 the emptied shells are never removed",
           (F, "    for i in to_remove:\n        top_definition.remove_child(i)\n", ""), "F3|spydrnet/flatten.py:flatten|shell removal"),
    Mutant("F3 the shell is recorded before the leaf test",
           (F, """        if inst.reference.is_leaf():
            continue
""", """        to_remove.append(inst)
        if inst.reference.is_leaf():
            continue
"""), "F3|spydrnet/flatten.py:flatten|shell removal"),
    Mutant("F3 grandchildren of wire-only cells are skipped",
           (F, "        for child in inst.reference.children:\n            instance_queue.append(child)\n            name_queue.append(inst.name)\n",
            "        for child in inst.reference.children:\n            if child.reference.is_leaf():\n                continue\n            instance_queue.append(child)\n            name_queue.append(inst.name)\n"),
           "F3|spydrnet/flatten.py:flatten|children"),
    Mutant("F4 the port pin stays on the inner net",
           (F, "        if in_wire:\n            in_wire.disconnect_pin(in_pin)\n        if out_wire:", "        if out_wire:"),
           "F4|spydrnet/flatten.py:_redo_connections|boundary pins"),
    Mutant("F4 pins are moved while iterating the live pin list",
           (F, """        pins_to_move = []
        if in_wire:
            for p in in_wire.pins:
                # if p != in_pin:
                pins_to_move.append(p)

        if out_wire:
            for p in pins_to_move:
""", """        if out_wire and in_wire:
            for p in in_wire.pins:
"""), "F4|spydrnet/flatten.py:_redo_connections|live pins"),
    Mutant("F4 pins are connected to the outer net without leaving the inner one",
           (F, "                in_wire.disconnect_pin(p)\n                out_wire.connect_pin(p)\n", "                out_wire.connect_pin(p)\n"),
           "F4|spydrnet/flatten.py:_redo_connections|move pairing"),
    Mutant("F5 the identifier counter is never advanced",
           (F, "    str_out = \"sdn_flat_\" + str(mod_name_uid)\n    mod_name_uid += 1\n", "    str_out = \"sdn_flat_\" + str(mod_name_uid)\n"),
           "F5|spydrnet/flatten.py:_get_unique_name_modifier|counter"),
    Mutant("twin: snapshot by list()",
           (F, """        temp_cables = []
        for cable in inst.reference.cables:
            temp_cables.append(cable)
""", """        temp_cables = list(inst.reference.cables)
"""), None),
    Mutant("twin: depth-first order",
           (F, "        inst = instance_queue.popleft()\n        parent_name = name_queue.popleft()\n", "        inst = instance_queue.pop()\n        parent_name = name_queue.pop()\n"), None),
    Mutant("twin: debug printing removed from the mover",
           (F, """        good = False
        if mod_name_uid == 45773:
            print(e["EDIF.identifier"])
            print(e)
            good = True
""", "        good = False\n"), None),
)
