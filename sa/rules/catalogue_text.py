"""Self-test catalogue for the write-then-read acceptance rules (C03, C04, C18)."""
from ..mutants import Mutant, add

E = "spydrnet/composers/edif/composer.py"
EP = "spydrnet/parsers/edif/parser.py"
V = "spydrnet/composers/verilog/composer.py"
VP = "spydrnet/parsers/verilog/parser.py"
B = "spydrnet/composers/eblif/eblif_composer.py"
BP = "spydrnet/parsers/eblif/eblif_parser.py"

add("C03",
    Mutant("B1 drop one decrement in the boolean-property branch",
           (E, """            self._output_.write("boolean ")
            self._lisp_increment_()
            self._output_.write(str(value))
            self._lisp_decrement_()""", """            self._output_.write("boolean ")
            self._lisp_increment_()
            self._output_.write(str(value))"""), "_output_property_|"),
    Mutant("B1 status block closes one parenthesis too many",
           (E, """        self._new_line_()
        self._lisp_decrement_()
        self._new_line_()
        self._lisp_decrement_()

    def _output_library_""", """        self._new_line_()
        self._lisp_decrement_()
        self._new_line_()
        self._lisp_decrement_()
        self._lisp_decrement_()

    def _output_library_"""), "_output_status_|"),
    Mutant("B2 keyword typo cellreff",
           (E, '        self._output_.write("cellref ")\n        definition = instance.reference', '        self._output_.write("cellreff ")\n        definition = instance.reference'), "viewref>cellreff"),
    Mutant("B2 net written inside interface",
           (E, """        for port in definition.ports:
            self._output_port_(port)
        self._lisp_decrement_()""", """        for port in definition.ports:
            self._output_port_(port)
        for cable in definition.cables:
            self._output_cable_(cable)
        self._lisp_decrement_()"""), "interface>net"),
    Mutant("B2 undefined direction written again",
           (E, """        else:
            return "OUTPUT"
""", """        elif direction == Port.Direction.OUT:
            return "OUTPUT"
        else:
            return "UNDEFINED"
"""), "direction|UNDEFINED"),
    Mutant("B3 per-bit identifiers use another delimiter",
           (E, 'identifier = cable["EDIF.identifier"] + "_" + str(cable_index) + "_"', 'identifier = cable["EDIF.identifier"] + "." + str(cable_index) + "."'), "identifier-delimiters"),
    Mutant("B3 reader splits names on parentheses",
           (EP, 'n_index, n_short = self.separate_name_and_index(c_name, "[")', 'n_index, n_short = self.separate_name_and_index(c_name, "(")'), "name-delimiters"),
    Mutant("B4 member index skips unconnected pins (seeded C03-B)",
           (E, """            for x in range(len(port_ref.pins)):
                # print(self.test)
                if port_ref.pins[x].wire is None:
                    # self.test += 1
                    # self._lisp_decrement_()
                    # print("test")
                    continue
                # if cable_name == port_ref.inner_pins[x].wire.cable["EDIF.identifier"]:
                if port_ref.pins[x] == pin:
                    break""", """            x = 0
            for candidate in port_ref.pins:
                if candidate.wire is None:
                    continue
                if candidate == pin:
                    break
                x += 1"""), "_output_port_ref_|counter x"),
    Mutant("twin: same text through one combined write",
           (E, """        self._lisp_increment_()
        self._output_.write("edifLevel 0")
        self._lisp_decrement_()
        self._new_line_()

        self._lisp_increment_()
        self._output_.write("keywordmap ")""", """        self._lisp_increment_()
        self._output_.write("edifLevel" + " 0")
        self._lisp_decrement_()
        self._new_line_()

        self._lisp_increment_()
        self._output_.write("keywordmap ")"""), None),
    )

add("C04",
    Mutant("B1' closing brace dropped on one path",
           (V, "        self.file.write(vt.CLOSE_BRACE)", "        if len(wires) > 1:\n            self.file.write(vt.CLOSE_BRACE)"), "_write_concatenation|"),
    Mutant("B1' endmodule only for non-primitives",
           (V, "        self.file.write(vt.END_MODULE)\n", "        if definition.library.name != \"hdi_primitives\":\n            self.file.write(vt.END_MODULE)\n"), "Composer._write_module|"),
    Mutant("B1' endcelldefine dropped",
           (V, "            self.file.write(vt.NEW_LINE)\n            self.file.write(vt.END_CELL_DEFINE)\n", "            self.file.write(vt.NEW_LINE)\n"), "Composer._write_module|"),
    Mutant("B2' writer emits a token the reader never looks at",
           (V, "            self.file.write(vt.WIRE)", "            self.file.write(vt.LOCAL_PARAM)"), None),  # LOCAL_PARAM is referenced by the reader: accepted text
    Mutant("B4' parameters no longer written",
           (V, '"VERILOG.Parameters"', '"VERILOG.Params"', 0), "key|VERILOG.Parameters"),
    Mutant("B5' separator set only for valued attributes (seeded C04-B)",
           (V, """                else:
                    self.file.write(first + k)
                first = vt.COMMA + vt.SPACE""", """                    first = vt.COMMA + vt.SPACE
                else:
                    self.file.write(first + k)"""), "_write_star_constraints|separator first"),
    Mutant("twin: bind the closing token to a local before writing it",
           (V, "        self.file.write(vt.CLOSE_BRACE)", "        closing = vt.CLOSE_BRACE\n        self.file.write(closing)"), None),
    )

add("C18",
    Mutant("B2'' writer emits .subckts",
           (B, '".subckt "', '".subckts "', 0), "directive|.subckts"),
    Mutant("B5 reader tags a new category without a writer branch",
           (BP, '"EBLIF.type"] = "EBLIF.latch"', '"EBLIF.type"] = "EBLIF.flipflop"'), "category|EBLIF.flipflop"),
    Mutant("B5 gate branch writes the subckt list",
           (B, 'self.compose_subcircuits(categories["EBLIF.gate"], is_gate=True)', 'self.compose_subcircuits(categories["EBLIF.subckt"], is_gate=True)'), "branch|EBLIF.gate"),
    Mutant("B4'' attributes no longer written",
           (B, '"EBLIF.attr"', '"EBLIF.attribute"', 0), "key|EBLIF.attr"),
    Mutant("B1'' model without .end when it has no instances",
           (B, "        self.compose_instances()\n        self.compose_end()", "        if not model.children:\n            return\n        self.compose_instances()\n        self.compose_end()"), "compose_model|model-without-end"),
    Mutant("B6 merge iterates the live pin list (seeded C18-A)",
           (BP, "        wire_one_pins = wire_one.pins.copy()\n        for pin in wire_one_pins:", "        for pin in wire_one.pins:"), "merge_wires|live-iteration"),
    Mutant("B6 latch net index taken from the pin (seeded C18-B)",
           (B, 'to_write += "[" + str(pin.wire.index()) + "]"\n                        to_write += " "\n                    else:\n                        to_write += "unconn "', 'to_write += "[" + str(pin.index()) + "]"\n                        to_write += " "\n                    else:\n                        to_write += "unconn "'),
           "pin-index-for-net"),
    Mutant("twin: reorder the category tests",
           (B, """        if "EBLIF.names" in categories.keys():
            self.compose_names(categories["EBLIF.names"])
        if "EBLIF.latch" in categories.keys():
            self.compose_latches(categories["EBLIF.latch"])""", """        if "EBLIF.latch" in categories.keys():
            self.compose_latches(categories["EBLIF.latch"])
        if "EBLIF.names" in categories.keys():
            self.compose_names(categories["EBLIF.names"])"""), None),
    )

# ---------------------------------------------------------------- third wave
add("C03",
    Mutant("B5 the original identifier of a property is read, not removed (seeded C03-w3B)",
           (EP, """        if original_identifier_prefix in self.elements[-1]:
            original_identifier = self.elements[-1].pop(original_identifier_prefix)
            property_["original_identifier"] = original_identifier
""", """        original_identifier = self.elements[-1].get(original_identifier_prefix)
        if original_identifier is not None:
            property_["original_identifier"] = original_identifier
"""), "B5|spydrnet/parsers/edif/parser.py:EdifParser.parse_property_like_element|get"),
    Mutant("B5 the port identifier of a portRef is read by subscript",
           (EP, 'port_identifier = self.elements[-1].pop("EDIF.portRef.identifier")', 'port_identifier = self.elements[-1]["EDIF.portRef.identifier"]'),
           "B5|spydrnet/parsers/edif/parser.py:EdifParser.parse_portRef|subscript"),
)
add("C04",
    Mutant("B6' the right-hand side of an assign takes its low bound from the left-hand wires (seeded C04-w3A)",
           (V, "        li = self._index_of_wire_in_cable(in_wires[0])", "        li = self._index_of_wire_in_cable(out_wires[0])"),
           "B6'|spydrnet/composers/verilog/composer.py:Composer._write_assignment|foreign-wire|in_cables[0]"),
    Mutant("B6' the left-hand side of an assign takes its high bound from the right-hand wires",
           (V, "        hi = self._index_of_wire_in_cable(out_wires[-1])", "        hi = self._index_of_wire_in_cable(in_wires[-1])"),
           "B6'|spydrnet/composers/verilog/composer.py:Composer._write_assignment|foreign-wire|out_cables[0]"),
    Mutant("B6' concatenations use the raw position of a wire (seeded C04-w3C)",
           (V, "                index = self._index_of_wire_in_cable(w)\n                if w.cable.name == previous_cable.name:",
            "                index = w.cable.wires.index(w)\n                if w.cable.name == previous_cable.name:"),
           "B6'|spydrnet/composers/verilog/composer.py:Composer._write_concatenation|raw-position"),
    Mutant("B6' twin: bounds computed inline",
           (V, """        hi = self._index_of_wire_in_cable(in_wires[-1])
        li = self._index_of_wire_in_cable(in_wires[0])
        self._write_bundle_with_indicies(in_cables[0], li, hi)""", """        self._write_bundle_with_indicies(
            in_cables[0], self._index_of_wire_in_cable(in_wires[0]), self._index_of_wire_in_cable(in_wires[-1])
        )"""), None),
)
add("C18",
    Mutant("B7 the second operand of .conn is indexed with the first operand's bit (seeded C18-w3B)",
           (BP, "        wire_two = cable_two.wires[index_two]", "        wire_two = cable_two.wires[index_one]"),
           "B7|spydrnet/parsers/eblif/eblif_parser.py:EBLIFParser.get_connected_wires|cable_two.wires grown for index_two"),
    Mutant("B7 a port pin is read one past the bit it was grown for",
           (BP, "            while len(port.pins) < index + 1:\n                port.create_pin()\n            pin = port.pins[index]\n            self.connect_pin_to_wire(pin, port_name, index)",
            "            while len(port.pins) < index + 1:\n                port.create_pin()\n            pin = port.pins[index - 1]\n            self.connect_pin_to_wire(pin, port_name, index)"),
           "B7|"),
)
