"""C10 — sibling names stay unique and exact-name lookup agrees with a scan: N1-N7."""
import ast
import re

from ..core import parent_chain, AnalysisError, norm, short, walk_local
from ..typestate import classify_set
from . import register
from ..inline import inlined_view
from .ir_typestate import rule_n2

NS_INIT = "spydrnet/plugins/namespace_manager/__init__.py"
NS_DEF = "spydrnet/plugins/namespace_manager/default_namespace.py"
NS_EDIF = "spydrnet/plugins/namespace_manager/edif_namespace.py"
GS = "spydrnet/global_state/global_service.py"

# containment schema with named children (from the relation table): parent class -> [(attribute, child class)]
SCHEMA = {"Netlist": [("libraries", "Library")], "Library": [("definitions", "Definition")],
          "Definition": [("ports", "Port"), ("cables", "Cable"), ("children", "Instance")]}
PARENT_ATTR = {"Library": "netlist", "Definition": "library", "Port": "definition", "Cable": "definition", "Instance": "parent"}
RELATION_HANDLERS = {
    "netlist_add_library": "add", "netlist_remove_library": "remove",
    "library_add_definition": "add", "library_remove_definition": "remove",
    "definition_add_port": "add", "definition_remove_port": "remove",
    "definition_add_cable": "add", "definition_remove_cable": "remove",
    "definition_add_child": "add", "definition_remove_child": "remove",
}
WATCHED = {".NAME", "EDIF.identifier"}


def _n1(ctx, R):
    R.rule("N1", "handler coverage: the namespace manager overrides the add and remove hook of every containment relation with "
                 "named children and forwards (parent, child) to its add / remove; the three dictionary hooks exist")
    P = ctx.P
    nm = P.cls(NS_INIT, "NamespaceManager")
    n = 0
    for k, what in sorted(RELATION_HANDLERS.items()):
        n += 1
        h = nm.methods.get(k)
        if h is None:
            R.bad("N1", "%s|missing" % k, NS_INIT,
                  "NamespaceManager does not override %s: CallbackListener registers only overridden hooks, so the name index silently stops hearing about this event" % k)
            continue
        params = h.params[1:]
        calls = [c for c in walk_local(h.node) if isinstance(c, ast.Call) and norm(c.func) == "self.%s" % what]
        if len(params) != 2 or len(calls) != 1:
            R.bad("N1", "%s|shape" % k, h.loc(), "NamespaceManager.%s does not forward to self.%s exactly once" % (k, what))
            continue
        c = calls[0]
        args = [norm(a) for a in c.args]
        kws = {kw.arg: norm(kw.value) for kw in c.keywords}
        parent_p, child_p = params
        if what == "add":
            ok = args == [parent_p, child_p] or (kws.get("parent") == parent_p and kws.get("child") == child_p)
        else:
            ok = (args[:1] == [child_p] and (kws.get("parent") == parent_p or (len(args) == 3 and args[2] == parent_p)) and "key" not in kws and len(args) in (1, 3)
                  and (len(args) == 1 or args[1] == "None"))
        if ok:
            R.ok("N1", "%s -> self.%s(%s)" % (k, what, ", ".join(args + ["%s=%s" % kv for kv in kws.items()])), h.loc())
        else:
            R.bad("N1", "%s|args" % k, h.loc(c),
                  "NamespaceManager.%s calls `%s`: the parent must be `%s` and the child `%s`" % (k, short(c, 60), parent_p, child_p))
    for k in ("dictionary_set", "dictionary_delete", "dictionary_pop"):
        n += 1
        if k in nm.methods:
            R.ok("N1", k, nm.methods[k].loc())
        else:
            R.bad("N1", "%s|missing" % k, NS_INIT, "NamespaceManager does not override %s: renames would bypass the name index" % k)
    # the listener base class must be CallbackListener (registration happens in its __init__)
    if "CallbackListener" not in nm.base_names:
        R.bad("N1", "NamespaceManager|base", NS_INIT, "NamespaceManager no longer derives from CallbackListener")
    R.count("namespace handlers (N1)", n)
    R.floor("namespace handlers (N1)", 13)


def _looks_like_key(v):
    return isinstance(v, str) and (v.startswith(".") or re.match(r"^[A-Za-z]+\.[A-Za-z_.]+$", v) is not None)


def _key_sets(fn):
    """data-key constants a function compares a variable with / iterates (independent of variable names)"""
    out = set()
    for n in walk_local(fn.node):
        if isinstance(n, ast.Compare) and len(n.ops) == 1 and isinstance(n.left, ast.Name):
            c = n.comparators[0]
            if isinstance(c, ast.Constant) and _looks_like_key(c.value):
                out.add(c.value)
            elif isinstance(c, (ast.Set, ast.List, ast.Tuple)):
                out |= {e.value for e in c.elts if isinstance(e, ast.Constant) and _looks_like_key(e.value)}
        if isinstance(n, ast.Compare) and len(n.ops) == 1 and isinstance(n.ops[0], (ast.In, ast.NotIn)) and isinstance(n.left, ast.Constant) \
                and _looks_like_key(n.left.value):
            out.add(n.left.value)  # `"KEY" in child`: what a loop over the key names reads as once the loader has unrolled it
        if isinstance(n, ast.For) and isinstance(n.target, ast.Name) and isinstance(n.iter, (ast.List, ast.Tuple, ast.Set)):
            out |= {e.value for e in n.iter.elts if isinstance(e, ast.Constant) and _looks_like_key(e.value)}
    return out


def _n3(ctx, R):
    R.rule("N3", "case-fold discipline: every key used to index, test or delete in the EDIF identifier tables is lower-cased")
    P = ctx.P
    ec = P.cls(NS_EDIF, "EdifNamespace")
    n = 0
    from ..inline import inlined_view

    def table_expr(v):
        """self.edif_namespaces[T]  /  self.edif_namespaces.setdefault(T, {})  /  self.edif_namespaces.get(T, …): one type's identifier table"""
        if isinstance(v, ast.Subscript) and norm(v.value) == "self.edif_namespaces":
            return True
        return isinstance(v, ast.Call) and isinstance(v.func, ast.Attribute) and v.func.attr in ("setdefault", "get") and norm(v.func.value) == "self.edif_namespaces"
    for mname, f0 in sorted(ec.methods.items()):
        # the methods are read with their private helpers (and any record of per-key settings such a helper hands back) in place
        f = inlined_view(P, f0)
        # scopes: statements that follow `T = self.edif_namespaces[...]` (or `edif_namespace = set()`) in the same block
        scopes = []
        direct = []
        for x in walk_local(f.node):
            # the table used without a local:  self.edif_namespaces[T].get(key) / [key] / key in …
            if isinstance(x, ast.Subscript) and table_expr(x.value):
                direct.append((x.slice, x, "index"))
            elif isinstance(x, ast.Compare) and len(x.ops) == 1 and isinstance(x.ops[0], (ast.In, ast.NotIn)) and table_expr(x.comparators[0]):
                direct.append((x.left, x, "membership test"))
            elif isinstance(x, ast.Call) and isinstance(x.func, ast.Attribute) and table_expr(x.func.value) \
                    and x.func.attr in ("get", "pop", "add", "discard", "remove", "setdefault") and x.args:
                direct.append((x.args[0], x, x.func.attr))
        for a in walk_local(f.node):
            if isinstance(a, ast.Assign) and isinstance(a.targets[0], ast.Name):
                v = a.value
                is_id_set = False
                if isinstance(v, ast.Call) and norm(v.func) == "set" and not v.args:
                    # a local set is an identifier table when some key put into / tested against it is lower-cased
                    nm_ = a.targets[0].id
                    for c_ in walk_local(f.node):
                        k_ = None
                        if isinstance(c_, ast.Call) and isinstance(c_.func, ast.Attribute) and norm(c_.func.value) == nm_ and c_.func.attr == "add" and c_.args:
                            k_ = c_.args[0]
                        if k_ is not None:
                            if isinstance(k_, ast.Call) and isinstance(k_.func, ast.Attribute) and k_.func.attr in ("lower", "casefold"):
                                is_id_set = True
                            if isinstance(k_, ast.Name):
                                for a2 in walk_local(f.node):
                                    if isinstance(a2, ast.Assign) and norm(a2.targets[0]) == k_.id and isinstance(a2.value, ast.Call) \
                                            and isinstance(a2.value.func, ast.Attribute) and a2.value.func.attr in ("lower", "casefold"):
                                        is_id_set = True
                if table_expr(v) or is_id_set:
                    par = getattr(a, "_parent", None)
                    for blk in ("body", "orelse", "finalbody"):
                        stmts = getattr(par, blk, None)
                        if isinstance(stmts, list) and a in stmts:
                            rest = []
                            for st in stmts[stmts.index(a) + 1:]:
                                if isinstance(st, ast.Assign) and any(norm(t) == a.targets[0].id for t in st.targets):
                                    break
                                rest.append(st)
                            scopes.append((a.targets[0].id, rest))
        if not scopes and not direct:
            continue
        lowered = {}

        def is_lowered(e):
            if isinstance(e, ast.Call) and isinstance(e.func, ast.Attribute) and e.func.attr in ("lower", "casefold"):
                return True
            if isinstance(e, ast.Name):
                return lowered.get(e.id, False)
            return False

        uses = []
        seen_nodes = set()
        for tname, stmts in scopes:
            # names assigned inside this scope: lowered iff every such assignment is a .lower() call;
            # names assigned before the scope: every assignment in the function must be lowered
            lowered.clear()
            inside = {}
            for st in stmts:
                for a in ast.walk(st):
                    if isinstance(a, ast.Assign) and isinstance(a.targets[0], ast.Name):
                        is_low = isinstance(a.value, ast.Call) and isinstance(a.value.func, ast.Attribute) and a.value.func.attr in ("lower", "casefold")
                        inside[a.targets[0].id] = inside.get(a.targets[0].id, True) and is_low
            for a in walk_local(f.node):
                if isinstance(a, ast.Assign) and isinstance(a.targets[0], ast.Name) and a.targets[0].id not in inside:
                    is_low = isinstance(a.value, ast.Call) and isinstance(a.value.func, ast.Attribute) and a.value.func.attr in ("lower", "casefold")
                    lowered[a.targets[0].id] = lowered.get(a.targets[0].id, True) and is_low
            lowered.update(inside)
            for st in stmts:
                for x in ast.walk(st):
                    if id(x) in seen_nodes:
                        continue
                    if isinstance(x, ast.Subscript) and isinstance(x.value, ast.Name) and x.value.id == tname:
                        uses.append((x.slice, x, "index", is_lowered(x.slice)))
                        seen_nodes.add(id(x))
                    elif isinstance(x, ast.Compare) and len(x.ops) == 1 and isinstance(x.ops[0], (ast.In, ast.NotIn)) \
                            and isinstance(x.comparators[0], ast.Name) and x.comparators[0].id == tname:
                        uses.append((x.left, x, "membership test", is_lowered(x.left)))
                        seen_nodes.add(id(x))
                    elif isinstance(x, ast.Call) and isinstance(x.func, ast.Attribute) and isinstance(x.func.value, ast.Name) \
                            and x.func.value.id == tname and x.func.attr in ("get", "pop", "add", "discard", "remove", "setdefault") and x.args:
                        uses.append((x.args[0], x, x.func.attr, is_lowered(x.args[0])))
                        seen_nodes.add(id(x))
        if direct:
            lowered.clear()
            for a in walk_local(f.node):
                if isinstance(a, ast.Assign) and isinstance(a.targets[0], ast.Name):
                    is_low = isinstance(a.value, ast.Call) and isinstance(a.value.func, ast.Attribute) and a.value.func.attr in ("lower", "casefold")
                    lowered[a.targets[0].id] = lowered.get(a.targets[0].id, True) and is_low
            for key, x, how in direct:
                if id(x) not in seen_nodes:
                    seen_nodes.add(id(x))
                    uses.append((key, x, how, is_lowered(key)))
        for key, node, how, low in uses:
            n += 1
            if low:
                R.ok("N3", "%s: %s" % (f.qualname, short(node, 50)), f.loc(node))
            else:
                R.bad("N3", "%s|%s %s" % (f.key, how, norm(key)), f.loc(node),
                      "%s: %s `%s` uses the identifier `%s` without lower-casing it; the table is keyed by lower-cased identifiers, so a mixed-case "
                      "identifier is missed (ghost entry / false conflict / lookup miss)" % (f.qualname, how, short(node, 50), norm(key)))
    R.count("identifier-table accesses (N3)", n)
    R.floor("identifier-table accesses (N3)", 16)


def _n4_n5_n6(ctx, R):
    P = ctx.P
    R.rule("N4", "policy agreement: within a policy the key set handled by update equals those of remove, no_conflict and lookup; "
                 "the EDIF policy overrides all four")
    R.rule("N5", "rename leaves no ghost: update deletes the element's old key (when present) before inserting the new one")
    R.rule("N6", "watched-key agreement: the same key set {.NAME, EDIF.identifier} in every handler and in lookup registration")
    dc = P.cls(NS_DEF, "DefaultNamespace")
    ec = P.cls(NS_EDIF, "EdifNamespace")
    n4 = 0
    for cls in (dc, ec):
        sets = {}
        for m in ("update", "remove", "no_conflict", "lookup"):
            f = cls.methods.get(m)
            if f is not None:
                from ..inline import inlined_view
                f = inlined_view(P, f)
            if f is None:
                if cls is ec:
                    R.bad("N4", "%s|%s missing" % (cls.key, m), cls.module.relpath, "EdifNamespace does not override %s: identifiers would be handled with the default (name-only) rule" % m)
                else:
                    raise AnalysisError("anchor vanished: DefaultNamespace.%s" % m)
                continue
            sets[m] = _key_sets(f)
            n4 += 1
        if sets:
            ref = sets.get("update", set())
            if "update" in sets and not ref:
                raise AnalysisError("%s.update compares its key with no literal this rule can read: which keys the policy handles is computed, not written" % cls.name)
            for m, s in sets.items():
                if s == ref and s:
                    R.ok("N4", "%s.%s handles %s" % (cls.name, m, sorted(s)), cls.methods[m].loc())
                else:
                    R.bad("N4", "%s|%s keys" % (cls.key, m), cls.methods[m].loc(),
                          "%s.%s handles keys %s but update handles %s: an entry written under one key is never %s under it"
                          % (cls.name, m, sorted(s), sorted(ref), {"remove": "removed", "no_conflict": "checked", "lookup": "found"}.get(m, "handled")))
    R.count("policy methods (N4)", n4)
    R.floor("policy methods (N4)", 8)
    # N5
    n5 = 0
    for cls in (dc, ec):
        from ..inline import inlined_view
        f = inlined_view(P, cls.methods["update"])
        for branch in [n for n in walk_local(f.node) if isinstance(n, ast.If) and isinstance(n.test, ast.Compare) and norm(n.test.left) == "key"
                       and isinstance(n.test.ops[0], ast.Eq)]:
            keyc = n_const = branch.test.comparators[0]
            if not isinstance(keyc, ast.Constant):
                continue
            n5 += 1
            body = branch.body
            ins = [i for i, s in enumerate(body) if isinstance(s, ast.Assign) and isinstance(s.targets[0], ast.Subscript) and norm(s.value) == "element"]
            dels = []
            for i, s in enumerate(body):
                if isinstance(s, ast.If) and isinstance(s.test, ast.Compare) and isinstance(s.test.ops[0], ast.In) and norm(s.test.comparators[0]) == "element" \
                        and isinstance(s.test.left, ast.Constant) and s.test.left.value == keyc.value:
                    if any(isinstance(d, ast.Delete) or (isinstance(d, ast.Call) and isinstance(d.func, ast.Attribute) and d.func.attr == "pop" and d.args
                                                       and repr(keyc.value) in norm(d.args[0])) for d in ast.walk(s)):
                        dels.append(i)
            inst = "%s.update[%s]" % (cls.name, keyc.value)
            if not ins:
                R.bad("N5", "%s|%s|no-insert" % (f.key, keyc.value), f.loc(branch), "%s never records the element under the new key" % inst)
            elif not dels:
                R.bad("N5", "%s|%s|no-delete" % (f.key, keyc.value), f.loc(branch),
                      "%s inserts the new key without first deleting the element's old %s from the table: the old name stays taken (ghost entry)" % (inst, keyc.value))
            elif min(dels) > min(ins):
                R.bad("N5", "%s|%s|order" % (f.key, keyc.value), f.loc(branch),
                      "%s deletes the old key after inserting the new one: renaming an element to its current name would erase it from the index" % inst)
            else:
                R.ok("N5", inst, f.loc(branch))
    R.count("update branches (N5)", n5)
    R.floor("update branches (N5)", 3)
    # N6
    nm = P.cls(NS_INIT, "NamespaceManager")
    n6 = 0
    for m in ("dictionary_set", "dictionary_delete", "dictionary_pop", "add", "remove"):
        f = nm.methods.get(m)
        if f is None:
            raise AnalysisError("anchor vanished: NamespaceManager.%s" % m)
        f = inlined_view(P, f)
        s = _key_sets(f) - {".NS"}
        n6 += 1
        if s == WATCHED:
            R.ok("N6", "%s watches %s" % (m, sorted(s)), f.loc())
        else:
            R.bad("N6", "%s|keys" % f.key, f.loc(), "NamespaceManager.%s watches %s, expected %s: edits under the missing key bypass the name index" % (m, sorted(s), sorted(WATCHED)))
    # N6b: the dictionary handlers forward the key (and the element) they were called with
    for m in ("dictionary_set", "dictionary_delete", "dictionary_pop"):
        f = nm.methods[m]
        ps = f.params
        for c in walk_local(f.node):
            if isinstance(c, ast.Call) and isinstance(c.func, ast.Attribute) and c.func.attr in ("update", "remove", "no_conflict", "is_name_valid") \
                    and norm(c.func.value) not in ("search_stack",):
                n6 += 1
                argt = [norm(a) for a in c.args] + [norm(k.value) for k in c.keywords]
                need = ["key"] + (["element"] if c.func.attr != "is_name_valid" else []) + (["value"] if c.func.attr in ("update", "no_conflict", "is_name_valid") else [])
                missing = [x for x in need if x not in argt]
                if missing:
                    R.bad("N6", "%s|%s forwards" % (f.key, c.func.attr), f.loc(c),
                          "NamespaceManager.%s calls `%s` without forwarding %s: the index is changed for other keys than the one being edited" % (m, short(c, 60), ", ".join(missing)))
                else:
                    R.ok("N6", "%s forwards %s to %s" % (m, ",".join(need), c.func.attr), f.loc(c))
    f = nm.methods.get("_update_new_namespace")
    if f is None:
        raise AnalysisError("anchor vanished: NamespaceManager._update_new_namespace")
    got = set()
    for c in walk_local(f.node):
        if isinstance(c, ast.Call) and isinstance(c.func, ast.Attribute) and c.func.attr == "update" and len(c.args) >= 2 and isinstance(c.args[1], ast.Constant):
            got.add(c.args[1].value)
    n6 += 1
    if got == WATCHED:
        R.ok("N6", "_update_new_namespace indexes %s" % sorted(got), f.loc())
    else:
        R.bad("N6", "%s|keys" % f.key, f.loc(), "_update_new_namespace indexes %s, expected %s" % (sorted(got), sorted(WATCHED)))
    for m, fn in (("register_all_listeners", "register_lookup"), ("deregister_all_listeners", "deregister_lookup")):
        f = nm.methods.get(m)
        if f is None:
            raise AnalysisError("anchor vanished: NamespaceManager.%s" % m)
        got = {c.args[0].value for c in walk_local(f.node) if isinstance(c, ast.Call) and norm(c.func) == fn and c.args and isinstance(c.args[0], ast.Constant)}
        n6 += 1
        if got == WATCHED:
            R.ok("N6", "%s: %s for %s" % (m, fn, sorted(got)), f.loc())
        else:
            R.bad("N6", "%s|keys" % f.key, f.loc(), "%s calls %s for %s, expected %s" % (m, fn, sorted(got), sorted(WATCHED)))
        if m == "register_all_listeners":
            for c in walk_local(f.node):
                if isinstance(c, ast.Call) and norm(c.func) == fn and (len(c.args) < 2 or norm(c.args[1]) != "self.lookup"):
                    R.bad("N6", "%s|func" % f.key, f.loc(c), "%s registers `%s` instead of self.lookup" % (m, short(c, 50)))
    R.count("watched-key sites (N6)", n6)
    R.floor("watched-key sites (N6)", 8)


def _with_private_helpers(P, fn):
    """fn and the private helpers (same class, same module) it reaches through calls, recursive and generator helpers included:
    a traversal may be split into a walker and the function that consumes it"""
    seen, todo = [fn], [fn]
    while todo:
        g = todo.pop()
        for c in walk_local(g.node):
            if not isinstance(c, ast.Call):
                continue
            h = None
            if isinstance(c.func, ast.Attribute) and c.func.attr.startswith("_") and not c.func.attr.startswith("__") and isinstance(c.func.value, ast.Name) \
                    and g.cls is not None and c.func.value.id in ("self", "cls", g.cls.name):
                h = g.cls.methods.get(c.func.attr)
            elif isinstance(c.func, ast.Name) and c.func.id.startswith("_") and c.func.id in g.module.functions:
                h = g.module.functions[c.func.id]
            if h is not None and all(h is not x for x in seen):
                seen.append(h)
                todo.append(h)
    return seen


def _branches_by_class(fn, var_names=("element", "parent"), P=None):
    """{class name: (tested variable, [body statements])} for `isinstance(<var>, C)` branches (tuple of classes expands)"""
    out = {}
    fns = _with_private_helpers(P, fn) if P is not None else [fn]
    for n in (x for g in fns for x in walk_local(g.node)):
        if isinstance(n, ast.If) and isinstance(n.test, ast.Call) and norm(n.test.func) == "isinstance" and len(n.test.args) == 2:
            c = n.test.args[1]
            names = [norm(x) for x in c.elts] if isinstance(c, ast.Tuple) else [norm(c)]
            for nm in names:
                ent = out.setdefault(nm.split(".")[-1], (norm(n.test.args[0]), []))
                ent[1].extend(n.body)
    return out


def _attrs_used(stmts, var):
    out = set()
    for s in stmts:
        for n in ast.walk(s):
            if isinstance(n, ast.Attribute) and isinstance(n.value, ast.Name) and n.value.id == var:
                out.add(n.attr)
    return out


def fallback_scan(ctx, R, rid):
    """the linear lookup used when no fast lookup is registered: one scan per (parent kind, child kind), never stopping early,
    comparing value with child[key].  Path enumeration with facts, so the shape of the dispatch (nested ifs, guard clauses, a
    collection picked first and scanned once, a `next(...)` over a generator, a private helper) does not matter."""
    from ..paths import stmt_paths, expand
    from ..inline import inlined_view
    P = ctx.P
    gs0 = P.func(GS, "lookup")
    gs = inlined_view(P, gs0)
    want = {("Netlist", "Library", "libraries"), ("Library", "Definition", "definitions"), ("Definition", "Port", "ports"),
            ("Definition", "Cable", "cables"), ("Definition", "Instance", "children")}
    got = set()
    scans = []  # (node, collection text, element variable, [conditions], facts)

    def kinds(facts):
        pk = {m.group(1).split(".")[-1] for a in facts for m in [re.match(r"isinstance\(parent,(.*)\)$", a)] if m}
        et = {m.group(2).split(".")[-1] for a in facts for m in [re.match(r"(is|eq)\(element_type,(.*)\)$", a)] if m} | \
             {m.group(2).split(".")[-1] for a in facts for m in [re.match(r"(is|eq)\((.*),element_type\)$", a)] if m}
        return pk, et

    tables = {}  # module-level constant tables of (parent class, element class, "attribute") rows
    for nm, val in gs.module.assigns.items():
        if isinstance(val, (ast.Tuple, ast.List)) and val.elts and all(
                isinstance(r, (ast.Tuple, ast.List)) and len(r.elts) == 3 and isinstance(r.elts[0], ast.Name) and isinstance(r.elts[1], ast.Name)
                and isinstance(r.elts[2], ast.Constant) and isinstance(r.elts[2].value, str) for r in val.elts):
            tables[nm] = [(r.elts[0].id, r.elts[1].id, r.elts[2].value) for r in val.elts]

    def probe(st, facts, defs=None):
        if isinstance(st, ast.For) and defs is not None:
            if isinstance(st.iter, ast.Name) and st.iter.id in tables and isinstance(st.target, ast.Tuple) and len(st.target.elts) == 3:
                # table-driven dispatch: for (ptype, etype, attr) in TABLE: if <row does not apply>: continue; scan getattr(parent, attr)
                pv, ev_, av = [norm(t) for t in st.target.elts]
                inner_hits = []

                def inner_probe(st2, facts2, defs2=None):
                    if isinstance(st2, ast.For) and norm(st2.iter) in ("getattr(parent, %s)" % av,):
                        inner_hits.append((st2, facts2))
                inner_paths = list(stmt_paths(st.body, frozenset(), {}, None, inner_probe, opaque_loops=True))
                if any(oc is None for oc, fa, df in inner_paths):
                    return
                for st2, facts2 in inner_hits:
                    ties_e = any(re.match(r"(is|eq)\((%s,element_type|element_type,%s)\)$" % (re.escape(ev_), re.escape(ev_)), a) for a in facts2)
                    ties_p = any(re.match(r"(is|eq|isinstance)\(", a) and re.search(r"(?<![\w.])%s(?![\w])" % re.escape(pv), a) for a in facts2)
                    if ties_e and ties_p:
                        for (k_, t_, attr_) in tables[st.iter.id]:
                            scans.append((st2, "parent." + attr_, norm(st2.target), None,
                                          frozenset(["isinstance(parent,%s)" % k_, "is(element_type,%s)" % t_])))
                return
            coll = expand(norm(st.iter), defs)
            scans.append((st, coll, norm(st.target), None, facts))
    paths = list(stmt_paths(gs.node.body, frozenset(), {}, None, probe, opaque_loops=True))
    if any(oc is None for oc, fa, df in paths):
        raise AnalysisError("the fallback lookup of global_service is outside the rule's template (a statement kind it does not model)")
    for oc, fa, df in paths:
        if isinstance(oc, tuple) and oc[0] == "return" and oc[1] is not None:
            e = oc[1]
            if isinstance(e, ast.Call) and norm(e.func) == "next" and e.args and isinstance(e.args[0], ast.GeneratorExp) and len(e.args[0].generators) == 1:
                g = e.args[0].generators[0]
                scans.append((e, expand(norm(g.iter), df), norm(g.target), (e.args[0].elt, list(g.ifs)), fa))
    for node, coll, v, gen, facts in scans:
        if not coll.startswith("parent."):
            continue
        attr = coll[len("parent."):]
        pk, et = kinds(facts)
        if len(pk) != 1 or len(et) != 1:
            R.bad(rid, "%s|%s dispatch" % (gs.key, attr), gs.loc(node),
                  "the fallback scan over parent.%s is not reached under exactly one parent kind and one element type (parent: %s, element type: %s)"
                  % (attr, sorted(pk) or "?", sorted(et) or "?"))
            continue
        got.add((sorted(pk)[0], sorted(et)[0], attr))
        conds = []
        if gen is not None:
            elt, ifs = gen
            if norm(elt) != v:
                R.bad(rid, "%s|%s early return" % (gs.key, attr), gs.loc(node), "the fallback scan over parent.%s returns `%s` instead of the matching child" % (attr, norm(elt)))
            for c in ifs:
                conds.extend(c.values if isinstance(c, ast.BoolOp) and isinstance(c.op, ast.And) else [c])
        else:
            # a scan inside the protected block of a `try` ends at the first child that raises there: `try: for c in …: if value == c[key]: return c
            # except KeyError: pass` gives up at the first child without the key
            for p_ in parent_chain(node):
                if isinstance(p_, ast.Try) and any(node is z for s_ in p_.body for z in ast.walk(s_)) and p_.handlers:
                    R.bad(rid, "%s|%s scan inside try" % (gs.key, attr), gs.loc(p_),
                          "the fallback scan over parent.%s runs inside `try … except %s`: the first child for which the body raises ends the whole scan, so a "
                          "match after it is never found (exact patterns then miss what wildcard patterns find)"
                          % (attr, ", ".join(norm(h.type) if h.type is not None else "everything" for h in p_.handlers)))
                if isinstance(p_, (ast.FunctionDef, ast.AsyncFunctionDef)):
                    break
            for x in ast.walk(node):
                if isinstance(x, ast.Break):
                    R.bad(rid, "%s|%s break" % (gs.key, attr), gs.loc(x),
                          "the fallback scan over parent.%s stops at a `break`: a match after that child is never found, so results depend on whether the fast lookup is registered" % attr)
                if isinstance(x, ast.Return) and (x.value is None or norm(x.value) != v):
                    R.bad(rid, "%s|%s early return" % (gs.key, attr), gs.loc(x),
                          "the fallback scan over parent.%s returns `%s` from inside the loop instead of the matching child" % (attr, norm(x.value) if x.value is not None else "None"))
                if isinstance(x, ast.Compare):
                    conds.append(x)
        compared = False
        for x in conds:
            for y in ast.walk(x):
                if not (isinstance(y, ast.Compare) and len(y.ops) == 1):
                    continue
                if isinstance(y.ops[0], (ast.In, ast.NotIn)) and norm(y.left) == "key" and norm(y.comparators[0]) not in (v, v + ".data", v + "._data"):
                    R.bad(rid, "%s|%s key-guard" % (gs.key, attr), gs.loc(node),
                          "the fallback scan over parent.%s tests `%s` instead of whether the child `%s` carries the key: children are "
                          "skipped (or a KeyError is raised) depending on the parent's data, so exact-name queries disagree with wildcard ones" % (attr, norm(y), v))
                if isinstance(y.ops[0], ast.Eq) and "value" in (norm(y.left), norm(y.comparators[0])):
                    compared = True
                    other = norm(y.comparators[0]) if norm(y.left) == "value" else norm(y.left)
                    if other != "%s[key]" % v:
                        R.bad(rid, "%s|%s compare" % (gs.key, attr), gs.loc(node), "the fallback scan compares value with `%s`, not with %s[key]" % (other, v))
        if not compared:
            R.bad(rid, "%s|%s compare" % (gs.key, attr), gs.loc(node), "the fallback scan over parent.%s never compares value with %s[key]" % (attr, v))
    cells = 0
    for t in sorted(want):
        cells += 1
        if t in got:
            R.ok(rid, "global_service.lookup: %s/%s via %s" % t, gs.loc())
        else:
            R.bad(rid, "%s|%s.%s" % (gs.key, t[0], t[2]), gs.loc(),
                  "the fallback lookup has no scan of %s.%s for element type %s: without the fast lookup such children are never found by exact name" % (t[0], t[2], t[1]))
    for t in sorted(got - want):
        R.bad(rid, "%s|wrong %s.%s" % (gs.key, t[0], t[2]), gs.loc(), "the fallback lookup scans %s.%s for element type %s" % (t[0], t[2], t[1]))
    return cells


def _n7(ctx, R):
    R.rule("N7", "schema coverage: every traversal of the containment schema covers all five relations with the right "
                 "(parent class, attribute, child class) triple; the fallback scan never stops early")
    P = ctx.P
    nm = P.cls(NS_INIT, "NamespaceManager")
    dc = P.cls(NS_DEF, "DefaultNamespace")
    ec = P.cls(NS_EDIF, "EdifNamespace")
    trav = [(nm.methods.get("is_compliant"), "element"), (nm.methods.get("apply_namespace"), "element"),
            (nm.methods.get("drop_namespace"), "element"), (dc.methods.get("no_name_conflicts"), "element"),
            (ec.methods.get("no_name_conflicts"), "element")]
    cells = 0
    all_attrs = {a for v in SCHEMA.values() for a, _ in v}
    for f, var in trav:
        if f is None:
            raise AnalysisError("anchor vanished: a containment traversal of the namespace plugin")
        br = _branches_by_class(f, P=P)
        for pc, rels in SCHEMA.items():
            used = _attrs_used(br.get(pc, (var, []))[1], br.get(pc, (var, []))[0]) & all_attrs
            want = {a for a, _ in rels}
            for a in sorted(want):
                cells += 1
                if a in used:
                    R.ok("N7", "%s: %s.%s" % (f.qualname, pc, a), f.loc())
                else:
                    R.bad("N7", "%s|%s.%s missing" % (f.key, pc, a), f.loc(),
                          "%s does not traverse %s.%s: elements of that relation are skipped when a namespace policy is checked/applied/dropped" % (f.qualname, pc, a))
            for a in sorted(used - want):
                R.bad("N7", "%s|%s.%s foreign" % (f.key, pc, a), f.loc(), "%s reads %s under isinstance(%s)" % (f.qualname, a, pc))
    # apply_namespace must also (re)fill the new index from each relation
    ap = nm.methods.get("apply_namespace")
    # (whatever the order of the helper's parameters, and however many groups one call hands over: the relations are the arguments of the
    # form `<element>.<relation>`)
    filled = {a_.attr for g in _with_private_helpers(P, ap) for c in walk_local(g.node)
              if isinstance(c, ast.Call) and norm(c.func).split(".")[-1] == "_update_new_namespace"
              for a_ in list(c.args) + [k.value for k in c.keywords] if isinstance(a_, ast.Attribute) and a_.attr in all_attrs}
    for pc, rels in SCHEMA.items():
        for a, _ in rels:
            cells += 1
            if a in filled:
                R.ok("N7", "apply_namespace indexes %s.%s" % (pc, a), ap.loc())
            else:
                R.bad("N7", "%s|%s.%s not indexed" % (ap.key, pc, a), ap.loc(),
                      "apply_namespace does not index %s.%s into the new namespace: existing children of that relation are invisible to lookups and conflict checks" % (pc, a))
    # get_parent (inverse direction)
    gp = nm.methods.get("get_parent")
    if gp is None:
        raise AnalysisError("anchor vanished: NamespaceManager.get_parent")
    br = _branches_by_class(gp)
    for child, attr in PARENT_ATTR.items():
        cells += 1
        used = _attrs_used(br.get(child, ("element", []))[1], br.get(child, ("element", []))[0])
        if attr in used:
            R.ok("N7", "get_parent: %s.%s" % (child, attr), gp.loc())
        else:
            R.bad("N7", "%s|%s.%s" % (gp.key, child, attr), gp.loc(),
                  "get_parent does not map %s to its %s: renames of such elements are not checked against their siblings" % (child, attr))
    cells += fallback_scan(ctx, R, "N7")
    R.count("schema cells (N7)", cells)
    R.floor("schema cells (N7)", 35)
    # N7b: named children attached without telling the index
    R.rule("N7b", "no function installs named children into a container without the add notification the name index listens to")
    M = ctx.model
    named = {("Netlist", "_libraries"), ("Library", "_definitions"), ("Definition", "_ports"), ("Definition", "_cables"), ("Definition", "_children")}
    n = 0
    for f in M.ir_funcs():
        fe = M.events(f)
        for evs in fe.by_node.values():
            for ev in evs:
                if ev.kind == "write" and (ev.cls, ev.field) in named and ev.op == "set" and f.name != "__init__":
                    n += 1
                    c = classify_set(f.node, ev)
                    if c == "assign":
                        # the value may be prepared by a private helper (`self._ports = _reordered(self._ports, value, …)`): read it in place
                        from ..inline import inlined_view
                        from ..effects import FuncEvents
                        fv = inlined_view(ctx.P, f)
                        if fv is not f:
                            same = [e for es in FuncEvents(ctx.P, fv, M).by_node.values() for e in es
                                    if e.kind == "write" and (e.cls, e.field) == (ev.cls, ev.field) and e.op == "set"]
                            kinds = {classify_set(fv.node, e) for e in same}
                            if same and len(kinds) == 1:
                                c = kinds.pop()
                    if c in ("filter", "permute", "reset"):
                        R.ok("N7b", "%s: %s (%s of existing members)" % (f.qualname, short(ev.stmt, 40), c), f.loc(ev.stmt))
                    else:
                        R.bad("N7b", "%s|%s.%s" % (f.key, ev.cls, ev.field), f.loc(ev.stmt),
                              "%s installs new members into %s.%s by assignment, without the add notification: the name index never learns about them "
                              "(exact-name lookups miss them and duplicate names are not refused)" % (f.qualname, ev.cls, ev.field))
    R.count("container assignments of named children (N7b)", n)
    R.floor("container assignments of named children (N7b)", 14)


@register("C10",
          "Static analysis of the namespace-manager plugin and the fallback lookup: N1 the plugin overrides the add/remove hook of each "
          "of the five naming scopes and forwards (parent, child) correctly; N2 (dataflow) no refusal point is reachable after an index "
          "update; N3 every key touching the EDIF identifier tables is lower-cased; N4 update/remove/no_conflict/lookup handle the same "
          "key set per policy; N5 update deletes the old key before inserting; N6 the watched key set agrees across handlers and lookup "
          "registration; N7 every traversal of the containment schema covers the five relations with the right triple and the fallback "
          "scan never stops early; N7b nothing attaches named children without the add notification; N8 every write of an element's data is announced; N9 the policy's legality test and the EDIF writer's validity test accept the same class of plain identifiers (first character, body); N10 every answer a policy method gives to a call site that tests it with `is False` is a genuine boolean. Decides that the index is told, "
          "checks first and normalises alike; does not decide that refusals happen exactly when a duplicate would arise.")
def check_c10(ctx, R):
    R.rule("N8", "every write of an element's data dictionary in spydrnet/ir is preceded by the dictionary_* dispatch the name index listens to")
    T = ctx.typestate
    from ..typestate import is_public_entry
    n8 = 0
    seen = set()
    for (key, nones), s_ in sorted(T.table.items(), key=lambda kv: (kv[0][0], sorted(kv[0][1]))):
        if nones:
            continue
        f = T.funcs[key]
        if not is_public_entry(f):
            continue
        if any(w[1] == "FirstClassElement" and w[2] == "_data" and w[0] != "fresh" for w in s_.writes):
            n8 += 1
        for (sp, cls, field, op, okey, otext, oloc, why) in s_.unannounced:
            if cls == "FirstClassElement" and field == "_data" and (okey, op) not in seen:
                seen.add((okey, op))
                R.bad("N8", "%s|_data %s" % (okey, op), oloc,
                      "`%s` in %s changes an element's data without dispatching dictionary_set/_delete/_pop first: a rename or un-naming done this way never reaches the name index "
                      "(stale lookups, names that stay taken)" % (otext, okey.split(":")[1]))
    if not seen:
        R.ok("N8", "%d public entry points write element data, all announced" % n8)
    R.count("public entry points writing element data (N8)", n8)
    R.floor("public entry points writing element data (N8)", 4)
    _n1(ctx, R)
    rule_n2(ctx, R)
    _n3(ctx, R)
    _n4_n5_n6(ctx, R)
    _n7(ctx, R)
    _n9(ctx, R)
    _n10(ctx, R)


def _n10(ctx, R):
    """the manager refuses an edit when a policy's answer `is False`: an answer that is merely falsy (None from a regex match, 0, an
    empty container) is not a refusal.  Every answer a policy method can give to such a question must therefore be a genuine boolean."""
    R.rule("N10", "vetoes are genuine booleans: every value a policy method can return to a call site that tests it with `is False` / `is True` "
                  "is boolean-valued (comparison, not, bool(), True / False, or the answer of another such method)")
    P = ctx.P
    nm = P.cls(NS_INIT, "NamespaceManager")
    policies = [P.cls(NS_DEF, "DefaultNamespace"), P.cls(NS_EDIF, "EdifNamespace")]
    asked = {}
    for f in nm.all_funcs():
        locals_ = {}
        for a in walk_local(f.node):
            if isinstance(a, ast.Assign) and len(a.targets) == 1 and isinstance(a.targets[0], ast.Name) and isinstance(a.value, ast.Call) \
                    and isinstance(a.value.func, ast.Attribute):
                locals_.setdefault(a.targets[0].id, []).append(a.value.func.attr)
        for c in walk_local(f.node):
            if isinstance(c, ast.Compare) and len(c.ops) == 1 and isinstance(c.ops[0], (ast.Is, ast.IsNot)) and isinstance(c.comparators[0], ast.Constant) \
                    and isinstance(c.comparators[0].value, bool):
                l = c.left
                if isinstance(l, ast.Call) and isinstance(l.func, ast.Attribute):
                    asked.setdefault(l.func.attr, (f, c))
                elif isinstance(l, ast.Name):
                    for m in locals_.get(l.id, []):
                        asked.setdefault(m, (f, c))
    n = 0

    def boolean(e, cls, depth=0):
        if isinstance(e, ast.Constant):
            return isinstance(e.value, bool)
        if isinstance(e, ast.Compare) or (isinstance(e, ast.UnaryOp) and isinstance(e.op, ast.Not)):
            return True
        if isinstance(e, ast.BoolOp):
            return all(boolean(v, cls, depth) for v in e.values)
        if isinstance(e, ast.Call) and isinstance(e.func, ast.Name) and e.func.id in ("bool", "isinstance", "all", "any", "callable", "hasattr", "issubclass"):
            return True
        if isinstance(e, ast.Call) and isinstance(e.func, ast.Attribute) and norm(e.func.value) in ("self", "cls", "super()", cls.name) and depth < 4:
            owners = [k for k in policies if k is not cls] if norm(e.func.value) == "super()" else ([cls] + policies)
            h = next((k.methods[e.func.attr] for k in owners if e.func.attr in k.methods), None)
            return h is not None and answers_boolean(h, h.cls or cls, depth + 1)
        return False

    def answers_boolean(h, cls, depth=0):
        rets = [r for r in walk_local(h.node) if isinstance(r, ast.Return)]
        return bool(rets) and all(r.value is not None and boolean(r.value, cls, depth) for r in rets)
    for mname, (f, c) in sorted(asked.items()):
        for cls in policies:
            h = cls.methods.get(mname)
            if h is None:
                continue
            n += 1
            bad = [r for r in walk_local(h.node) if isinstance(r, ast.Return) and not (r.value is not None and boolean(r.value, cls))]
            # follow `return cls._helper(…)` to the return that is not a boolean
            if bad:
                r = bad[0]
                R.bad("N10", "%s|non-boolean answer" % h.key, h.loc(r),
                      "%s can answer `%s`, which is not a genuine boolean, but %s refuses only when the answer `%s`: a falsy non-False answer "
                      "(None from a failed regex match) lets the edit through" % (h.qualname, short(r.value, 50) if r.value is not None else "None", f.qualname, short(c, 50)))
            else:
                R.ok("N10", "%s answers %s with booleans only" % (h.qualname, f.qualname), h.loc())
    R.count("policy answers tested with `is False` (N10)", n)
    R.floor("policy answers tested with `is False` (N10)", 3)



def _n9(ctx, R):
    """legal form: the policy's legality test and the EDIF writer's validity test are two statements of one rule (what a plain
    identifier — one without the & escape — may start with and contain).  They must describe the same class: where they differ, one
    of them is wrong, and either illegal identifiers are accepted into an EDIF scope or legal ones are refused."""
    from .edif_names_rules import writer_classes, reader_classes, EN
    R.rule("N9", "legal form: the EDIF policy accepts exactly the plain identifiers the EDIF writer considers valid (first character and body)")
    P = ctx.P
    en = P.cls(EN, "EdififyNames")
    ec = P.cls(NS_EDIF, "EdifNamespace")
    from .edif_names_rules import naming_role
    good = naming_role(P, "chars_good")
    chk = naming_role(P, "policy_check")
    if good is None or chk is None:
        raise AnalysisError("anchor vanished: _characters_good / _check_EDIF_identifier")
    wf, wb = writer_classes(good)
    rf, rb, rba, lens = reader_classes(chk)
    for what, w_, r_ in (("first character", wf, rf), ("later characters", wb, rb)):
        if w_ == r_:
            R.ok("N9", "%s: policy and writer agree (%d characters)" % (what, len(w_)), chk.loc())
        else:
            more, less = "".join(sorted(r_ - w_)), "".join(sorted(w_ - r_))
            R.bad("N9", "%s|%s|+%s-%s" % (chk.key, what, more, less), chk.loc(),
                  "the EDIF policy and the EDIF writer disagree on the %s of a plain identifier: the policy accepts %r that the writer treats as illegal%s — "
                  "identifiers of illegal form are let into an EDIF scope (or legal ones refused)"
                  % (what, more, (" and refuses %r that the writer produces" % less) if less else ""))
    R.count("legal-form classes compared (N9)", 2)
