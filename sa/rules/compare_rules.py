"""C20 — the netlist comparer: K1 two-sidedness (taint by side), K2 required comparisons,
K3 no early exit past required comparisons, K4 no one-sided escape clause."""
import ast
import re

from ..core import AnalysisError, norm, short, walk_local, parent_chain, stale_loop_uses, reaching_assign
from . import register
from ..inline import inlined_view

CMP = "spydrnet/compare/compare_netlists.py"

# What the comparer is documented to examine (property C20), as side-erased access paths of
# cross-side comparisons / two-sided helper calls.  `X` stands for the element of either side.
REQUIRED = {
    "compare": ["len(X.libraries)"],
    "compare_libraries": ["len(X.definitions)"],
    "compare_definition": ["len(X.ports)", "len(X.cables)", "len(X.children)"],
    "compare_ports": ["X.direction", "X.is_array", "len(X.pins)"],
    "compare_cables": ["len(X.wires)", "len(X.pins)", "type(X)"],
    "compare_outer_pins": ["call:are_instances_equivalent(X.instance)", "call:are_inner_pins_equivalent(X.inner_pin)"],
    "compare_inner_pins": ["call:are_inner_pins_equivalent(X)"],
    "are_inner_pins_equivalent": ["X.port.pins.index(X)", "self.get_identifier(X.port)", "self.get_identifier(X.port.definition)"],
    "are_instances_equivalent": ["self.get_identifier(X.reference)", "self.get_identifier(X.reference.library)", "self.get_identifier(X.parent)"],
    "compare_instances": ["self.get_identifier(X.reference)", "self.get_identifier(X.reference.library)", "X[_][_]"],
}


class _WithInherited:
    """the comparer class with the methods it inherits from base classes of the package filed in (methods pulled up into a private base
    class are still the comparer's methods)"""

    def __init__(self, P, cls):
        self._cls = cls
        self.methods = dict(cls.methods)
        seen, todo = {cls.name}, list(cls.base_names)
        while todo:
            b = todo.pop().split(".")[-1]
            if b in seen:
                continue
            seen.add(b)
            for m2 in P.modules.values():
                c2 = m2.classes.get(b)
                if c2 is not None:
                    for k, v in c2.methods.items():
                        self.methods.setdefault(k, v)
                    todo.extend(c2.base_names)

    def __getattr__(self, name):
        return getattr(self._cls, name)


def _side_of_name(name):
    n = name.lower()
    o = "orig" in n or n in ("oi",)
    c = "composer" in n or n in ("ci",)
    if o and not c:
        return "O"
    if c and not o:
        return "C"
    return None


class Sides:
    def __init__(self, f):
        self.f = f
        self.side = {}
        for p in f.params:
            s = _side_of_name(p)
            if s:
                self.side[p] = s
        # propagate through simple assignments / loop targets
        changed = True
        while changed:
            changed = False
            for n in walk_local(f.node):
                tgt, val = None, None
                if isinstance(n, ast.Assign) and len(n.targets) == 1:
                    tgt, val = n.targets[0], n.value
                elif isinstance(n, ast.For) and (isinstance(n.iter, ast.Attribute) or (isinstance(n.iter, ast.Call) and norm(n.iter.func) == "zip")):
                    tgt, val = n.target, n.iter
                if tgt is None:
                    continue
                if isinstance(tgt, ast.Tuple) and isinstance(val, ast.Call) and norm(val.func) == "zip" and len(val.args) == len(tgt.elts):
                    pairs = list(zip(tgt.elts, val.args))
                else:
                    pairs = [(tgt, val)]
                for t, v in pairs:
                    if isinstance(t, ast.Name) and t.id not in self.side:
                        s = _side_of_name(t.id) or self.of(v)
                        if s in ("O", "C"):
                            self.side[t.id] = s
                            changed = True

    def of(self, e):
        """O / C / 'mixed' / None (no side)"""
        sides = set()
        # (a plain name used as an index selects the entry; it is not what the quantity is a quantity of — `erase` drops it likewise)
        index_names = {id(s_.slice) for s_ in ast.walk(e) if isinstance(s_, ast.Subscript) and isinstance(s_.slice, ast.Name)}
        for n in ast.walk(e):
            if id(n) in index_names:
                continue
            if isinstance(n, ast.Name) and n.id in self.side:
                sides.add(self.side[n.id])
            elif isinstance(n, ast.Attribute) and isinstance(n.value, ast.Name) and n.value.id == "self" and n.attr in ("ir_orig", "ir_composer"):
                sides.add("O" if n.attr == "ir_orig" else "C")
        if len(sides) == 1:
            return sides.pop()
        if len(sides) == 2:
            return "mixed"
        return None

    def erase(self, e):
        """source text with every sided root replaced by X"""
        t = norm(e)
        for name in sorted(self.side, key=len, reverse=True):
            t = re.sub(r"(?<![\w.])%s(?![\w])" % re.escape(name), "X", t)
        t = re.sub(r"self\.ir_(orig|composer)", "X", t)
        t = re.sub(r"\[[A-Za-z_]\w*\]", "[_]", t)  # index variables are not part of the quantity's identity
        return t


def _conjuncts(e):
    if isinstance(e, ast.BoolOp) and isinstance(e.op, ast.And):
        out = []
        for v in e.values:
            out.extend(_conjuncts(v))
        return out
    return [e]


def _disjuncts(e):
    if isinstance(e, ast.BoolOp) and isinstance(e.op, ast.Or):
        out = []
        for v in e.values:
            out.extend(_disjuncts(v))
        return out
    return [e]


def _compare_view(f, subst=False, maxdepth=4):
    """the method with its checks in one canonical form: `if <c>: raise AssertionError(...)` becomes `assert not <c>`, and locals
    that are assigned once (hoisted sub-expressions such as `orig_port = orig_pin.port`) are substituted into the asserted tests"""
    import copy
    from ..core import FuncInfo, copy_tree
    node = copy_tree(f.node)
    changed = False

    class T(ast.NodeTransformer):
        def visit_If(self, n):
            self.generic_visit(n)
            if not n.orelse and len(n.body) == 1 and isinstance(n.body[0], ast.Raise) and n.body[0].exc is not None \
                    and norm(n.body[0].exc.func if isinstance(n.body[0].exc, ast.Call) else n.body[0].exc) == "AssertionError":
                t = n.test
                test = t.operand if isinstance(t, ast.UnaryOp) and isinstance(t.op, ast.Not) else ast.UnaryOp(op=ast.Not(), operand=t)
                a = ast.Assert(test=test, msg=None)
                nonlocal changed
                changed = True
                return ast.copy_location(a, n)
            return n
    node = T().visit(node)
    counts = {}
    for a in ast.walk(node):
        if isinstance(a, ast.Name) and isinstance(a.ctx, ast.Store):
            counts[a.id] = counts.get(a.id, 0) + 1
        if isinstance(a, (ast.For, ast.comprehension)):
            for x in ast.walk(a.target):
                if isinstance(x, ast.Name):
                    counts[x.id] = counts.get(x.id, 0) + 5
    defs = {}
    for a in ast.walk(node):
        if isinstance(a, ast.Assign) and len(a.targets) == 1 and isinstance(a.targets[0], ast.Name) and counts.get(a.targets[0].id) == 1 \
                and not isinstance(a.value, (ast.Constant, ast.List, ast.Dict, ast.Set)) and not (isinstance(a.value, ast.Call) and norm(a.value.func) == "next"):
            defs[a.targets[0].id] = a.value

    # for key, value in D.items():   value is D[key] (neither rebound in the loop)
    for a in ast.walk(node):
        if isinstance(a, ast.For) and isinstance(a.target, ast.Tuple) and len(a.target.elts) == 2 and all(isinstance(x, ast.Name) for x in a.target.elts) \
                and isinstance(a.iter, ast.Call) and isinstance(a.iter.func, ast.Attribute) and a.iter.func.attr == "items" and not a.iter.args:
            k_, v_ = a.target.elts
            if counts.get(k_.id) == 6 and counts.get(v_.id) == 6:  # bound by this loop header only (1 as a store + 5 as a loop target)
                defs[v_.id] = ast.copy_location(ast.Subscript(value=copy_tree(a.iter.func.value), slice=ast.Name(id=k_.id, ctx=ast.Load()), ctx=ast.Load()), a)

    class S(ast.NodeTransformer):
        depth = 0

        def visit_Name(self, n):
            if isinstance(n.ctx, ast.Load) and n.id in defs and S.depth < maxdepth:
                nonlocal changed
                changed = True
                S.depth += 1
                try:
                    return ast.copy_location(S().visit(copy_tree(defs[n.id])), n)
                finally:
                    S.depth -= 1
            return n
    if subst:
        for a in ast.walk(node):
            if isinstance(a, ast.Assert):
                a.test = S().visit(a.test)
    if not changed:
        return f
    ast.fix_missing_locations(node)
    for parent in ast.walk(node):
        for child in ast.iter_child_nodes(parent):
            child._parent = parent
    node._parent = getattr(f.node, "_parent", None)
    return FuncInfo(f.name, f.qualname, f.module, f.cls, node, f.role, f.prop)


def _found_in(f, two_sided):
    """the quantities a method compares across the two sides (erased access paths), without reporting anything"""
    S = Sides(f)
    found = set()
    for a in walk_local(f.node):
        if isinstance(a, ast.Assert):
            for cmp_ in [x for x in ast.walk(a.test) if isinstance(x, ast.Compare) and len(x.ops) == 1]:
                l, r = cmp_.left, cmp_.comparators[0]
                if isinstance(cmp_.ops[0], (ast.Eq, ast.NotEq, ast.Is, ast.IsNot)) and {S.of(l), S.of(r)} == {"O", "C"} and S.erase(l) == S.erase(r):
                    found.add(S.erase(l))
    for c in walk_local(f.node):
        if isinstance(c, ast.Call) and isinstance(c.func, ast.Attribute) and norm(c.func.value) == "self" and c.func.attr in two_sided and len(c.args) >= 2:
            if (S.of(c.args[0]), S.of(c.args[1])) == ("O", "C") and S.erase(c.args[0]) == S.erase(c.args[1]):
                found.add("call:%s(%s)" % (c.func.attr, S.erase(c.args[0])))
    return found


def _k6(ctx, R, cc):
    """the counterpart of an element is looked up inside the counterpart of the element's container: in a loop over
    `<orig container>.<relation>` the lookup root is the copy-side container of the same level (the copy-side parameter when the
    original-side container is a parameter, self.ir_composer when it is self.ir_orig)"""
    R.rule("K6", "counterpart lookups stay inside the counterpart container of the same level")
    n = 0
    for mname, f in sorted(cc.methods.items()):
        f = inlined_view(ctx.P, f)  # a shared walk-and-look-up helper is read in place, with the finder it was handed
        S = Sides(f)
        for lp in walk_local(f.node):
            if not (isinstance(lp, ast.For) and isinstance(lp.iter, ast.Attribute) and S.of(lp.iter.value) == "O"):
                continue
            a_root = lp.iter.value

            def level(e):
                if isinstance(e, ast.Name) and e.id in f.params:
                    return "param"
                if isinstance(e, ast.Attribute) and norm(e) in ("self.ir_orig", "self.ir_composer"):
                    return "netlist"
                return None
            la = level(a_root)
            if la is None:
                continue
            for c in [x for st in lp.body for x in ast.walk(st)]:
                if not (isinstance(c, ast.Call) and isinstance(c.func, ast.Attribute) and c.func.attr.startswith("get_") and c.func.attr[4:] in
                        ("libraries", "definitions", "ports", "cables", "instances", "pins", "wires")):
                    continue
                root = c.args[0] if norm(c.func.value) in ("sdn", "spydrnet") and c.args else c.func.value
                if S.of(root) != "C":
                    continue
                n += 1
                lb = level(root)
                if lb == la:
                    R.ok("K6", "%s: %s looked up in %s" % (mname, c.func.attr[4:], norm(root)), f.loc(c))
                else:
                    R.bad("K6", "%s|%s|%s" % (f.key, c.func.attr, norm(root)), f.loc(c),
                          "%s walks `%s` of the original but looks the counterpart up in `%s`, not in the counterpart of `%s`: with the same name "
                          "present in two containers the wrong element is compared (a faithful copy is rejected, or a difference is missed)"
                          % (mname, norm(lp.iter), norm(root), norm(a_root)))
    R.count("counterpart lookups (K6)", n)
    R.floor("counterpart lookups (K6)", 5)


def _k7_k8(ctx, R, cc):
    """K7: an assertion whose condition cannot be false compares nothing.  K8: a way through a two-sided method that knows an optional
    attribute is missing on one side knows it is missing on the other side too."""
    from ..paths import stmt_paths, expand
    P = ctx.P
    R.rule("K7", "no assertion of the comparer is vacuous: its condition is not a value that is always true (a tuple, a non-empty literal)")
    R.rule("K8", "optional attributes: a path that finds the attribute missing on one side requires it missing on the other")
    n7 = n8 = 0
    for mname, f0 in sorted(cc.methods.items()):
        f = inlined_view(P, f0)
        S = Sides(f)
        for a in walk_local(f.node):
            if not isinstance(a, ast.Assert):
                continue
            n7 += 1
            t = a.test
            if isinstance(t, ast.Name):
                d = reaching_assign(a, t.id)
                if d is not None and d.value is not None:
                    t = d.value
            vac = (isinstance(t, (ast.Tuple, ast.List, ast.Set)) and t.elts) or (isinstance(t, ast.Dict) and t.keys) or isinstance(t, (ast.Lambda, ast.JoinedStr)) \
                or (isinstance(t, ast.Constant) and bool(t.value))
            if vac:
                R.bad("K7", "%s|vacuous|%s" % (f.key, short(a.test, 40)), f.loc(a),
                      "%s asserts `%s`, which is `%s`: a %s is true whatever it contains, so the comparison inside it is never enforced"
                      % (mname, short(a.test, 40), short(t, 50), type(t).__name__.lower()))
            else:
                R.ok("K7", "%s: assert %s" % (mname, short(a.test, 40)), f.loc(a))
        if len(f.params) < 3 or _side_of_name(f.params[1]) != "O" or _side_of_name(f.params[2]) != "C":
            continue
        body = [s_ for s_ in f.node.body if not (isinstance(s_, ast.Expr) and isinstance(s_.value, ast.Constant))]
        paths = list(stmt_paths(body, frozenset(), {}, None, None, opaque_loops=True))
        if any(oc is None for oc, fa, df in paths):
            continue
        # presence compared outright somewhere: (a is None) == (b is None)
        presence = set()
        for c in walk_local(f.node):
            if isinstance(c, ast.Compare) and len(c.ops) == 1 and isinstance(c.ops[0], (ast.Eq, ast.Is)):
                for x in (c.left, c.comparators[0]):
                    for y in ast.walk(x):
                        if isinstance(y, ast.Compare) and len(y.ops) == 1 and isinstance(y.ops[0], (ast.Is, ast.IsNot)) and isinstance(y.comparators[0], ast.Constant) \
                                and y.comparators[0].value is None:
                            presence.add(S.erase(y.left))
        reported = set()
        for oc, fa, df in paths:
            if oc == "raise":
                continue
            missing = {}
            for atom_ in fa:
                m = re.match(r"(is)\((.+),None\)$", atom_) or re.match(r"(falsy)\((.+)\)$", atom_)
                if not m:
                    continue
                try:
                    e = ast.parse(m.group(2), mode="eval").body
                except SyntaxError:
                    continue
                if not isinstance(e, (ast.Attribute, ast.Name, ast.Subscript)):
                    continue
                sd = S.of(e)
                if sd in ("O", "C"):
                    missing.setdefault(S.erase(e), {})[sd] = m.group(2)
            # what the path knows about the counterpart at all (present, missing, or compared with something)
            known = set()
            for atom_ in fa:
                m = re.match(r"(isnot|truthy|is|falsy|eq|ne)\((.+)\)$", atom_)
                if not m:
                    continue
                for part in m.group(2).split(","):
                    try:
                        e = ast.parse(part, mode="eval").body
                    except SyntaxError:
                        continue
                    if isinstance(e, (ast.Attribute, ast.Name, ast.Subscript)) and S.of(e) in ("O", "C"):
                        known.add((S.erase(e), S.of(e)))
            for er, sides in missing.items():
                n8 += 1
                if len(sides) == 2 or er in presence:
                    continue
                other = "C" if "O" in sides else "O"
                if (er, other) in known:
                    continue  # the path says something about the counterpart as well (e.g. the disjunct `a is None and b is not None and id(a) == id(b)`)
                if er in reported:
                    continue
                reported.add(er)
                only = list(sides.values())[0]
                R.bad("K8", "%s|one-sided absence|%s" % (f.key, er), f.loc(),
                      "%s can finish normally on a path where `%s` is known to be missing and nothing is required of its counterpart on the other side: "
                      "an element that has it on one side only passes as equal" % (mname, only))
        if not reported:
            R.ok("K8", "%s: absence of an optional attribute is never established on one side only" % mname, f.loc())
    R.count("assertions of the comparer (K7)", n7)
    R.floor("assertions of the comparer (K7)", 30)
    R.count("absence facts on finishing paths (K8)", n8)


@register("C20",
          "Static analysis of Comparer: K1 two-sided taint — every ==/!=/is inside an assert and every call of a two-sided helper has one "
          "operand derived from the original and one from the copy, on matching access paths (same-side comparisons are only allowed as "
          "symmetric DRC pairs over different paths); K2 the set of cross-side comparisons covers what the comparer is documented to "
          "examine (port direction / array-ness / width, cable width, per-wire pin count and type, outer pin -> instance and inner pin, "
          "inner pin index and port, instance reference and library, properties, element counts); K3 no return that skips required "
          "comparisons; K4 an escape clause of an assertion constrains both sides; K6 the counterpart of an element is looked up inside the counterpart of its container (same level on both sides); K7 no assertion is vacuous (a tuple or non-empty literal as condition); K8 no path of a two-sided method finishes knowing an optional attribute is missing on one side and nothing about its counterpart. Decides that differences cannot slip through a "
          "one-sided or missing comparison; acceptance of faithful copies depends on C07/C03/C04 and is not decided.")
def check_c20(ctx, R):
    P = ctx.P
    cc = _WithInherited(P, P.cls(CMP, "Comparer"))
    _k6(ctx, R, cc)
    _k7_k8(ctx, R, cc)
    R.rule("K1", "two-sidedness of every asserted comparison and two-sided helper call")
    R.rule("K2", "required comparisons are present")
    R.rule("K3", "no early exit past required comparisons")
    R.rule("K4", "escape clauses of assertions constrain both sides")
    R.rule("K5", "per-element comparisons stay inside the loop that enumerates the elements")
    two_sided = {m for m, f in cc.methods.items() if len(f.params) >= 3 and _side_of_name(f.params[1]) == "O" and _side_of_name(f.params[2]) == "C"}
    R.count("two-sided comparer methods", len(two_sided))
    R.floor("two-sided comparer methods", 9)
    n_cmp = 0
    for mname, f in sorted(cc.methods.items()):
        if mname in ("__init__", "run", "get_identifier", "get_original_identifier"):
            continue
        f0 = inlined_view(P, f)  # private helpers a maintainer extracted (wire / pin loops) are read as part of the method
        f = _compare_view(f0)
        S = Sides(f)
        found = set()
        for a in walk_local(f.node):
            if isinstance(a, ast.Assert):
                for d in _disjuncts(a.test):
                    cross = False
                    one_sided = []
                    for c in _conjuncts(d):
                        for cmp_ in [x for x in ast.walk(c) if isinstance(x, ast.Compare) and len(x.ops) == 1]:
                            l, r = cmp_.left, cmp_.comparators[0]
                            sl, sr = S.of(l), S.of(r)
                            if isinstance(cmp_.ops[0], (ast.Eq, ast.NotEq, ast.Is, ast.IsNot)) and sl and sr:
                                n_cmp += 1
                                el, er = S.erase(l), S.erase(r)
                                if {sl, sr} == {"O", "C"}:
                                    cross = True
                                    if el == er:
                                        found.add(el)
                                        R.ok("K1", "%s: %s" % (mname, el), f.loc(cmp_))
                                    else:
                                        R.bad("K1", "%s|mismatch|%s~%s" % (f.key, el, er), f.loc(cmp_),
                                              "%s compares `%s` of the original with `%s` of the copy: different quantities, so a real difference in either can go unnoticed" % (mname, el, er))
                                elif sl == sr and sl in ("O", "C"):
                                    if el == er:
                                        R.bad("K1", "%s|self-compare|%s" % (f.key, el), f.loc(cmp_),
                                              "%s compares `%s` with itself (both operands come from the %s side): the comparison is always true and the copy is never examined"
                                              % (mname, short(cmp_, 60), "original" if sl == "O" else "copy"))
                                    else:
                                        one_sided.append((sl, el, er))
                                else:
                                    R.bad("K1", "%s|mixed|%s" % (f.key, short(cmp_, 50)), f.loc(cmp_), "%s: operand of `%s` mixes both sides" % (mname, short(cmp_, 60)))
                            elif (sl in ("O", "C")) != (sr in ("O", "C")):
                                s1 = sl or sr
                                one_sided.append((s1, S.erase(l), S.erase(r)))
                    # same-side comparisons are fine only as symmetric pairs (DRC on both sides)
                    if one_sided:
                        sides = {}
                        for s1, a1, b1 in one_sided:
                            sides.setdefault((a1, b1), set()).add(s1)
                        for (a1, b1), ss in sides.items():
                            if ss != {"O", "C"} and len(_disjuncts(a.test)) > 1 and not cross:
                                R.bad("K4", "%s|one-sided-escape|%s" % (f.key, a1), f.loc(a),
                                      "%s: the assertion `%s` is satisfied as soon as `%s %s` holds on the %s side alone; a difference on the other side is accepted"
                                      % (mname, short(a.test, 70), a1, b1, "original" if ss == {"O"} else "copy"))
                            elif ss == {"O", "C"} and len(_disjuncts(a.test)) > 1 and not cross:
                                R.ok("K4", "%s: escape clause %s %s constrains both sides" % (mname, a1, b1), f.loc(a))
        # calls of two-sided helpers
        for c in walk_local(f.node):
            if isinstance(c, ast.Call) and isinstance(c.func, ast.Attribute) and norm(c.func.value) == "self" and c.func.attr in two_sided and len(c.args) >= 2:
                n_cmp += 1
                s1, s2 = S.of(c.args[0]), S.of(c.args[1])
                e1, e2 = S.erase(c.args[0]), S.erase(c.args[1])
                if (s1, s2) == ("O", "C") and e1 == e2:
                    found.add("call:%s(%s)" % (c.func.attr, e1))
                    R.ok("K1", "%s -> %s(%s)" % (mname, c.func.attr, e1), f.loc(c))
                elif s1 == s2 and s1 in ("O", "C"):
                    R.bad("K1", "%s|same-side-call|%s" % (f.key, c.func.attr), f.loc(c),
                          "%s calls `%s` with both arguments taken from the %s: the copy's %s is never looked at" % (mname, short(c, 70), "original" if s1 == "O" else "copy", e1))
                elif (s1, s2) == ("C", "O"):
                    R.bad("K1", "%s|swapped-call|%s" % (f.key, c.func.attr), f.loc(c), "%s calls `%s` with the sides swapped" % (mname, short(c, 70)))
                elif (s1, s2) == ("O", "C"):
                    R.bad("K1", "%s|mismatch-call|%s" % (f.key, c.func.attr), f.loc(c), "%s calls `%s` on different quantities (%s vs %s)" % (mname, short(c, 70), e1, e2))
        # K2
        if any(req not in found for req in REQUIRED.get(mname, [])):
            for d_ in (1, 2, 3, 4):  # the same quantity through hoisted locals, at every depth of substitution
                found |= _found_in(_compare_view(f0, subst=True, maxdepth=d_), two_sided)
        found |= {re.sub(r"\[(\'[^\']*\'|\"[^\"]*\")\]", "", x) for x in found}  # a data key spelled out where a local stood for it
        # comparisons handed to a private helper that could not be read in place (it defines functions of its own, interprets attribute
        # paths given as strings, …): what is compared there is not visible, so a missing comparison cannot be told from a delegated one
        opaque = [c for c in walk_local(f.node) if isinstance(c, ast.Call) and isinstance(c.func, ast.Attribute) and norm(c.func.value) == "self"
                  and c.func.attr.startswith("_") and not c.func.attr.startswith("__") and c.func.attr in cc.methods
                  and {S.of(a_) for a_ in c.args} >= {"O", "C"}]
        for req in REQUIRED.get(mname, []):
            if req in found:
                R.ok("K2", "%s compares %s" % (mname, req), f.loc())
            elif opaque:
                raise AnalysisError("K2: %s hands both sides to `%s`, which the analysis cannot read in place; whether `%s` is still compared is undecided"
                                    % (mname, opaque[0].func.attr, req))
            else:
                R.bad("K2", "%s|missing|%s" % (f.key, req), f.loc(),
                      "%s no longer compares `%s` across the two netlists: a copy that differs there is accepted" % (mname, req))
        # K5: a loop variable used after its loop ended compares only the last element
        for x, lp in stale_loop_uses(f.node):
            R.bad("K5", "%s|stale %s" % (f.key, S.erase(x)), f.loc(x),
                  "%s uses `%s` after the loop over `%s` has ended: only the last element is compared, differences in all the others are accepted" % (mname, x.id, short(lp.iter, 40)))
        if not stale_loop_uses(f.node) and any(isinstance(l_, ast.For) for l_ in walk_local(f.node)):
            R.ok("K5", "%s: loop variables are used inside their loops" % mname, f.loc())
        # K3
        if mname.startswith(("compare", "are_")):
            fs = _compare_view(f0, subst=True)
            for r in walk_local(f.node):
                if isinstance(r, ast.Return) and r is not f.node.body[-1]:
                    # `if <key> not in <original>: return` ahead of comparisons that all concern that key is the guard-clause spelling of
                    # `if <key> in <original>: <compare it>` — nothing that applies to such an element is skipped
                    g = next((p for p in parent_chain(r) if isinstance(p, ast.If)), None)
                    if g is not None and isinstance(g.test, ast.Compare) and len(g.test.ops) == 1 and isinstance(g.test.ops[0], ast.NotIn) \
                            and isinstance(g.test.left, ast.Constant) and isinstance(g.test.left.value, str) and g in f.node.body:
                        key_txt = repr(g.test.left.value)
                        later = [a for a in walk_local(fs.node) if isinstance(a, ast.Assert) and a.lineno > g.lineno]
                        if later and all(key_txt in norm(a.test) for a in later):
                            R.ok("K3", "%s: guard clause on the absence of %s, which is all the rest of the method compares" % (mname, key_txt), f.loc(r))
                            continue
                    R.bad("K3", "%s|early-return" % f.key, f.loc(r),
                          "%s returns early at `%s` (guard: %s): the comparisons after it are skipped for such elements"
                          % (mname, short(r, 40), "; ".join(short(p.test, 40) for p in parent_chain(r) if isinstance(p, ast.If)) or "none"))
            conts = [c for c in walk_local(f.node) if isinstance(c, ast.Continue)]
            for c in conts:
                guards = [norm(p.test) for p in parent_chain(c) if isinstance(p, ast.If)]
                okg = bool(guards) and bool(re.fullmatch(r"\w+\.name is None|\w+\.name\.startswith\('SDN_Assignment_'\)", guards[0]))
                if okg:
                    R.ok("K3", "%s: documented skip (%s)" % (mname, guards[0][:40]), f.loc(c))
                else:
                    R.bad("K3", "%s|skip|%s" % (f.key, (guards[0] if guards else "unconditional")[:50]), f.loc(c),
                          "%s skips elements when `%s`; only unnamed elements and assignment instances are documented as not compared" % (mname, guards[0] if guards else "always"))
    for m in REQUIRED:
        if m not in cc.methods:
            raise AnalysisError("anchor vanished: Comparer.%s" % m)
    R.count("sided comparisons and helper calls (K1)", n_cmp)
    R.floor("sided comparisons and helper calls (K1)", 40)
