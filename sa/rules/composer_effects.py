"""C16 — writing a netlist does not change it and is repeatable: W1 effect allow-list,
W2 open/close pairing, W4 nondeterminism sources, W5 per-run state."""
import ast

from ..core import AnalysisError, norm, short, walk_local, parent_chain
from ..cfg import cfg_of, forward
from . import register

COMPOSERS = {
    "EDIF": ("spydrnet/composers/edif/composer.py", "ComposeEdif", ["spydrnet/composers/edif/edifify_names.py"]),
    "Verilog": ("spydrnet/composers/verilog/composer.py", "Composer", []),
    "EBLIF": ("spydrnet/composers/eblif/eblif_composer.py", "EBLIFComposer", []),
}
# Documented side effects of the EDIF writer (property C16): dependency ordering of libraries and cells,
# recording of generated identifiers, defaulting an absent netlist name.  Nothing for Verilog / EBLIF.
ALLOWED = {
    "EDIF": {"store .libraries": "dependency ordering of libraries (reorder setter)",
             "store .definitions": "dependency ordering of cells (reorder setter)",
             "store .name": "defaulting an absent netlist name",
             "setitem 'EDIF.identifier'": "recording of generated identifiers",
             "setitem 'EDIF.rename'": "recording that the identifier differs from the name"},
    "Verilog": {},
    "EBLIF": {},
}
IR_MUTATORS = {"add_library", "add_definition", "add_port", "add_cable", "add_child", "add_pin", "add_wire",
               "remove_library", "remove_libraries_from", "remove_definition", "remove_definitions_from", "remove_port", "remove_ports_from",
               "remove_cable", "remove_cables_from", "remove_child", "remove_children_from", "remove_pin", "remove_pins_from",
               "remove_wire", "remove_wires_from", "create_library", "create_definition", "create_port", "create_cable", "create_child",
               "create_pin", "create_pins", "create_wire", "create_wires", "connect_pin", "disconnect_pin", "disconnect_pins_from",
               "set_top_instance"}
CONTAINER_MUTATORS = {"append", "extend", "insert", "remove", "pop", "clear", "add", "discard", "update", "sort", "reverse",
                      "setdefault", "popitem", "__setitem__", "__delitem__"}
CLOCK_RANDOM = ("datetime.now", "datetime.datetime.now", "datetime.today", "time.time", "time.localtime", "time.strftime", "time.ctime",
                "random.", "uuid.", "os.getpid", "os.urandom", "os.environ", "getpass.", "socket.gethostname", "platform.node")


def _reachable(cls, entry="run"):
    seen, todo = set(), [entry]
    while todo:
        m = todo.pop()
        if m in seen or m not in cls.methods:
            continue
        seen.add(m)
        for c in ast.walk(cls.methods[m].node):
            if isinstance(c, ast.Call) and isinstance(c.func, ast.Attribute) and norm(c.func.value) == "self":
                todo.append(c.func.attr)
            if isinstance(c, ast.Attribute) and norm(c.value) == "self" and c.attr in cls.methods:
                todo.append(c.attr)  # method values passed around (self._topological_sort etc.)
    return [cls.methods[m] for m in sorted(seen)]


def _all_funcs_in(fnode):
    """the function and the functions nested in it"""
    out = [fnode]
    for n in ast.walk(fnode):
        if isinstance(n, (ast.FunctionDef,)) and n is not fnode:
            out.append(n)
    return out


class LocalKinds:
    """classification of names in one function body: 'local' (a container / object created here), 'alias' (a value
    read out of an IR element's data), 'self' (composer state), 'other' (parameters, loop variables over the netlist...)"""

    def __init__(self, fnode, enclosing=None):
        self.kind = {}
        self.alias_src = {}
        if enclosing is not None:
            self.kind.update(enclosing.kind)
        for n in ast.walk(fnode):
            tg, v = None, None
            if isinstance(n, ast.Assign) and len(n.targets) == 1:
                tg, v = n.targets[0], n.value
            elif isinstance(n, ast.AugAssign):
                continue
            if tg is None:
                continue
            names = [tg] if isinstance(tg, ast.Name) else ([e for e in tg.elts if isinstance(e, ast.Name)] if isinstance(tg, (ast.Tuple, ast.List)) else [])
            for t in names:
                k = self.classify_value(v, single=isinstance(tg, ast.Name))
                prev = self.kind.get(t.id)
                if prev is None or prev == k:
                    self.kind[t.id] = k
                elif "alias" in (prev, k):
                    self.kind[t.id] = "alias"
                else:
                    self.kind[t.id] = "other" if "other" in (prev, k) else k
                if k == "alias":
                    self.alias_src[t.id] = norm(v)

    def classify_value(self, v, single=True):
        if isinstance(v, (ast.List, ast.Dict, ast.Set, ast.ListComp, ast.SetComp, ast.DictComp, ast.Constant, ast.JoinedStr, ast.BinOp, ast.Compare)):
            return "local"
        if isinstance(v, ast.Call):
            fn = norm(v.func)
            if fn in ("list", "set", "dict", "tuple", "sorted", "deque", "OrderedDict", "str", "int", "len", "range", "enumerate", "zip", "reversed",
                      "frozenset", "collections.deque", "Cable", "sdn.Cable", "EdififyNames", "re.compile", "datetime.now", "bool", "min", "max"):
                return "local"
            if isinstance(v.func, ast.Attribute) and v.func.attr in ("copy", "split", "join", "format", "strip", "lower", "upper", "replace", "keys", "values", "items", "strftime", "search", "group"):
                return "local"
            if isinstance(v.func, ast.Attribute) and v.func.attr == "get" and len(v.args) >= 1 and isinstance(v.args[0], ast.Constant) and isinstance(v.args[0].value, str):
                return "alias"
            if isinstance(v.func, ast.Attribute) and norm(v.func.value) == "self":
                return "local-or-other"  # result of a composer helper: a fresh container in this code base
            return "other"
        if isinstance(v, ast.Subscript) and isinstance(v.slice, ast.Constant) and isinstance(v.slice.value, str):
            return "alias"
        if isinstance(v, ast.Attribute) and norm(v.value) == "self":
            return "self"
        return "other"

    def of(self, e):
        if isinstance(e, ast.Name):
            if e.id == "self":
                return "self"
            return self.kind.get(e.id, "other")
        if isinstance(e, ast.Attribute):
            b = e
            while isinstance(b, ast.Attribute):
                b = b.value
            if isinstance(b, ast.Name) and b.id == "self":
                return "self"
            return self.of(b) if isinstance(b, ast.Name) else "other"
        if isinstance(e, ast.Subscript):
            return self.of(e.value)
        if isinstance(e, ast.Call):
            return "local"
        return "other"


def scan_effects(f, extra_self_ok=()):
    """[(kind text, node)] of netlist-mutating effects in function f (nested functions included)"""
    out = []
    outer = LocalKinds(f.node)
    for fn in _all_funcs_in(f.node):
        lk = outer if fn is f.node else LocalKinds(fn, outer)
        for n in ast.walk(fn):
            if isinstance(n, (ast.Assign, ast.AugAssign, ast.Delete)):
                tgs = n.targets if isinstance(n, (ast.Assign, ast.Delete)) else [n.target]
                for t in tgs:
                    for x in (t.elts if isinstance(t, (ast.Tuple, ast.List)) else [t]):
                        if isinstance(x, ast.Attribute):
                            k = lk.of(x.value)
                            if k in ("self", "local"):
                                continue
                            out.append(("store .%s" % x.attr, n))
                        elif isinstance(x, ast.Subscript):
                            k = lk.of(x.value)
                            if k in ("local", "self", "local-or-other"):
                                continue
                            key = norm(x.slice)
                            if k == "alias":
                                out.append(("mutates the data value read with %s" % lk.alias_src.get(norm(x.value), "?"), n))
                            else:
                                out.append(("%s %s" % ("delitem" if isinstance(n, ast.Delete) else "setitem", key), n))
            elif isinstance(n, ast.Call) and isinstance(n.func, ast.Attribute):
                m = n.func.attr
                recv = n.func.value
                k = lk.of(recv)
                if m in IR_MUTATORS and k not in ("local",):
                    if k == "self" and m in extra_self_ok:
                        continue
                    out.append(("call .%s()" % m, n))
                elif m in CONTAINER_MUTATORS and k == "alias":
                    out.append(("mutates the data value read with %s" % lk.alias_src.get(norm(recv), "?"), n))
                elif m in ("pop", "__delitem__", "__setitem__") and k == "other" and n.args and isinstance(n.args[0], ast.Constant) and isinstance(n.args[0].value, str):
                    out.append(("%s %r" % (m, n.args[0].value), n))
    return out


def _only_when_absent(f, node, key):
    """the store `O[key] = ...` is reached only on paths on which `key in O` (or `key in O.data`) was tested and found false
    (must-dataflow; the fact is established on a branch only if every way of taking that branch implies the key is absent)"""
    from ..cfg import Branch
    from ..pairing import alts_of
    tgt = None
    for t in ast.walk(node):
        if isinstance(t, ast.Subscript) and isinstance(t.slice, ast.Constant) and t.slice.value == key and isinstance(t.ctx, ast.Store):
            tgt = norm(t.value)
    if tgt is None:
        return None
    wants = {"notin(%r,%s)" % (key, tgt), "notin(%r,%s.data)" % (key, tgt), "notin(%r,%s._data)" % (key, tgt)}
    cfg = cfg_of(f.node)

    def transfer(n, st):
        if n.kind == "test":
            out = {None: st}
            for lab, pol in (("true", True), ("false", False)):
                alts = alts_of(n.ast.test, pol)
                out[lab] = st or (bool(alts) and all(wants & set(a) for a in alts))
            return Branch(out)
        return st
    state = forward(cfg, False, transfer, lambda a, b: a and b, follow=lambda a_, b_, lab: lab != "exc")
    stmt = node
    for cn in cfg.nodes:
        if cn.ast is stmt or (cn.ast is not None and any(x is node for x in ast.walk(cn.ast)) and cn.kind == "stmt"):
            return bool(state.get(cn.id))
    return None


def _w1(ctx, R, name, cls, funcs):
    n = 0
    for f in funcs:
        for kind, node in scan_effects(f):
            n += 1
            if kind in ALLOWED[name] and kind == "setitem 'EDIF.identifier'" and _only_when_absent(f, node, "EDIF.identifier") is False:
                R.bad("W1", "%s|%s|overwrite" % (f.key, kind), f.loc(node),
                      "%s: `%s` can run when the element already carries an EDIF.identifier (no `'EDIF.identifier' in <element>` test excludes it on every "
                      "path): the documented effect is recording a *generated* identifier, not replacing one the user or a reader gave" % (f.qualname, short(node, 60)))
            elif kind in ALLOWED[name]:
                # the netlist-name default must stay conditional on the name being absent
                if kind == "store .name" and not any(isinstance(p, ast.If) and "name is None" in norm(p.test) for p in parent_chain(node)):
                    R.bad("W1", "%s|%s|unconditional" % (f.key, kind), f.loc(node), "%s: `%s` overwrites the netlist name unconditionally (documented: only an absent name is defaulted)" % (f.qualname, short(node, 60)))
                else:
                    R.ok("W1", "%s %s: %s (%s)" % (name, f.qualname, kind, ALLOWED[name][kind]), f.loc(node))
            else:
                R.bad("W1", "%s|%s" % (f.key, kind), f.loc(node),
                      "%s (reachable from the %s writer's run) changes the netlist: `%s` (%s). Composing must leave structure, names, attributes and user data as they were%s"
                      % (f.qualname, name, short(node, 70), kind,
                         "" if not ALLOWED[name] else "; the documented side effects are " + ", ".join(sorted(ALLOWED[name]))))
    return n


def _w2(ctx, R, name, cls, funcs):
    """the handle opened by the composer is closed on every normal path of run"""
    opens = []
    for f in funcs:
        for c in walk_local(f.node):
            if isinstance(c, ast.Call) and norm(c.func) == "open":
                opens.append((f, c))
    if not opens:
        raise AnalysisError("W2: the %s composer no longer opens its output file in a method reachable from run" % name)
    with_ctx = [(f, c) for f, c in opens if isinstance(getattr(c, "_parent", None), ast.withitem)]
    if len(with_ctx) == len(opens):
        R.ok("W2", "%s: output opened in a with-statement" % name, opens[0][0].loc(opens[0][1]))
        return
    # attribute(s) of self that hold the handle
    handles = set()
    for f, c in opens:
        p = getattr(c, "_parent", None)
        if isinstance(p, ast.Assign):
            t = p.targets[0]
            if isinstance(t, ast.Attribute) and norm(t.value) == "self":
                handles.add(t.attr)
            elif isinstance(t, ast.Name):
                # local returned / assigned to self later
                for f2 in funcs:
                    for a in walk_local(f2.node):
                        if isinstance(a, ast.Assign) and isinstance(a.targets[0], ast.Attribute) and norm(a.targets[0].value) == "self":
                            v = a.value
                            if (f2 is f and isinstance(v, ast.Name) and v.id == t.id) or \
                                    (isinstance(v, ast.Call) and norm(v.func) == "self.%s" % f.name):
                                handles.add(a.targets[0].attr)
    if not handles:
        raise AnalysisError("W2: cannot tell where the %s composer keeps its open file" % name)
    methods = {f.name: f for f in funcs}
    must_close = {}

    def closes(fname, depth=0):
        if fname in must_close:
            return must_close[fname]
        must_close[fname] = False
        f = methods.get(fname)
        if f is None or depth > 8:
            return False
        cfg = cfg_of(f.node)

        def tr(n, st):
            from ..cfg import node_exprs
            ex, tg = node_exprs(n)
            for e in ex:
                for c in ast.walk(e):
                    if isinstance(c, ast.Call) and isinstance(c.func, ast.Attribute):
                        if c.func.attr == "close" and isinstance(c.func.value, ast.Attribute) and norm(c.func.value.value) == "self" and c.func.value.attr in handles:
                            st = True
                        elif norm(c.func.value) == "self" and c.func.attr in methods and closes(c.func.attr, depth + 1):
                            st = True
            return st

        state = forward(cfg, False, tr, lambda a, b: a and b, follow=lambda n, s, l: l != "exc")
        res = bool(state.get(cfg.exit.id, False)) if cfg.exit.id in state else True
        must_close[fname] = res
        return res

    run = methods.get("run")
    if run is None:
        raise AnalysisError("anchor vanished: %s.run" % cls.name)
    if closes("run"):
        R.ok("W2", "%s: run closes self.%s on every normal path" % (name, "/".join(sorted(handles))), run.loc())
    else:
        R.bad("W2", "%s|unclosed|%s" % (run.key, "/".join(sorted(handles))), run.loc(),
              "%s.run opens the output file (self.%s) but does not close it on every normal path: the file may be incomplete (unflushed) when compose() returns"
              % (cls.name, "/".join(sorted(handles))))


def _w4_w5(ctx, R, name, cls, funcs, module):
    n = 0
    for f in funcs:
        for c in walk_local(f.node):
            if isinstance(c, ast.Call):
                fn = norm(c.func)
                if fn in ("id", "hash") or any(fn == p or (p.endswith(".") and fn.startswith(p)) for p in CLOCK_RANDOM):
                    n += 1
                    if name == "EDIF" and fn.endswith("datetime.now") or (name == "EDIF" and fn == "datetime.now"):
                        if f.name == "_output_status_":
                            R.ok("W4", "EDIF timestamp in _output_status_ (documented)", f.loc(c))
                            continue
                    R.bad("W4", "%s|%s" % (f.key, fn), f.loc(c), "%s calls %s: the text written would differ between two composes of the same netlist" % (f.qualname, fn))
        # emission loops over sets
        set_names = set()
        for a in ast.walk(f.node):
            if isinstance(a, ast.Assign) and isinstance(a.targets[0], ast.Name):
                v = a.value
                if isinstance(v, (ast.Set, ast.SetComp)) or (isinstance(v, ast.Call) and norm(v.func) in ("set", "frozenset")):
                    set_names.add(a.targets[0].id)
        self_sets = {norm(a.targets[0]) for m in cls.methods.values() for a in ast.walk(m.node)
                     if isinstance(a, ast.Assign) and isinstance(a.targets[0], ast.Attribute) and norm(a.targets[0].value) == "self"
                     and (isinstance(a.value, (ast.Set, ast.SetComp)) or (isinstance(a.value, ast.Call) and norm(a.value.func) in ("set", "frozenset")))}
        writers = {m for m, mf in cls.methods.items() if any(isinstance(c, ast.Call) and isinstance(c.func, ast.Attribute) and c.func.attr in ("write", "write_out", "writelines") for c in ast.walk(mf.node))}
        changed = True
        while changed:
            changed = False
            for m, mf in cls.methods.items():
                if m not in writers and any(isinstance(c, ast.Call) and isinstance(c.func, ast.Attribute) and norm(c.func.value) == "self" and c.func.attr in writers for c in ast.walk(mf.node)):
                    writers.add(m)
                    changed = True
        for lp in walk_local(f.node):
            if isinstance(lp, ast.For):
                it = lp.iter
                is_set = (isinstance(it, ast.Name) and it.id in set_names) or norm(it) in self_sets or \
                    (isinstance(it, ast.Call) and norm(it.func) in ("set", "frozenset")) or isinstance(it, (ast.Set, ast.SetComp)) or \
                    (isinstance(it, ast.Attribute) and it.attr == "references")
                if not is_set:
                    continue
                emits = any(isinstance(c, ast.Call) and isinstance(c.func, ast.Attribute) and (c.func.attr in ("write", "write_out") or (norm(c.func.value) == "self" and c.func.attr in writers))
                            for s in lp.body for c in ast.walk(s))
                n += 1
                if emits:
                    R.bad("W4", "%s|set-order|%s" % (f.key, norm(it)), f.loc(lp), "%s writes output inside a loop over the set `%s`: the order of the text depends on hash order" % (f.qualname, norm(it)))
                else:
                    R.ok("W4", "%s: loop over set %s does not emit" % (f.qualname, norm(it)), f.loc(lp))
    # W5: per-run state lives on the instance
    for nm, v in cls.class_assigns.items():
        if nm.startswith("__"):
            continue
        mutable = isinstance(v, (ast.List, ast.Dict, ast.Set, ast.ListComp, ast.SetComp, ast.DictComp)) or (isinstance(v, ast.Call) and norm(v.func) in ("set", "list", "dict", "deque", "OrderedDict", "collections.deque"))
        if mutable and not _class_attr_mutated(cls, nm):
            # a look-up table: a dict / list literal that nothing in the module ever changes (no mutating method call, item store or
            # augmented assignment on it — directly, through self / cls / the class name, or through a local bound to it)
            R.ok("W5", "%s.%s is class-level data that is never modified" % (cls.name, nm), cls.module.relpath)
        elif mutable:
            R.bad("W5", "%s|class-level %s" % (cls.key, nm), cls.module.relpath,
                  "%s.%s is a mutable class attribute: it is shared by every composer in the process, so what one compose records (already written modules, ports...) changes the next compose" % (cls.name, nm))
        else:
            R.ok("W5", "%s.%s is immutable class-level data" % (cls.name, nm), cls.module.relpath)
    # W5b: a mutable default argument that the method mutates survives between calls (and between composers)
    for m in cls.methods.values():
        a = m.node.args
        names = [x.arg for x in a.posonlyargs + a.args]
        defaults = [None] * (len(names) - len(a.defaults)) + list(a.defaults)
        for nm, d in list(zip(names, defaults)) + [(k.arg, dv) for k, dv in zip(a.kwonlyargs, a.kw_defaults)]:
            if d is None:
                continue
            mutable = isinstance(d, (ast.List, ast.Dict, ast.Set)) or (isinstance(d, ast.Call) and norm(d.func) in ("set", "list", "dict", "deque", "OrderedDict", "collections.deque"))
            if not mutable:
                continue
            mutated = any(isinstance(c, ast.Call) and isinstance(c.func, ast.Attribute) and norm(c.func.value) == nm
                          and c.func.attr in (CONTAINER_MUTATORS | {"popleft", "appendleft", "extendleft"}) for c in ast.walk(m.node)) or \
                any(isinstance(t, ast.Subscript) and norm(t.value) == nm and isinstance(t.ctx, (ast.Store, ast.Del)) for t in ast.walk(m.node))
            if mutated:
                R.bad("W5", "%s|mutable default %s" % (m.key, nm), m.loc(),
                      "%s takes `%s=%s` and mutates it: the default object lives as long as the process, so whatever one compose leaves in it (e.g. after an aborted run) shows up in the next" % (m.qualname, nm, norm(d)))
            else:
                R.ok("W5", "%s: default %s=%s is never mutated" % (m.qualname, nm, norm(d)), m.loc())
    init = cls.methods.get("__init__")
    state_attrs = set()
    for m in cls.methods.values():
        for c in ast.walk(m.node):
            if isinstance(c, ast.Call) and isinstance(c.func, ast.Attribute) and c.func.attr in ("add", "append", "extend", "update") \
                    and isinstance(c.func.value, ast.Attribute) and norm(c.func.value.value) == "self":
                state_attrs.add(c.func.value.attr)
    init_attrs = {a.targets[0].attr for m in (cls.methods.get("__init__"), cls.methods.get("run")) if m is not None for a in ast.walk(m.node)
                  if isinstance(a, ast.Assign) and isinstance(a.targets[0], ast.Attribute) and norm(a.targets[0].value) == "self"}
    for a in sorted(state_attrs):
        if a in init_attrs:
            R.ok("W5", "%s.%s is created per composer instance" % (cls.name, a), cls.module.relpath)
        else:
            R.bad("W5", "%s|state %s" % (cls.key, a), cls.module.relpath, "%s accumulates into self.%s, which is not (re)created in __init__ / run: state leaks between composes" % (cls.name, a))
    for gname, v in module.assigns.items():
        if isinstance(v, (ast.List, ast.Dict, ast.Set)) or (isinstance(v, ast.Call) and norm(v.func) in ("set", "list", "dict")):
            used = any(isinstance(c, ast.Call) and isinstance(c.func, ast.Attribute) and norm(c.func.value) == gname and c.func.attr in CONTAINER_MUTATORS
                       for f in funcs for c in ast.walk(f.node))
            if used:
                R.bad("W5", "%s|global %s" % (module.relpath, gname), module.relpath, "module-level container %s is mutated while composing" % gname)
    return n


_MUTATORS = {"append", "extend", "insert", "update", "pop", "remove", "clear", "add", "discard", "setdefault", "sort", "reverse", "popitem", "appendleft",
             "popleft", "difference_update", "intersection_update", "symmetric_difference_update", "__setitem__", "__delitem__"}


def _class_attr_mutated(cls, nm):
    """some statement of the module can change the object bound to class attribute `nm`"""
    def denotes(e, aliases):
        if isinstance(e, ast.Attribute) and e.attr == nm and isinstance(e.value, ast.Name) and e.value.id in ("self", "cls", cls.name):
            return True
        if isinstance(e, ast.Name) and (e.id in aliases):
            return True
        return False
    for fn in [x for x in ast.walk(cls.module.tree) if isinstance(x, (ast.FunctionDef, ast.AsyncFunctionDef))] + [cls.node]:
        aliases = {a.targets[0].id for a in ast.walk(fn) if isinstance(a, ast.Assign) and len(a.targets) == 1 and isinstance(a.targets[0], ast.Name)
                   and denotes(a.value, set())}
        if fn is cls.node:
            aliases = {nm}  # inside the class body the bare name is the attribute
        for x in ast.walk(fn):
            if isinstance(x, ast.Call) and isinstance(x.func, ast.Attribute) and x.func.attr in _MUTATORS and denotes(x.func.value, aliases):
                return True
            if isinstance(x, ast.Subscript) and isinstance(x.ctx, (ast.Store, ast.Del)) and denotes(x.value, aliases):
                return True
            if isinstance(x, ast.AugAssign) and denotes(x.target, aliases):
                return True
            if isinstance(x, (ast.Assign, ast.Delete)) and fn is not cls.node:
                tg = x.targets
                if any(isinstance(t, ast.Attribute) and t.attr == nm and isinstance(t.value, ast.Name) and t.value.id in ("cls", cls.name) for t in tg):
                    return True
            # handed to something that may keep or change it
            if isinstance(x, ast.Call) and any(denotes(a_, aliases) for a_ in list(x.args) + [k.value for k in x.keywords]) \
                    and not (isinstance(x.func, ast.Name) and x.func.id in ("len", "isinstance", "iter", "next", "sorted", "list", "tuple", "set", "frozenset",
                                                                             "dict", "enumerate", "zip", "any", "all", "str", "repr", "print", "min", "max", "sum")):
                return True
    return False


@register("C16",
          "Static effect analysis of the three composers over the call graph reachable from run(): W1 every operation that can change the "
          "netlist (calls of IR mutators, stores to element properties, item stores/deletes on elements, in-place mutation of a value read out "
          "of an element's data) must be on the documented allow-list (EDIF: library/cell reordering, EDIF.identifier / EDIF.rename — an identifier only where none is recorded yet —, "
          "defaulting an absent netlist name; Verilog and EBLIF: nothing) — containers and elements created inside the composer are not "
          "netlist state; W2 the opened output is closed on every normal path of run (must-dataflow over helper calls); W4 no clock / "
          "random / id / hash source other than the EDIF timestamp, no emission loop over a set; W5 accumulators live on the composer "
          "instance (no mutable class attributes or module globals). Decides absence of side effects and of nondeterminism sources; "
          "byte-equality of repeated outputs in general is not decided. W6 the EDIF writer's dependency sort takes its roots one at a time in input order (so an already ordered netlist is listed in the same order again).")
def check_c16(ctx, R):
    P = ctx.P
    # W6: the order in which the EDIF writer lists cells and libraries is a function of the netlist's own order (same rule as B6 of C03:
    # in particular the dependency sort takes its roots one at a time, in the order given — otherwise each pass reorders independent cells)
    from .edif_roundtrip import check_dependency_order
    R.rule("W6", "repeatable order: the dependency sort of the EDIF writer is the reviewed depth-first post-order over the roots in input order")
    check_dependency_order(ctx, R, "W6")
    R.rule("W1", "effect allow-list over everything reachable from run()")
    R.rule("W2", "open/close pairing on every normal path of run()")
    R.rule("W4", "nondeterminism sources")
    R.rule("W5", "per-run state lives on the composer instance")
    total = 0
    for name, (rel, cname, extra) in COMPOSERS.items():
        cls = P.cls(rel, cname)
        funcs = _reachable(cls)
        if len(funcs) < 8:
            raise AnalysisError("C16: only %d methods reachable from %s.run" % (len(funcs), cname))
        for er in extra:
            em = P.module(er)
            for c in em.classes.values():
                funcs += list(c.methods.values())
        total += len(funcs)
        n_eff = _w1(ctx, R, name, cls, funcs)
        R.count("%s netlist-affecting operations (W1)" % name, n_eff)
        _w2(ctx, R, name, cls, [f for f in funcs if f.cls is cls])
        _w4_w5(ctx, R, name, cls, funcs, P.module(rel))
    R.count("composer methods reachable from run()", total)
    R.floor("composer methods reachable from run()", 60)
    R.floor("EDIF netlist-affecting operations (W1)", 5)
    # positive example for W1 (expected count is zero for two composers)
    from ..core import Module
    probe = Module("probe/composer.py", "class C:\n    def run(self, n):\n        for c in n.cables:\n            c.is_downto = True\n            c['X.y'] = 1\n        d = n.get('K', [])\n        d.append(1)\n")
    pf = probe.classes["C"].methods["run"]
    if len(scan_effects(pf)) != 3:
        raise AnalysisError("W1 positive example no longer matches (found %d of 3)" % len(scan_effects(pf)))
