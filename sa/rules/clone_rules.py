"""C07 — clones are faithful, closed and independent: L1 slot coverage, L2 deep copy of data,
L3 pointer closure per allocation site, L4 extended-class agreement, L5 source immutability."""
import ast

from ..core import parent_chain, reaching_assign, AnalysisError, norm, short, walk_local
from ..kinds import FIELD_TYPES, SCALAR_FIELDS, CONCRETE, kinds_of, field_class
from ..effects import root_and_depth
from ..typestate import classify_set
from . import register
from ..inline import inlined_view

DATA_SCALARS = {"_direction", "_is_downto", "_is_scalar", "_lower_index", "_data"}
POINTER_FIELDS = {f for (c, f), t in FIELD_TYPES.items()}

# Documented semantics of each public clone entry (docs/source/reference/functions/clone.rst and the
# clone() docstrings): what must happen to every copied-through pointer field of the objects the
# clone creates.  remap = redirected through memo; reset = cut; absent = documented to be kept.
REQUIRED = {
    "Netlist": {("Pin", "_wire"): "remap", ("Wire", "_pins"): "remap", ("Definition", "_references"): "remap",
                ("Instance", "_reference"): "remap", ("Instance", "_pins"): "remap", ("OuterPin", "_inner_pin"): "remap"},
    "Library": {("Pin", "_wire"): "remap", ("Wire", "_pins"): "remap", ("Definition", "_references"): "remap",
                ("Instance", "_reference"): "remap", ("Instance", "_pins"): "remap", ("OuterPin", "_inner_pin"): "remap"},
    "Definition": {("Pin", "_wire"): "remap", ("Wire", "_pins"): "remap", ("Definition", "_references"): "reset",
                   ("OuterPin", "_inner_pin"): "keep", ("Instance", "_reference"): "keep"},
    "Instance": {("Pin", "_wire"): "reset", ("OuterPin", "_inner_pin"): "keep", ("Instance", "_reference"): "keep", ("Instance", "_pins"): "keep"},
    "Port": {("Pin", "_wire"): "reset"},
    "Cable": {("Wire", "_pins"): "reset"},
    "Wire": {("Wire", "_pins"): "reset"},
    "InnerPin": {("Pin", "_wire"): "reset"},
    "OuterPin": {("Pin", "_wire"): "reset", ("OuterPin", "_inner_pin"): "reset"},
}


def _clone_family(P):
    """the methods of the clone protocol (clone, _clone, _clone_rip…: instance methods), each read with its private helpers in place —
    a static / module-level helper that merely carries `_clone` in its name (`_clone_members(members, memo)`) is such a helper, not a
    protocol method"""
    proto = {}
    for cname, ci in P.ir_classes.items():
        for m in ci.methods.values():
            if (m.name == "clone" or m.name.startswith("_clone")) and m.role == "method" and set(m.params) <= {"self", "memo"}:
                proto[m.key] = m
    names = {m.name for m in proto.values()}
    return {k: inlined_view(P, m, keep=names) for k, m in proto.items()}


def _copy_var(f):
    """the variable holding the fresh copy in a _clone method: `c = Cls()` followed by memo[self] = c"""
    for n in walk_local(f.node):
        if isinstance(n, ast.Assign) and isinstance(n.targets[0], ast.Subscript) and norm(n.targets[0].value) == "memo" \
                and norm(n.targets[0].slice) == "self" and isinstance(n.value, ast.Name):
            return n.value.id
    return None


def _strip_copy(e):
    while isinstance(e, ast.Call) and norm(e.func) in ("copy", "deepcopy", "copy.copy", "copy.deepcopy", "list", "set", "OrderedDict", "dict") and len(e.args) == 1:
        e = e.args[0]
    return e


def _mentions_memo(e):
    return any(isinstance(n, ast.Subscript) and norm(n.value) == "memo" for n in ast.walk(e)) or \
        any(isinstance(n, ast.Call) and isinstance(n.func, ast.Attribute) and n.func.attr in ("_clone", "get") and
            (n.func.attr == "_clone" or norm(n.func.value) == "memo") for n in ast.walk(e))


class CloneModel:
    def __init__(self, ctx):
        self.ctx = ctx
        self.P = ctx.P
        self.M = ctx.model
        self.fam = _clone_family(self.P)
        self._ev = {}
        self.calls = {}      # func key -> [(target FuncInfo, recv expr, call event)]
        self.callers = {}    # target key -> [(caller FuncInfo, recv expr, ev)]
        for k, f in self.fam.items():
            fe = self.ev(f)
            lst = []
            for evs in fe.by_node.values():
                for ev in evs:
                    if ev.kind == "call" and not ev.ctor:
                        for t in ev.targets or []:
                            if t.key in self.fam:
                                lst.append((t, ev.recv, ev))
                                self.callers.setdefault(t.key, []).append((f, ev.recv, ev))
            self.calls[k] = lst

    def ev(self, f):
        """events of a family member (built on the view when private helpers were spliced in)"""
        raw = self.P.func(f.module.relpath, f.qualname) if hasattr(self.P, "func") else None
        if raw is not None and raw.node is f.node:
            return self.M.events(f)
        fe = self._ev.get(f.key)
        if fe is None or fe.func is not f:
            from ..effects import FuncEvents
            fe = self._ev[f.key] = FuncEvents(self.P, f, self.M)
        return fe

    def reachable(self, entry):
        seen = {entry.key}
        todo = [entry]
        while todo:
            f = todo.pop()
            for t, recv, ev in self.calls.get(f.key, []):
                if t.key not in seen:
                    seen.add(t.key)
                    todo.append(t)
        return seen

    # -- copied-through pointer fields -------------------------------------------------------
    def copied_through(self, f):
        """[(field class, field, stmt)] for `c._f = <self._g ...>` / `c._pins[k] = v` with k from self"""
        c = _copy_var(f)
        out = []
        if c is None:
            return out
        fe = self.ev(f)
        for evs in fe.by_node.values():
            for ev in evs:
                if ev.kind != "write" or norm(ev.recv) != c:
                    continue
                if (ev.cls, ev.field) not in FIELD_TYPES and not any((b.name, ev.field) in FIELD_TYPES for b in self.P.ir_mro(ev.cls or "")):
                    continue
                if ev.op == "set" and ev.value is not None:
                    v = _strip_copy(ev.value)
                    if isinstance(v, ast.Attribute) and norm(v.value) == "self" and not _mentions_memo(ev.value):
                        out.append((ev.cls, ev.field, ev.stmt))
                elif ev.op == "setitem" and ev.elem is not None:
                    # key of the mapping comes from iterating self's mapping: copied through
                    key = ev.elem
                    if isinstance(key, ast.Name) and not _mentions_memo(key):
                        for lp in walk_local(f.node):
                            if isinstance(lp, ast.For) and any(isinstance(n, ast.Name) and n.id == key.id for n in ast.walk(lp.target)) \
                                    and "self." in norm(lp.iter):
                                out.append((ev.cls, ev.field, ev.stmt))
        return out

    # -- allocation sites -----------------------------------------------------------------------
    def alloc_sites(self):
        """[(class A, function g, call node, home)] home = ('field', G, F) | ('local', g.key, var)"""
        sites = []
        for k, g in self.fam.items():
            fe = self.ev(g)
            cvar = _copy_var(g)
            for evs in fe.by_node.values():
                for ev in evs:
                    if ev.kind != "call" or ev.ctor:
                        continue
                    for t in ev.targets or []:
                        if t.name != "_clone" or t.cls is None:
                            continue
                        A = t.cls.name
                        call = ev.node
                        par = getattr(call, "_parent", None)
                        homes = []
                        local = None
                        if isinstance(par, ast.Call) and isinstance(par.func, ast.Attribute) and par.func.attr == "append" and isinstance(par.func.value, ast.Name):
                            lst = par.func.value.id
                            for n in walk_local(g.node):
                                if isinstance(n, ast.Assign) and isinstance(n.value, ast.Name) and n.value.id == lst and isinstance(n.targets[0], ast.Attribute):
                                    homes.append(("field", g.cls.name, n.targets[0].attr))
                        elif isinstance(par, (ast.ListComp, ast.GeneratorExp, ast.SetComp)) and par.elt is call:
                            # `c._f = [x._clone(memo) for x in self._f]` (possibly through list(...) or a local)
                            up = getattr(par, "_parent", None)
                            while isinstance(up, ast.Call) and norm(up.func) in ("list", "tuple", "set"):
                                up = getattr(up, "_parent", None)
                            if isinstance(up, ast.Assign) and isinstance(up.targets[0], ast.Attribute):
                                homes.append(("field", g.cls.name, up.targets[0].attr))
                            elif isinstance(up, ast.Assign) and isinstance(up.targets[0], ast.Name):
                                lst = up.targets[0].id
                                for n in walk_local(g.node):
                                    if isinstance(n, ast.Assign) and isinstance(n.value, ast.Name) and n.value.id == lst and isinstance(n.targets[0], ast.Attribute):
                                        homes.append(("field", g.cls.name, n.targets[0].attr))
                        elif isinstance(par, ast.Assign) and isinstance(par.targets[0], ast.Name):
                            local = par.targets[0].id
                            homes.append(("local", g.key, local))
                            for n in walk_local(g.node):
                                if isinstance(n, ast.Assign) and isinstance(n.value, ast.Name) and n.value.id == local:
                                    tg = n.targets[0]
                                    if isinstance(tg, ast.Subscript) and isinstance(tg.value, ast.Attribute):
                                        homes.append(("field", g.cls.name, tg.value.attr))
                                    elif isinstance(tg, ast.Attribute):
                                        homes.append(("field", g.cls.name, tg.attr))
                                # … or collected in a local list / set that is installed as a field: `port = p._clone(memo); …; new_ports.append(port)`
                                if isinstance(n, ast.Call) and isinstance(n.func, ast.Attribute) and n.func.attr in ("append", "add") and isinstance(n.func.value, ast.Name) \
                                        and len(n.args) == 1 and isinstance(n.args[0], ast.Name) and n.args[0].id == local:
                                    lst = n.func.value.id
                                    for n2 in walk_local(g.node):
                                        if isinstance(n2, ast.Assign) and isinstance(n2.value, ast.Name) and n2.value.id == lst and isinstance(n2.targets[0], ast.Attribute):
                                            homes.append(("field", g.cls.name, n2.targets[0].attr))
                        elif isinstance(par, ast.Assign):
                            homes.append(("entry", g.key, norm(par.targets[0])))
                        sites.append((A, g, call, homes))
        return sites

    # -- fixer writes ---------------------------------------------------------------------------------
    def fixers(self):
        """[(function, cls, field, kind, recv expr, stmt)] in clone-family functions"""
        out = []
        for k, f in self.fam.items():
            fe = self.ev(f)
            cvar = _copy_var(f)
            for evs in fe.by_node.values():
                for ev in evs:
                    if ev.kind != "write" or ev.cls is None:
                        continue
                    cls = ev.cls
                    kind = None
                    if ev.op == "set":
                        v = ev.value
                        if isinstance(v, ast.Name):
                            # a local that only names a memo lookup: `new_ip = memo[ip]; op._inner_pin = new_ip`
                            d_ = reaching_assign(ev.stmt, v.id) if ev.stmt is not None else None
                            if d_ is not None and isinstance(d_, ast.Assign) and len(d_.targets) == 1 and isinstance(d_.targets[0], ast.Name) and _mentions_memo(d_.value):
                                v = d_.value
                        if isinstance(v, ast.Constant) and v.value is None:
                            kind = "reset"
                        elif v is not None and _mentions_memo(v):
                            kind = "remap"
                        elif v is not None:
                            c = classify_set(f.node, ev)
                            if c == "reset":
                                kind = "reset"
                            elif c == "remap":
                                kind = "remap"
                            elif not isinstance(v, ast.Name) and any(
                                    isinstance(x, ast.Attribute) and x.attr.startswith("_") and any(
                                        e2.kind == "write" and e2.field == x.attr and e2.op == "set" and e2.value is not None and _mentions_memo(e2.value)
                                        for evs2 in fe.by_node.values() for e2 in evs2)
                                    for x in ast.walk(v)):
                                # rebuilt from a field that this very function has just redirected through memo
                                # (`op._inner_pin = memo[ip]` … `self._pins = OrderedDict((op._inner_pin, op) for op in …)`)
                                kind = "remap"
                            elif isinstance(v, ast.Name):
                                # local rebuilt from memo lookups or filtered on memo membership
                                uses_memo = False
                                for n in walk_local(f.node):
                                    if isinstance(n, ast.Call) and isinstance(n.func, ast.Attribute) and isinstance(n.func.value, ast.Name) \
                                            and n.func.value.id == v.id and n.func.attr in ("add", "append"):
                                        p = n
                                        while p is not None and p is not f.node:
                                            if isinstance(p, ast.If) and "memo" in norm(p.test):
                                                uses_memo = True
                                            p = getattr(p, "_parent", None)
                                        if n.args and _mentions_memo(n.args[0]):
                                            uses_memo = True
                                    if isinstance(n, ast.Subscript) and isinstance(n.ctx, ast.Store) and isinstance(n.value, ast.Name) and n.value.id == v.id \
                                            and _mentions_memo(n.slice):
                                        uses_memo = True
                                if uses_memo:
                                    kind = "remap"
                    elif ev.op == "clear":
                        kind = "reset"
                    if kind:
                        out.append((f, cls, ev.field, kind, ev.recv, ev.stmt))
        return out

    # -- does a receiver expression in function g denote objects of an allocation site? ----------------
    def recv_homes(self, g, recv, depth=0, at=None):
        """homes denoted by receiver expression `recv` inside function g; 'ALL' = every object of that class
        created by the clone (the fresh copy itself), None = unknown"""
        homes = set()
        if depth > 5:
            return {"?"}
        if isinstance(recv, ast.Name):
            name = recv.id
            if name == _copy_var(g):
                return {"ALL"}
            if name == "self":
                # objects this method is applied to
                cs = self.callers.get(g.key, [])
                if g.name == "clone" or not cs:
                    return {"ENTRY"}
                for (caller, r2, ev) in cs:
                    homes |= self.recv_homes(caller, r2, depth + 1, at=ev.stmt)
                return homes
            # loop variable?  (the innermost enclosing loop of the use that binds the name)
            enclosing = []
            p_ = getattr(at, "_parent", None) if at is not None else None
            while p_ is not None and p_ is not g.node:
                if isinstance(p_, ast.For):
                    enclosing.append(p_)
                p_ = getattr(p_, "_parent", None)
            loops = enclosing if at is not None else [lp for lp in walk_local(g.node) if isinstance(lp, ast.For)]
            for lp in loops:
                if isinstance(lp, ast.For) and any(isinstance(n, ast.Name) and n.id == name for n in ast.walk(lp.target)):
                    it = lp.iter
                    if isinstance(it, ast.Call) and isinstance(it.func, ast.Attribute) and it.func.attr in ("values", "items", "keys"):
                        it = it.func.value
                    if isinstance(it, ast.Name):
                        # a local list that is (also) installed as a container of the copy / of self: `c._ports = new_ports … for port in new_ports:`
                        inst_ = [a_ for a_ in walk_local(g.node) if isinstance(a_, ast.Assign) and isinstance(a_.value, ast.Name) and a_.value.id == it.id
                                 and len(a_.targets) == 1 and isinstance(a_.targets[0], ast.Attribute) and isinstance(a_.targets[0].value, ast.Name)
                                 and a_.targets[0].value.id in ("self", _copy_var(g) or "")]
                        rebinds = [a_ for a_ in walk_local(g.node) if isinstance(a_, ast.Assign) and any(isinstance(t_, ast.Name) and t_.id == it.id for t_ in a_.targets)]
                        if len(inst_) == 1 and len(rebinds) == 1:
                            it = inst_[0].targets[0]
                    if isinstance(it, ast.Call) and isinstance(it.func, ast.Attribute) and norm(it.func.value) == "self" and not it.args and not it.keywords \
                            and g.cls is not None:
                        # for item in self._items(): an accessor each subclass answers with one of its own containers (`return self._pins`)
                        got = set()
                        for cname_, ci_ in self.P.ir_classes.items():
                            if not any(b.name == g.cls.name for b in self.P.ir_mro(cname_)):
                                continue
                            acc = ci_.methods.get(it.func.attr)
                            if acc is None:
                                continue
                            body_ = [x for x in acc.node.body if not (isinstance(x, ast.Expr) and isinstance(x.value, ast.Constant))]
                            if len(body_) == 1 and isinstance(body_[0], ast.Return) and isinstance(body_[0].value, ast.Attribute) and norm(body_[0].value.value) == "self":
                                a_ = body_[0].value.attr
                                got.add(("field", cname_, a_ if a_.startswith("_") else "_" + a_))
                            elif len(body_) == 1 and isinstance(body_[0], ast.Raise):
                                continue
                            else:
                                got = None
                                break
                        if got:
                            return got
                    if isinstance(it, ast.Attribute):
                        base = it.value
                        fld = it.attr if it.attr.startswith("_") else "_" + it.attr
                        bt = None
                        if isinstance(base, ast.Name):
                            if base.id in ("self", _copy_var(g) or ""):
                                bt = g.cls.name
                            else:
                                # nested loop: base is itself a loop variable over a container of known element class
                                fe = self.ev(g)
                                for cn in fe.cfg.nodes:
                                    if cn.kind == "next" and cn.ast is lp and cn.id in fe.ty.state:
                                        ks = kinds_of(fe.ty.type_of(base, fe.ty.env_at(cn)))
                                        if ks and len(ks) == 1:
                                            bt = list(ks)[0]
                        if bt:
                            homes.add(("field", bt, fld))
                            return homes
                    return {"?"}
            # local bound to an allocation
            for n in walk_local(g.node):
                if isinstance(n, ast.Assign) and isinstance(n.targets[0], ast.Name) and n.targets[0].id == name and isinstance(n.value, ast.Call) \
                        and isinstance(n.value.func, ast.Attribute) and n.value.func.attr == "_clone":
                    if g.name == "clone" and norm(n.value.func.value) == "self":
                        return {"ENTRY"}
                    return {("local", g.key, name)}
            return {"?"}
        return {"?"}


def _is_container_slot(P, cname, slot):
    from ..kinds import FIELD_TYPES
    for c in P.ir_mro(cname):
        t = FIELD_TYPES.get((c.name, slot))
        if t is not None:
            return isinstance(t, tuple) and t and t[0] in ("list", "set", "dict")
    return False


def _aliases_source(v):
    """the value is the source's container itself (a bare attribute path from self), not a copy"""
    return isinstance(v, ast.Attribute) and norm(v).startswith("self.")


def _is_clone_name(name):
    return name.startswith("_clone") and not name.startswith("_clone_top")


def _l1_l2_l4(ctx, R, CM):
    P = ctx.P
    R.rule("L7", "no container aliasing: a list / set / dict slot of the copy is never assigned the source's container object itself")
    R.rule("L1", "slot coverage: every slot of an IR class is assigned in its _clone (or reset by the constructor and not "
                 "data-carrying); data-carrying scalars and _data are copied from the source")
    R.rule("L2", "no aliasing of data: _data is assigned from deepcopy(self._data)")
    R.rule("L4", "every _clone builds its copy through the extended class registered in spydrnet.ir")
    n = 0
    for cname in CONCRETE:
        ci = P.ir_classes[cname]
        f = ci.methods.get("_clone")
        if f is None:
            raise AnalysisError("anchor vanished: %s._clone" % cname)
        f = CM.fam.get(f.key, f)  # read with private helpers (own or inherited) in place
        n += 1
        c = _copy_var(f)
        if c is None:
            R.bad("L4", "%s|copy-var" % f.key, f.loc(), "%s: cannot identify the fresh copy (no `memo[self] = <copy>`)" % f.qualname)
            continue
        # L4: the constructor call
        ctor = None
        for nn in walk_local(f.node):
            if isinstance(nn, ast.Assign) and isinstance(nn.targets[0], ast.Name) and nn.targets[0].id == c and isinstance(nn.value, ast.Call):
                ctor = nn
        local_ext = {}
        for nn in walk_local(f.node):
            if isinstance(nn, ast.ImportFrom) and nn.module == "spydrnet.ir":
                for a in nn.names:
                    local_ext[a.asname or a.name] = a.name
        if ctor is None:
            R.bad("L4", "%s|ctor" % f.key, f.loc(), "%s: the copy is not built by a constructor call" % f.qualname)
        else:
            fn = norm(ctor.value.func)
            if local_ext.get(fn) == cname or fn in ("type(self)", "self.__class__"):
                R.ok("L4", "%s builds %s via spydrnet.ir" % (f.qualname, cname), f.loc(ctor))
            else:
                R.bad("L4", "%s|base-class" % f.key, f.loc(ctor),
                      "%s builds its copy with `%s`, the base class of the defining module, not the extended class imported from spydrnet.ir "
                      "(type(copy) differs from type(original): type-keyed name tables and extension methods do not apply to the copy)" % (f.qualname, short(ctor.value, 40)))
        # L1 / L2
        assigned = {}
        for nn in walk_local(f.node):
            if isinstance(nn, ast.Assign):
                for t in nn.targets:
                    if isinstance(t, ast.Attribute) and norm(t.value) == c:
                        assigned[t.attr] = nn.value
                    if isinstance(t, ast.Subscript) and isinstance(t.value, ast.Attribute) and norm(t.value.value) == c:
                        assigned.setdefault(t.value.attr, nn.value)
        for slot in P.ir_slots(cname):
            inst = "%s.%s" % (cname, slot)
            if slot in DATA_SCALARS:
                v = assigned.get(slot)
                if v is None:
                    R.bad("L1", "%s|%s" % (f.key, slot), f.loc(), "%s does not copy the data-carrying slot %s from the source" % (f.qualname, slot))
                    continue
                src = _strip_copy(v)
                if not (isinstance(src, ast.Attribute) and norm(src) == "self.%s" % slot):
                    R.bad("L1", "%s|%s" % (f.key, slot), f.loc(), "%s assigns %s from `%s`, not from the source's %s" % (f.qualname, slot, short(v, 40), slot))
                    continue
                R.ok("L1", inst, f.loc())
                if slot == "_data":
                    if isinstance(v, ast.Call) and norm(v.func) in ("deepcopy", "copy.deepcopy"):
                        R.ok("L2", inst + " deep-copied", f.loc())
                    else:
                        R.bad("L2", "%s|_data" % f.key, f.loc(),
                              "%s assigns the copy's _data from `%s`: nested property values stay shared, so later edits of one netlist show in the other" % (f.qualname, short(v, 40)))
            elif slot == "_is_top_instance":
                continue  # decided at the netlist level below
            elif slot in assigned and _is_container_slot(P, cname, slot) and _aliases_source(assigned[slot]):
                R.bad("L7", "%s|%s" % (f.key, slot), f.loc(), "%s gives the copy the source's own container (`%s = %s`): the two objects share "
                      "one %s, so an edit of either (including the clone's own clean-up phase) changes the other" % (f.qualname, slot, short(assigned[slot], 40), slot))
            else:
                if slot in assigned:
                    R.ok("L1", inst, f.loc())
                    if _is_container_slot(P, cname, slot):
                        R.ok("L7", inst + " is a fresh container", f.loc())
                else:
                    # acceptable when the constructor initialises it to the empty/None value
                    init = P.ir_lookup_method(cname, "__init__")
                    ok = False
                    for c2 in P.ir_mro(cname):
                        i2 = c2.methods.get("__init__")
                        if i2 is not None and any(isinstance(x, ast.Assign) and norm(x.targets[0]) == "self.%s" % slot for x in walk_local(i2.node)):
                            ok = True
                    if ok:
                        R.ok("L1", inst + " (constructor default)", f.loc())
                    else:
                        R.bad("L1", "%s|%s" % (f.key, slot), f.loc(), "%s leaves slot %s of the copy unset" % (f.qualname, slot))
    R.count("_clone methods (L1/L2/L4)", n)
    R.floor("_clone methods (L1/L2/L4)", 9)
    # the top-instance flag: the cloned netlist's top instance must be flagged
    nl = inlined_view(P, P.func("spydrnet/ir/netlist.py", "Netlist._clone"), keep=_is_clone_name)
    c = _copy_var(nl)
    flagged = False
    for nn in walk_local(nl.node):
        if isinstance(nn, ast.Assign):
            for t in nn.targets:
                if isinstance(t, ast.Attribute) and t.attr in ("_is_top_instance", "is_top_instance") and not (isinstance(nn.value, ast.Constant) and nn.value.value is False):
                    flagged = True
                if isinstance(t, ast.Attribute) and t.attr == "top_instance" and norm(t.value) == c:
                    flagged = True  # goes through the setter, which sets the flag
    inst_clone = P.func("spydrnet/ir/instance.py", "Instance._clone")
    ic = _copy_var(inst_clone)
    for nn in walk_local(inst_clone.node):
        if isinstance(nn, ast.Assign) and any(isinstance(t, ast.Attribute) and t.attr == "_is_top_instance" and norm(t.value) == ic for t in nn.targets) \
                and "self._is_top_instance" in norm(nn.value):
            flagged = True
    if flagged:
        R.ok("L1", "Netlist._clone carries the top-instance flag", nl.loc())
    else:
        R.bad("L1", "%s|_is_top_instance" % nl.key, nl.loc(),
              "the cloned netlist's top instance is not flagged is_top_instance (neither Instance._clone nor Netlist._clone carries the flag): "
              "the copy answers is_top_instance differently from the original")


def _l3(ctx, R, CM):
    R.rule("L3", "pointer closure: every pointer copied through by a _clone is redirected through memo or cut, as documented "
                 "for the clone entry, for the objects of every allocation site")
    P = ctx.P
    fixers = CM.fixers()
    sites = CM.alloc_sites()
    # copied-through table
    through = {}
    for cname in CONCRETE:
        f = P.ir_classes[cname].methods["_clone"]
        for (cls, field, stmt) in CM.copied_through(f):
            base = cls
            for b in P.ir_mro(cls):
                if (b.name, field) in FIELD_TYPES:
                    base = b.name
            through.setdefault(cname, []).append((base, field, stmt))
    R.count("copied-through pointer fields", sum(len(v) for v in through.values()))
    R.floor("copied-through pointer fields", 7)
    R.count("clone allocation sites", len(sites))
    R.floor("clone allocation sites", 10)
    cells = 0

    def site_objects_covered(A, site_homes, fx_func, fx_recv, fx_stmt):
        hs = CM.recv_homes(fx_func, fx_recv, at=fx_stmt)
        if "ALL" in hs:
            return True
        if "?" in hs:
            return None
        return bool(set(site_homes) & hs) or ("ENTRY" in hs and not site_homes)

    for entry_cls in CONCRETE:
        entry = P.ir_classes[entry_cls].methods.get("clone")
        if entry is None:
            raise AnalysisError("anchor vanished: %s.clone" % entry_cls)
        reach = CM.reachable(entry)
        req = REQUIRED[entry_cls]
        # objects created under this entry: the entry object itself + every allocation site in reachable functions
        groups = [(entry_cls, None, [], "the %s being cloned" % entry_cls)]
        for (A, g, call, homes) in sites:
            if g.name == "clone" and norm(call.func.value) == "self":
                continue  # that is the entry object itself
            if g.key in reach:
                groups.append((A, g, homes, "%s objects created at `%s` in %s" % (A, short(call, 40), g.qualname)))
        for (A, g, homes, desc) in groups:
            for (fcls, field, stmt) in through.get(A, []):
                kind = req.get((fcls, field))
                if kind is None:
                    continue
                cells += 1
                if kind == "keep":
                    # documented to survive the clone: no cut of that field may reach these objects
                    cutters = [fx for fx in fixers if fx[0].key in reach and fx[2] == field and fx[3] == "reset"
                               and (fx[1] == fcls or fcls in [b.name for b in P.ir_mro(fx[1])] or fx[1] in [b.name for b in P.ir_mro(fcls)])]
                    hit = None
                    for fx in cutters:
                        v = site_objects_covered(A, homes, fx[0], fx[4], fx[5]) if g is not None else \
                            ("ENTRY" in CM.recv_homes(fx[0], fx[4], at=fx[5]) or "ALL" in CM.recv_homes(fx[0], fx[4], at=fx[5]))
                        if v is True:
                            hit = fx
                    if hit is not None:
                        R.bad("L3", "%s.clone|%s.%s|keep|%s" % (entry_cls, fcls, field, hit[0].qualname), hit[0].loc(hit[5]),
                              "%s.clone(): %s lose their %s.%s (`%s` in %s), although the documentation of this entry says it is kept" % (entry_cls, desc, fcls, field, short(hit[5], 50), hit[0].qualname))
                    else:
                        R.ok("L3", "%s.clone: %s.%s of %s is kept" % (entry_cls, fcls, field, desc), entry.loc())
                    continue
                cands = [fx for fx in fixers if fx[0].key in reach and fx[2] == field and fx[3] == kind
                         and (fx[1] == fcls or fcls in [b.name for b in P.ir_mro(fx[1])] or fx[1] in [b.name for b in P.ir_mro(fcls)])]
                verdicts = []
                for fx in cands:
                    # the fixer must be applicable to objects of class A
                    fx_cls_objs = fx[0].cls.name if norm(fx[4]) == "self" else None
                    if g is None:
                        # the entry object: fixer applied to self/c of the entry class chain
                        hs = CM.recv_homes(fx[0], fx[4], at=fx[5])
                        ok = ("ENTRY" in hs or "ALL" in hs) and (fx_cls_objs in (None, A) or A in [b.name for b in P.ir_mro(fx_cls_objs or A)])
                        verdicts.append(ok)
                    else:
                        verdicts.append(site_objects_covered(A, homes, fx[0], fx[4], fx[5]))
                if any(v is True for v in verdicts):
                    R.ok("L3", "%s.clone: %s.%s of %s -> %s" % (entry_cls, fcls, field, desc, kind), entry.loc())
                elif any(v is None for v in verdicts):
                    raise AnalysisError("L3 cannot resolve which objects a %s of %s.%s applies to (entry %s.clone, %s)" % (kind, fcls, field, entry_cls, desc))
                else:
                    where = g.loc() if g is not None else entry.loc()
                    key_site = "%s:%s" % (g.qualname, ",".join(sorted("%s.%s" % (h[1].split(":")[-1], h[2]) for h in homes))) if g is not None else "entry"
                    R.bad("L3", "%s.clone|%s.%s|%s|%s" % (entry_cls, fcls, field, kind, key_site), where,
                          "%s.clone(): %s keep the source's %s.%s (copied through at `%s`) — no %s of that field reaches them, so the copy still points into the original"
                          % (entry_cls, desc, fcls, field, short(stmt, 50), "redirect through memo" if kind == "remap" else "reset"),
                          {"candidates_elsewhere": ["%s `%s`" % (fx[0].qualname, short(fx[5], 50)) for fx in cands]})
    R.count("closure matrix cells (L3)", cells)
    R.floor("closure matrix cells (L3)", 20)
    # L3b: the reference-set prune of a cloned netlist / library only admits clones
    R.rule("L3b", "reference sets of cloned definitions are pruned to the instances that were cloned (membership in memo.values())")
    for rel, q in (("spydrnet/ir/netlist.py", "Netlist._clone_rip"), ("spydrnet/ir/library.py", "Library._clone_rip")):
        f = inlined_view(P, P.func(rel, q), keep=lambda nm: nm.startswith("_clone_rip"))
        memoish_names = {"memo"}
        for n in walk_local(f.node):
            if isinstance(n, ast.Assign) and isinstance(n.targets[0], ast.Name) and any(isinstance(x, ast.Name) and x.id in memoish_names for x in ast.walk(n.value)):
                memoish_names.add(n.targets[0].id)

        def memoish(e):
            return any(isinstance(x, ast.Name) and x.id in memoish_names for x in ast.walk(e))

        # the key under which clones are remembered: the object itself, or id(object) when the set was built as {id(c) for c in memo.values()}
        keyed = {}
        for n in walk_local(f.node):
            if isinstance(n, ast.Assign) and isinstance(n.targets[0], ast.Name) and isinstance(n.value, (ast.SetComp, ast.ListComp, ast.GeneratorExp)) \
                    and len(n.value.generators) == 1 and memoish(n.value.generators[0].iter) and isinstance(n.value.generators[0].target, ast.Name):
                e_, v_ = n.value.elt, n.value.generators[0].target.id
                if isinstance(e_, ast.Call) and isinstance(e_.func, ast.Name) and e_.func.id == "id" and len(e_.args) == 1 and norm(e_.args[0]) == v_:
                    keyed[n.targets[0].id] = "id"

        def same_member(left, var, container):
            """`left` is the candidate `var` under the key the container of clones uses"""
            k_ = keyed.get(container.id) if isinstance(container, ast.Name) else None
            if k_ == "id":
                return isinstance(left, ast.Call) and isinstance(left.func, ast.Name) and left.func.id == "id" and len(left.args) == 1 and norm(left.args[0]) == var
            return norm(left) == var

        ok = False
        for n in walk_local(f.node):
            if isinstance(n, ast.If) and isinstance(n.test, ast.Compare) and len(n.test.ops) == 1 and isinstance(n.test.ops[0], ast.In) \
                    and memoish(n.test.comparators[0]):
                adds = [c for s_ in n.body for c in ast.walk(s_) if isinstance(c, ast.Call) and isinstance(c.func, ast.Attribute) and c.func.attr == "add"]
                if adds and same_member(n.test.left, norm(adds[0].args[0]), n.test.comparators[0]):
                    ok = True
            if isinstance(n, (ast.SetComp, ast.GeneratorExp, ast.ListComp)) and len(n.generators) == 1:
                g = n.generators[0]
                if norm(n.elt) == norm(g.target) and any(isinstance(c, ast.Compare) and len(c.ops) == 1 and isinstance(c.ops[0], ast.In)
                                                       and memoish(c.comparators[0]) and same_member(c.left, norm(g.target), c.comparators[0]) for c in g.ifs):
                    ok = True
            # set algebra: <definition>._references & <set of clones>   (either order, operator or method)
            sides = None
            if isinstance(n, ast.BinOp) and isinstance(n.op, ast.BitAnd):
                sides = (n.left, n.right)
            elif isinstance(n, ast.Call) and isinstance(n.func, ast.Attribute) and n.func.attr == "intersection" and len(n.args) == 1:
                sides = (n.func.value, n.args[0])
            if sides is not None and any(isinstance(a_, ast.Attribute) and a_.attr in ("_references", "references") and memoish(b_) for a_, b_ in (sides, sides[::-1])):
                ok = True
        assigns = [n for n in walk_local(f.node) if isinstance(n, ast.Assign) and isinstance(n.targets[0], ast.Attribute) and n.targets[0].attr == "_references"]
        assigns += [n for n in walk_local(f.node) if (isinstance(n, ast.AugAssign) and isinstance(n.op, ast.BitAnd) and isinstance(n.target, ast.Attribute)
                                                      and n.target.attr == "_references" and memoish(n.value))
                    or (isinstance(n, ast.Call) and isinstance(n.func, ast.Attribute) and n.func.attr == "intersection_update" and n.args and memoish(n.args[0])
                        and isinstance(n.func.value, ast.Attribute) and n.func.value.attr == "_references")]
        if any(isinstance(n, (ast.AugAssign, ast.Call)) for n in assigns):
            ok = True
        if ok and assigns:
            R.ok("L3b", q, f.loc())
        else:
            R.bad("L3b", "%s|prune" % f.key, f.loc(),
                  "%s does not rebuild the cloned definitions' reference sets from the members found in memo.values(): instances of the original netlist stay registered in the copy" % q)


def _l6(ctx, R, CM):
    """phase order inside the orchestrating _clone methods: the last redirect pass comes after every allocation,
    so that memo already maps everything the pass may look up"""
    R.rule("L6", "phase order: in Netlist._clone / Library._clone the final redirect-through-memo pass follows every allocation")
    from ..cfg import cfg_of
    P = ctx.P
    n = 0
    for rel, q in (("spydrnet/ir/netlist.py", "Netlist._clone"), ("spydrnet/ir/library.py", "Library._clone")):
        f = P.func(rel, q)
        cfg = cfg_of(f.node)
        alloc, remap = [], []
        for cn in cfg.nodes:
            if cn.ast is None or cn.kind not in ("stmt",):
                continue
            for c in ast.walk(cn.ast):
                if isinstance(c, ast.Call) and isinstance(c.func, ast.Attribute):
                    if c.func.attr == "_clone":
                        alloc.append(cn)
                    elif c.func.attr == "_clone_rip_and_replace":
                        remap.append(cn)
        if not alloc or not remap:
            raise AnalysisError("L6: %s no longer has both an allocation and a redirect pass" % q)
        n += 1

        def reaches(a, targets):
            seen, todo = set(), [a]
            while todo:
                x = todo.pop()
                for s_, lab in x.succ:
                    if lab == "exc" or s_.id in seen:
                        continue
                    seen.add(s_.id)
                    todo.append(s_)
            return any(t.id in seen for t in targets)

        late = [r for r in remap if not reaches(r, [a for a in alloc if a is not r])]
        if late:
            R.ok("L6", "%s: a redirect pass runs after the last allocation" % q, f.loc(late[0].ast))
        else:
            R.bad("L6", "%s|redirect-before-allocation" % f.key, f.loc(remap[-1].ast),
                  "%s: every redirect pass (`%s`) can still be followed by an allocation (`%s`): objects cloned afterwards are not in memo when references and reference sets are redirected, so they are left out of the copy's bookkeeping"
                  % (q, short(remap[-1].ast, 40), short(alloc[-1].ast, 40)))
    R.count("orchestrating _clone methods (L6)", n)


_OWNS = {"Netlist": {"Library"}, "Library": {"Definition"}, "Definition": {"Port", "Cable", "Instance"}, "Port": {"InnerPin"},
         "Cable": {"Wire"}, "Instance": {"OuterPin"}, "Wire": set(), "InnerPin": set(), "OuterPin": set()}


def _closure(c):
    out, todo = {c}, [c]
    while todo:
        for d in _OWNS[todo.pop()]:
            if d not in out:
                out.add(d)
                todo.append(d)
    return out


_OWNS_CLOSURE = {c: _closure(c) for c in _OWNS}


def _l3c(ctx, R, CM):
    """a clean-up write that closes a clone-family function (a statement of its body proper: `self._references = set()` at the end of
    Definition._clone_rip) runs on every way through the function: no `return` before it"""
    R.rule("L3c", "no early exit before a clean-up write: a reset / redirect that is a statement of the function body is not skipped by a `return` above it")
    n = 0
    for f, cls, field, kind, recv, stmt in CM.fixers():
        if stmt is None or not any(stmt is s_ for s_ in f.node.body):
            continue
        n += 1
        idx = next(i for i, s_ in enumerate(f.node.body) if s_ is stmt)
        early = [r for s_ in f.node.body[:idx] for r in ast.walk(s_) if isinstance(r, ast.Return)]
        # leaving because there is nothing to clean up is not skipping the clean-up: `if self._wire is None: return`
        fld_names = {field, field.lstrip("_")}

        def about_the_field(r):
            return any(isinstance(p_, ast.If) and any(isinstance(x, ast.Attribute) and x.attr in fld_names for x in ast.walk(p_.test)) for p_ in parent_chain(r))
        early = [r for r in early if not about_the_field(r)]
        if early:
            R.bad("L3c", "%s|%s.%s skipped" % (f.key, cls, field), f.loc(early[0]),
                  "%s can return at `%s` before `%s` runs: on that path the copy keeps the source's %s.%s (for a definition without children: the "
                  "original's reference set, so instances of the original count as instances of the copy)"
                  % (f.qualname, short(getattr(early[0], "_parent", early[0]), 50), short(stmt, 50), cls, field))
        else:
            R.ok("L3c", "%s: `%s` is not skipped" % (f.qualname, short(stmt, 40)), f.loc(stmt))
    R.count("closing clean-up writes (L3c)", n)
    R.floor("closing clean-up writes (L3c)", 20)


def _l5(ctx, R, CM):
    R.rule("L5", "source immutability: _clone writes nothing reachable from self; over a whole public clone() the only writes to "
                 "objects that are not clones are X._references.add(<clone>), the documented bookkeeping")
    M = ctx.model
    n = 0
    for k, f in sorted(CM.fam.items()):
        fe = M.events(f)
        if f.name != "_clone":
            continue
        n += 1
        c = _copy_var(f)
        bad = False
        for evs in fe.by_node.values():
            for ev in evs:
                if ev.kind != "write":
                    continue
                root, depth = root_and_depth(ev.recv)
                if root == "self":
                    bad = True
                    R.bad("L5", "%s|%s" % (f.key, ev.field), f.loc(ev.stmt), "%s writes %s of the object being cloned (`%s`): cloning must not modify the source" % (f.qualname, ev.field, short(ev.stmt, 50)))
        if not bad:
            R.ok("L5", f.qualname, f.loc())
    # writes through a cross pointer anywhere in the clone family: only `_references.add(<clone>)`
    from ..typestate import CROSS_POINTERS
    for k, f in sorted(CM.fam.items()):
        fe = M.events(f)
        for evs in fe.by_node.values():
            for ev in evs:
                if ev.kind != "write":
                    continue
                e = ev.recv
                crosses = False
                while isinstance(e, (ast.Attribute, ast.Subscript)):
                    if isinstance(e, ast.Attribute) and e.attr in CROSS_POINTERS:
                        crosses = True
                    e = e.value
                if not crosses:
                    continue
                n += 1
                if ev.field == "_references" and ev.op == "add":
                    R.ok("L5", "%s: %s" % (f.qualname, short(ev.stmt, 50)), f.loc(ev.stmt))
                else:
                    R.bad("L5", "%s|cross %s %s" % (f.key, ev.field, ev.op), f.loc(ev.stmt),
                          "%s writes `%s` on an object reached through a pointer that leaves the clone; the only documented effect on shared objects is reference-set insertion" % (f.qualname, short(ev.stmt, 60)))
    # ownership by kind: a clone-family method of class X writes only objects X owns (transitively) — anything else is shared
    # with the source (e.g. the inner pins that key an instance's pin map belong to the referenced definition)
    from ..kinds import kinds_of, Env
    m = 0
    for k, f in sorted(CM.fam.items()):
        if f.cls is None or f.cls.name not in _OWNS_CLOSURE:
            continue
        dom = _OWNS_CLOSURE[f.cls.name]
        fe = M.events(f)
        for node, evs in fe.by_node.items():
            for ev in evs:
                if ev.kind != "write" or ev.recv is None:
                    continue
                ks = set(kinds_of(fe.ty.type_of(ev.recv, fe.ty.state.get(node, Env()))) or ()) - {"None"}
                if not ks:
                    continue
                m += 1
                if ks & dom or (ev.field == "_references" and ev.op == "add"):
                    R.ok("L5", "%s: `%s` stays inside what a %s owns" % (f.qualname, short(ev.stmt, 40), f.cls.name), f.loc(ev.stmt))
                    continue
                R.bad("L5", "%s|foreign %s %s" % (f.key, ev.field, ev.op), f.loc(ev.stmt),
                      "%s writes `%s` on a %s, which a %s does not own: the object is shared with the source of the clone, so cloning "
                      "modifies the original" % (f.qualname, short(ev.stmt, 60), "/".join(sorted(ks)), f.cls.name))
    R.count("L5 kind-typed writes", m)
    R.floor("L5 kind-typed writes", 20)
    R.count("L5 sites", n)
    R.floor("L5 sites", 9)


@register("C07",
          "Static analysis of the three-phase clone (the 9 _clone methods, the _clone_rip* helpers and the 9 public clone() entries): "
          "L1 every slot is carried or reset, data-carrying scalars and _data come from the source; L2 _data is deep-copied; L3 closure "
          "matrix — for every public entry, every allocation site of cloned objects reachable from it and every pointer field copied "
          "through by that class's _clone, a redirect-through-memo (or cut, as documented for that entry) of that field is applied to the "
          "objects of that site (receiver/loop/call-site resolution of which objects each fixing write covers); L3b reference sets of "
          "cloned definitions are pruned by membership in memo.values(); L3c a clean-up write that closes a clone-family function is not skipped by a return above it (unless that return is taken because the field is empty); L4 copies are built through the extended classes of spydrnet.ir; "
          "L5 _clone never writes the source, the only writes leaving the clone are reference-set insertions, and every write of a clone-family method lands on a kind of object its class owns (kind inference of the receiver: the inner pins that key an instance's pin map belong to the definition); L7 no list / set / dict slot of the copy is the source's own container. Decides closure and "
          "independence structurally; does not decide structural identity of names/order, nor query equivalence.",
          ["REQUIRED (per clone entry: remap / reset / keep for each copied-through field) is the reviewed transcription of the clone "
           "documentation"])
def check_c07(ctx, R):
    CM = CloneModel(ctx)
    R.count("clone-family functions", len(CM.fam))
    R.floor("clone-family functions", 30)
    _l1_l2_l4(ctx, R, CM)
    _l3(ctx, R, CM)
    _l3c(ctx, R, CM)
    _l6(ctx, R, CM)
    _l5(ctx, R, CM)
