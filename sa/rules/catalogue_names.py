"""Self-test catalogue for the EDIF identifier rules (C17)."""
from ..mutants import Mutant, add

EN = "spydrnet/composers/edif/edifify_names.py"

add("C17",
    Mutant("I1 '$' accepted inside identifiers",
           (EN, 'if not identifier[i].isalnum() and identifier[i] != "_":', 'if not identifier[i].isalnum() and identifier[i] not in ("_", "$"):'), "_characters_good|body|$"),
    Mutant("I1 '-' accepted again",
           (EN, 'if not identifier[i].isalnum() and identifier[i] != "_":', 'if not identifier[i].isalnum() and identifier[i] != "-":'), "_characters_good|body|-"),
    Mutant("I1 digits allowed as first character",
           (EN, "        if not identifier[0].isalpha():\n            return False", "        if not identifier[0].isalnum():\n            return False"), "_characters_good|first|"),
    Mutant("I1 repair replaces with '-'",
           (EN, 'identifier = identifier[:i] + "_" + identifier[i + 1 :]', 'identifier = identifier[:i] + "-" + identifier[i + 1 :]'), "_characters_fix|replacement|-"),
    Mutant("I2 bound raised above the reader's",
           (EN, "        self.name_length_target = 256", "        self.name_length_target = 300"), "_length_good|bound"),
    Mutant("I2 counter increment skips the length repair (seeded C17-A)",
           (EN, """                identifier_lower = (
                    identifier_lower[: r.start() + 5] + str(num + 1) + "_"
                )
            identifier_lower = self._length_fix(identifier_lower)""", """                identifier_lower = (
                    identifier_lower[: r.start() + 5] + str(num + 1) + "_"
                )
            if r is None:
                identifier_lower = self._length_fix(identifier_lower)"""), "_conflicts_fix|grown-unfixed"),
    Mutant("I2 conflict repair runs before the character repair",
           (EN, """        identifier = self._characters_fix(identifier)
        identifier = self._conflicts_fix(obj, identifier, objects)
""", """        identifier = self._conflicts_fix(obj, identifier, objects)
        identifier = self._characters_fix(identifier)
"""), "make_valid|pipeline"),
    Mutant("I3 sibling identifiers compared as written",
           (EN, 'and element["EDIF.identifier"].lower() == identifier.lower()', 'and element["EDIF.identifier"] == identifier.lower()'), "_conflicts_good|unfolded"),
    Mutant("I3 scan stops at the object itself (seeded C17-B)",
           (EN, "            if element == obj:\n                continue", "            if element == obj:\n                break"), "_conflicts_good|break"),
    Mutant("twin: character class expressed with the reader's regular expression",
           (EN, 'if not identifier[i].isalnum() and identifier[i] != "_":', 'if not re.match(r"^[0-9A-Za-z_]+$", identifier[i]):'), None),
    Mutant("twin: casefold instead of lower",
           (EN, 'element.name is not None and element.name.lower() == identifier.lower()', 'element.name is not None and element.name.casefold() == identifier.casefold()'), None),
    )
