"""Self-test catalogue for the clone rules (C07)."""
from ..mutants import Mutant, add

I = "spydrnet/ir/instance.py"
D = "spydrnet/ir/definition.py"
N = "spydrnet/ir/netlist.py"
L = "spydrnet/ir/library.py"
W = "spydrnet/ir/wire.py"
IP = "spydrnet/ir/innerpin.py"
PT = "spydrnet/ir/port.py"
C = "spydrnet/ir/cable.py"

add("C07",
    Mutant("L2 shallow copy of definition data (seeded C07-B)",
           (D, "        c._data = deepcopy(self._data)\n        c._library = None", "        c._data = copy(self._data)\n        c._library = None"),
           "Definition._clone|_data"),
    Mutant("L2 alias the data dictionary",
           (I, "        c._data = deepcopy(self._data)", "        c._data = self._data"), "Instance._clone|_data"),
    Mutant("L1 port direction not carried",
           (PT, "        c._direction = deepcopy(self._direction)\n", ""), "Port._clone|_direction"),
    Mutant("L1 lower index not carried",
           (C, "        c._lower_index = deepcopy(self._lower_index)\n", ""), "Cable._clone|_lower_index"),
    Mutant("L3 inner pin wire not redirected",
           (IP, "            self._wire = memo[self._wire]", "            pass"), "Pin._wire|remap"),
    Mutant("L3 children of cloned definitions not moved into the library",
           (D, "                instance._reference = memo[instance.reference]\n                instance._clone_rip_and_replace_in_library(memo)",
            "                instance._reference = memo[instance.reference]"), "Instance._pins|remap"),
    Mutant("L3 stand-alone top keeps the original definition",
           (N, "                if new_top._reference in memo:\n                    new_top._reference = memo[new_top._reference]\n", ""),
           "Netlist.clone|Instance._reference|remap"),
    Mutant("L3 outer pins keep the original inner pins",
           (I, "            op._inner_pin = memo[ip]\n", ""), "OuterPin._inner_pin|remap"),
    Mutant("L3 wire pins not redirected",
           (W, "        self._pins = new_pins\n        pass", "        pass"), "Wire._pins|remap"),
    Mutant("L3 definition.clone keeps the source's reference set",
           (D, "            instance._reference._references.add(instance)\n        self._references = set()", "            instance._reference._references.add(instance)"),
           "Definition.clone|Definition._references|reset"),
    Mutant("L3b prune keeps parented instances (seeded C07-A)",
           (N, "                    if ref in memo.values():", "                    if ref._parent is not None or ref is self._top_instance:"), "Netlist._clone_rip|prune"),
    Mutant("L4 port copy built from the base class",
           (PT, "        c = PortExtended()", "        c = Port()"), "Port._clone|base-class"),
    Mutant("L5 _clone detaches the source",
           (C, "        c._definition = None\n        c._is_downto", "        c._definition = None\n        self._definition = None\n        c._is_downto"), "Cable._clone|_definition"),
    Mutant("L5 clone rip clears the shared definition's references",
           (I, "        self._reference._references.add(self)", "        self._reference._references.clear()"), "Instance._clone_rip|cross _references clear"),
    Mutant("L1 top flag dropped",
           (N, "            c._top_instance._is_top_instance = True\n", ""), "Netlist._clone|_is_top_instance"),
    Mutant("twin: list(self._pins) instead of copy(self._pins)",
           (W, "        c._pins = copy(self._pins)", "        c._pins = list(self._pins)"), None),
    Mutant("twin: prune through a precomputed set of clones",
           (N, """        for lib in self._libraries:
            for defin in lib._definitions:
                new_ref = set()
                for ref in defin._references:
                    if ref in memo.values():""", """        cloned = set(memo.values())
        for lib in self._libraries:
            for defin in lib._definitions:
                new_ref = set()
                for ref in defin._references:
                    if ref in cloned:"""), None),
    Mutant("twin: rename the copy variable",
           (IP, """        c = InnerPinExtended()
        memo[self] = c
        c._wire = self._wire
        c._port = None
        return c""", """        twin = InnerPinExtended()
        memo[self] = twin
        twin._wire = self._wire
        twin._port = None
        return twin"""), None),
    )

add("C07",
    Mutant("L7 Wire._clone hands the source's pin list to the copy (seeded C07-w3A)",
           (W, "        c._pins = copy(self._pins)", "        c._pins = self._pins"), "L7|spydrnet/ir/wire.py:Wire._clone|_pins"),
    Mutant("L5 Instance._clone_rip walks the keys of the pin map (the definition's inner pins) (seeded C07-w3C)",
           (I, "        for op in self._pins.values():\n            op._wire = None", "        for op in self._pins:\n            op._wire = None"),
           "L5|spydrnet/ir/instance.py:Instance._clone_rip|foreign _wire set"),
    Mutant("L7 twin: list(...) instead of copy(...)",
           (W, "        c._pins = copy(self._pins)", "        c._pins = list(self._pins)"), None),
)
