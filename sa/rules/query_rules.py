"""C13 — query filters mean what they say: Q1-Q6 over spydrnet/util/get_*.py and patterns.py."""
import ast
import re

from ..core import AnalysisError, norm, short, walk_local, parent_chain, reaching_assign, copy_tree
from . import register
from ..inline import inlined_view

UTIL = "spydrnet/util/"
QUERY_MODULES = ["get_netlists", "get_libraries", "get_definitions", "get_instances", "get_ports", "get_pins",
                 "get_cables", "get_wires", "get_hinstances", "get_hports", "get_hpins", "get_hcables", "get_hwires"]
PAT = "spydrnet/util/patterns.py"
LOOKUP_CHILD = {"Netlist": {"Library"}, "Library": {"Definition"}, "Definition": {"Port", "Cable", "Instance"}}
FNMATCH_SPECIAL = {"*", "?", "["}


def _triple(mod):
    """(public get_X, its filtering wrapper, the raw generator), discovered by structure:
    the public function returns a call of the wrapper; the wrapper iterates filter(f, raw(...))"""
    name = mod.relpath.split("/")[-1][:-3]
    pub = mod.functions.get(name)
    if pub is None:
        raise AnalysisError("anchor vanished: %s in %s" % (name, mod.relpath))
    mid = raw = None
    for r in walk_local(pub.node):
        if isinstance(r, ast.Return) and isinstance(r.value, ast.Call) and isinstance(r.value.func, ast.Name) and r.value.func.id in mod.functions:
            mid = mod.functions[r.value.func.id]
    if mid is not None:
        for c in walk_local(mid.node):
            if isinstance(c, ast.Call) and isinstance(c.func, ast.Name) and c.func.id in mod.functions and c.func.id.endswith("_raw"):
                raw = mod.functions[c.func.id]
        if raw is None:
            # whatever it is called: the one generator function of the module that the wrapper calls
            gens = [mod.functions[c.func.id] for c in walk_local(mid.node) if isinstance(c, ast.Call) and isinstance(c.func, ast.Name) and c.func.id in mod.functions
                    and any(isinstance(y, (ast.Yield, ast.YieldFrom)) for y in walk_local(mod.functions[c.func.id].node))]
            if len({g.name for g in gens}) == 1:
                raw = gens[0]
    if mid is None or raw is None:
        raise AnalysisError("anchor vanished: wrapper / raw generator of %s" % name)
    return name, pub, mid, raw


def _modules(P):
    out = []
    for m in QUERY_MODULES:
        out.append(P.module(UTIL + m + ".py"))
    return out


def multimap_inserts(P, R, rid, modules):
    """the name maps of the queries are multimaps (several elements may share a name): an element is recorded by appending to the list
    under its name.  `D.setdefault(k, [x])` with the result thrown away records x only when k is new — every later element of that name
    is marked as seen but can never be found by an exact pattern."""
    R.rule(rid, "name maps record every element: no `D.setdefault(k, [x])` whose result is discarded (it keeps the first element of a name only)")
    n = 0
    for mod in modules:
        for f in mod.all_funcs():
            for st in walk_local(f.node):
                c = st.value if isinstance(st, ast.Expr) else None
                if isinstance(c, ast.Call) and isinstance(c.func, ast.Attribute) and c.func.attr == "setdefault" and len(c.args) == 2:
                    n += 1
                    d = c.args[1]
                    if isinstance(d, (ast.List, ast.Set, ast.Tuple)) and d.elts:
                        R.bad(rid, "%s|setdefault %s" % (f.key, norm(c.func.value)), f.loc(st),
                              "%s: `%s` records `%s` only when `%s` is not in `%s` yet — a second element under the same key is dropped, so exact "
                              "patterns return one of several same-named elements while wildcard patterns return all"
                              % (f.qualname, short(c, 60), short(d.elts[0], 30), short(c.args[0], 30), norm(c.func.value)))
                    else:
                        R.ok(rid, "%s: %s" % (f.qualname, short(c, 50)), f.loc(st))
                # the appending forms are counted so that the rule knows it is looking at the recording code
                if isinstance(c, ast.Call) and isinstance(c.func, ast.Attribute) and c.func.attr == "append" and isinstance(c.func.value, (ast.Subscript, ast.Call)) \
                        and "namemap" in norm(c.func.value):
                    n += 1
                    R.ok(rid, "%s: %s" % (f.qualname, short(c, 50)), f.loc(st))
    R.count("name-map insertions (%s)" % rid, n)
    R.floor("name-map insertions (%s)" % rid, 3)


def cache_keys(P, R, rid, modules):
    """a module-level dict used as a cache answers a later call from what an earlier call stored: the key must name everything the stored
    value was computed from.  `_compiled[pattern] = re.compile(pattern, flags=… is_case …)` answers a case-insensitive query with
    whichever flags the first query with that pattern had."""
    R.rule(rid, "module-level caches are keyed by every parameter the cached value depends on")
    n = 0
    for mod in modules:
        caches = {st.targets[0].id for st in mod.tree.body if isinstance(st, ast.Assign) and len(st.targets) == 1 and isinstance(st.targets[0], ast.Name)
                  and ((isinstance(st.value, ast.Dict) and not st.value.keys) or (isinstance(st.value, ast.Call) and norm(st.value.func) in ("dict", "OrderedDict", "weakref.WeakKeyDictionary")
                                                                                 and not st.value.args))}
        if not caches:
            continue
        for f in mod.all_funcs():
            params = set(f.params)
            for a in walk_local(f.node):
                if not (isinstance(a, ast.Assign) and len(a.targets) == 1 and isinstance(a.targets[0], ast.Subscript) and isinstance(a.targets[0].value, ast.Name)
                        and a.targets[0].value.id in caches):
                    continue
                n += 1
                key_names = {x.id for x in ast.walk(a.targets[0].slice) if isinstance(x, ast.Name)} & params
                v = a.value
                if isinstance(v, ast.Name):
                    d = reaching_assign(a, v.id)
                    v = d.value if d is not None and isinstance(d, ast.Assign) else v
                val_names = {x.id for x in ast.walk(v) if isinstance(x, ast.Name)} & params
                # names that only select the key's own pieces are covered by local definitions of the key
                if isinstance(a.targets[0].slice, ast.Name):
                    d = reaching_assign(a, a.targets[0].slice.id)
                    if d is not None and isinstance(d, ast.Assign):
                        key_names |= {x.id for x in ast.walk(d.value) if isinstance(x, ast.Name)} & params
                missing = sorted(val_names - key_names)
                if missing:
                    R.bad(rid, "%s|cache %s|%s" % (f.key, a.targets[0].value.id, ",".join(missing)), f.loc(a),
                          "%s stores `%s` in the module-level cache `%s` under `%s`, but the value also depends on %s: a later call that differs only there "
                          "is answered with the first call's value" % (f.qualname, short(v, 50), a.targets[0].value.id, short(a.targets[0].slice, 30), ", ".join("`%s`" % m_ for m_ in missing)))
                else:
                    R.ok(rid, "%s: %s" % (f.qualname, short(a, 50)), f.loc(a))
    R.count("module-level cache stores (%s)" % rid, n)
    return n


def _family(P):
    """name -> FuncInfo for the query family: helpers of patterns.py, lookup, and every get_X/_get_X/_get_X_raw"""
    fam = {}
    pm = P.module(PAT)
    for n in ("_is_pattern_absolute", "_value_matches_pattern"):
        if n not in pm.functions:
            raise AnalysisError("anchor vanished: %s in patterns.py" % n)
        fam[n] = pm.functions[n]
    fam["lookup"] = P.func("spydrnet/global_state/global_service.py", "lookup")
    for mod in _modules(P):
        for n, f in mod.functions.items():
            if n.startswith(("get_", "_get_")):
                fam.setdefault(n, f)
    return fam


def _q1(ctx, R):
    R.rule("Q1", "argument plumbing: at every call between members of the query family, a plain name that is also a parameter "
                 "name of the callee is bound to that parameter; lookup() is asked for the child class of the enclosing parent kind")
    P = ctx.P
    fam = _family(P)
    counts = {"_is_pattern_absolute": 0, "_value_matches_pattern": 0, "lookup": 0, "family": 0}
    for mod in _modules(P):
        for f in mod.all_funcs():
            for c in walk_local(f.node):
                if not (isinstance(c, ast.Call) and isinstance(c.func, ast.Name) and c.func.id in fam):
                    continue
                callee = fam[c.func.id]
                if c.func.id in mod.functions:
                    callee = mod.functions[c.func.id]
                params = callee.params
                counts[c.func.id if c.func.id in counts else "family"] += 1
                probs = []
                if any(isinstance(a, ast.Starred) for a in c.args) or any(k.arg is None for k in c.keywords):
                    continue
                if len(c.args) > len(params):
                    probs.append("passes %d positional arguments, %s takes %d" % (len(c.args), callee.name, len(params)))
                for i, a in enumerate(c.args[: len(params)]):
                    if isinstance(a, ast.Name) and a.id in params and a.id != params[i]:
                        probs.append("`%s` is passed as parameter `%s`" % (a.id, params[i]))
                for k in c.keywords:
                    if isinstance(k.value, ast.Name) and k.value.id in params and k.value.id != k.arg:
                        probs.append("`%s` is passed as keyword `%s`" % (k.value.id, k.arg))
                if c.func.id == "lookup" and len(c.args) >= 2:
                    # enclosing isinstance(obj, <Parent>) branch
                    parent_kind = None
                    for p in parent_chain(c):
                        if isinstance(p, ast.If) and isinstance(p.test, ast.Call) and norm(p.test.func) == "isinstance" \
                                and len(p.test.args) == 2 and norm(p.test.args[0]) == norm(c.args[0]):
                            # is the call inside the body (not the orelse)?
                            inside = any(c is x for s in p.body for x in ast.walk(s))
                            if inside:
                                parent_kind = norm(p.test.args[1]).split(".")[-1]
                                break
                    et = norm(c.args[1]).split(".")[-1]
                    if parent_kind in LOOKUP_CHILD and et not in LOOKUP_CHILD[parent_kind]:
                        probs.append("asks a %s for children of type %s" % (parent_kind, et))
                    # the element type must be the kind this module returns on that branch (siblings agree by module)
                if probs:
                    R.bad("Q1", "%s|%s|%s" % (f.key, c.func.id, ";".join(sorted(probs))[:60]), f.loc(c),
                          "%s: call `%s` %s" % (f.qualname, short(c, 70), "; ".join(probs)))
                else:
                    R.ok("Q1", "%s -> %s" % (f.qualname, c.func.id), f.loc(c))
    for k, v in counts.items():
        R.count("Q1 call sites of %s" % k, v)
    R.floor("Q1 call sites of _is_pattern_absolute", 14)
    R.floor("Q1 call sites of _value_matches_pattern", 14)
    R.floor("Q1 call sites of lookup", 5)
    R.floor("Q1 call sites of family", 20)


def _glob_cases(vm, c):
    """[(is_case, value operand text, pattern operand text)] for every way of reaching the matcher call `c` in `vm`, the operands with
    the locals they were prepared in expanded; None when the function is outside what path enumeration models"""
    from ..paths import stmt_paths, expand
    from ..core import copy_tree
    cstmt = next((p_ for p_ in [c] + list(parent_chain(c)) if isinstance(p_, ast.stmt)), None)
    hits = []

    def probe(st_, facts_, defs_=None):
        if st_ is cstmt:
            hits.append((facts_, dict(defs_ or {})))
    paths = list(stmt_paths(vm.node.body, frozenset(), {}, None, probe, opaque_loops=True))
    if any(oc is None for oc, fa, df in paths):
        return None
    for oc, fa, df in paths:
        if isinstance(oc, tuple) and oc[0] == "return" and oc[1] is not None and any(x is c for x in ast.walk(oc[1])):
            hits.append((fa, dict(df)))
    if not hits:
        return None

    def pick(e, sens):
        class T(ast.NodeTransformer):
            def visit_IfExp(self, n):
                self.generic_visit(n)
                t = norm(n.test)
                if t == "is_case":
                    return n.body if sens else n.orelse
                if t in ("not is_case", "is_case is False"):
                    return n.orelse if sens else n.body
                return n
        return T().visit(copy_tree(e))
    out = []
    for fa, df in hits:
        sens = any(a_ in fa for a_ in ("truthy(is_case)", "is(is_case,True)", "isnot(is_case,False)"))
        insens = any(a_ in fa for a_ in ("falsy(is_case)", "is(is_case,False)", "eq(is_case,False)"))
        for cs in ([True] if sens else [False] if insens else [True, False]):
            out.append((cs, expand(norm(pick(c.args[0], cs)), df), expand(norm(pick(c.args[1], cs)), df)))
    return out


def _q2_q4(ctx, R):
    R.rule("Q2", "the case-insensitive branch really is case-insensitive: is_case=False never reaches fnmatch.fnmatch with "
                 "un-folded operands; the regex branch is a full match with IGNORECASE exactly when is_case is false")
    R.rule("Q4", "meta-character agreement: the characters _is_pattern_absolute treats as wildcards are exactly those the "
                 "non-regex matcher treats as special")
    P = ctx.P
    pm = P.module(PAT)
    vm = inlined_view(P, pm.functions["_value_matches_pattern"])
    ia = inlined_view(P, pm.functions["_is_pattern_absolute"])

    def folded(e):
        return isinstance(e, ast.Call) and isinstance(e.func, ast.Attribute) and e.func.attr in ("lower", "casefold", "upper")

    # classify every matcher call by the branch conditions that lead to it
    n = 0
    neutralised = None  # characters neutralised in EVERY glob call
    for c in walk_local(vm.node):
        if not isinstance(c, ast.Call):
            continue
        fn = norm(c.func)
        if fn in ("fnmatch.fnmatch", "fnmatch.fnmatchcase", "fnmatchcase", "fnmatch.filter"):
            n += 1
            conds = []
            for p in parent_chain(c):
                if isinstance(p, ast.If):
                    in_body = any(c is x for s in p.body for x in ast.walk(s))
                    conds.append((norm(p.test), in_body))
            case_sensitive_branch = any(t == "is_case" and b for t, b in conds) or any(t in ("not is_case", "is_case is False") and not b for t, b in conds)
            both_folded = len(c.args) >= 2 and folded(c.args[0]) and folded(c.args[1])
            here = set()
            for a in c.args[1:2]:
                for x in ast.walk(a):
                    if isinstance(x, ast.Call) and isinstance(x.func, ast.Attribute) and x.func.attr == "replace" and len(x.args) == 2 \
                            and isinstance(x.args[0], ast.Constant) and x.args[0].value == "[" and isinstance(x.args[1], ast.Constant) and x.args[1].value == "[[]":
                        here.add("[")
            cases = _glob_cases(vm, c) if len(c.args) >= 2 else None
            if cases:
                # path-based reading: the operands as they are on each way of reaching the call, per value of is_case (operands prepared
                # by earlier statements, a conditional expression as an operand, one call serving both cases)
                fold = lambda t: re.search(r"\.(lower|casefold|upper)\(\)", t) is not None
                here = {"["} if all(".replace('[', '[[]')" in pt for cs, vt, pt in cases) else set()
                neutralised = here if neutralised is None else (neutralised & here)
                for sens in (True, False):
                    mine = [(vt, pt) for cs, vt, pt in cases if cs is sens]
                    if not mine:
                        continue
                    if sens:
                        okc = fn in ("fnmatch.fnmatchcase", "fnmatchcase") and not any(fold(vt) or fold(pt) for vt, pt in mine)
                        if okc:
                            R.ok("Q2", "case-sensitive glob uses fnmatchcase", vm.loc(c))
                        else:
                            R.bad("Q2", "%s|case-sensitive glob" % vm.key, vm.loc(c),
                                  "is_case=True reaches `%s`, which is not a case-sensitive match on every platform" % short(c, 60))
                    else:
                        okc = fn in ("fnmatch.fnmatchcase", "fnmatchcase", "fnmatch.fnmatch") and all(fold(vt) and fold(pt) for vt, pt in mine)
                        if okc:
                            R.ok("Q2", "case-insensitive glob folds both operands", vm.loc(c))
                        else:
                            R.bad("Q2", "%s|case-insensitive glob" % vm.key, vm.loc(c),
                                  "is_case=False reaches `%s`: fnmatch.fnmatch normalises case with os.path.normcase, the identity on POSIX, so the match stays "
                                  "case-sensitive unless both operands are case-folded" % short(c, 60))
                continue
            neutralised = here if neutralised is None else (neutralised & here)
            if case_sensitive_branch:
                if fn in ("fnmatch.fnmatchcase", "fnmatchcase") and not both_folded:
                    R.ok("Q2", "case-sensitive glob uses fnmatchcase", vm.loc(c))
                else:
                    R.bad("Q2", "%s|case-sensitive glob" % vm.key, vm.loc(c),
                          "is_case=True reaches `%s`, which is not a case-sensitive match on every platform" % short(c, 60))
            else:
                if both_folded and fn in ("fnmatch.fnmatchcase", "fnmatchcase", "fnmatch.fnmatch"):
                    R.ok("Q2", "case-insensitive glob folds both operands", vm.loc(c))
                else:
                    R.bad("Q2", "%s|case-insensitive glob" % vm.key, vm.loc(c),
                          "is_case=False reaches `%s`: fnmatch.fnmatch normalises case with os.path.normcase, the identity on POSIX, so the match stays "
                          "case-sensitive unless both operands are case-folded" % short(c, 60))
        elif fn.startswith("re.") and fn.split(".")[1] in ("match", "search", "fullmatch", "findall", "compile"):
            n += 1
            if fn != "re.fullmatch":
                R.bad("Q2", "%s|regex not fullmatch" % vm.key, vm.loc(c), "the regex branch uses `%s`; is_re must be a full match of the value (alternations and prefixes otherwise match too much)" % short(c, 60))
            else:
                R.ok("Q2", "regex branch uses re.fullmatch", vm.loc(c))
                def carrier(e, depth=0):
                    """the one parameter an operand is made of, read through locals bound once; None when a call or a second name is involved
                    (`text = "" if value is None else value` carries `value`; `value.lower()` does not)"""
                    if isinstance(e, ast.Name) and depth < 3:
                        ds = [a for a in walk_local(vm.node) if isinstance(a, (ast.Assign, ast.AnnAssign)) and a.value is not None
                              and norm(a.targets[0] if isinstance(a, ast.Assign) else a.target) == e.id]
                        if len(ds) == 1 and e.id not in vm.params:
                            return carrier(ds[0].value, depth + 1)
                    if any(isinstance(z, ast.Call) for z in ast.walk(e)):
                        return None
                    names = {z.id for z in ast.walk(e) if isinstance(z, ast.Name)}
                    return next(iter(names)) if len(names) == 1 else None
                if len(c.args) >= 2 and (carrier(c.args[0]) != "pattern" or carrier(c.args[1]) != "value"):
                    R.bad("Q2", "%s|regex operands" % vm.key, vm.loc(c), "re.fullmatch is called with (%s, %s), expected (pattern, value)" % (norm(c.args[0]), norm(c.args[1])))
            flags = None
            if len(c.args) >= 3:
                flags = c.args[2]
            for k in c.keywords:
                if k.arg == "flags":
                    flags = k.value
            ok_flags = False
            if isinstance(flags, ast.Name):
                defs = [a for a in walk_local(vm.node) if isinstance(a, (ast.Assign, ast.AnnAssign)) and a.value is not None
                        and norm(a.targets[0] if isinstance(a, ast.Assign) else a.target) == flags.id]
                if len(defs) == 1:
                    flags = defs[0].value
            if isinstance(flags, ast.Call) and isinstance(flags.func, ast.Name) and flags.func.id in pm.functions and not flags.keywords:
                # a private helper that is one expression of its parameters: read with the actuals in place
                h_ = pm.functions[flags.func.id]
                hb = [st for st in h_.node.body if not (isinstance(st, ast.Expr) and isinstance(st.value, ast.Constant))]
                # (the loader writes `return a if c else b` as `if c: return a` / `else: return b`)
                if len(hb) == 1 and isinstance(hb[0], ast.If) and len(hb[0].body) == 1 and len(hb[0].orelse) == 1 \
                        and all(isinstance(z, ast.Return) and z.value is not None for z in (hb[0].body[0], hb[0].orelse[0])):
                    hb = [ast.Return(value=ast.IfExp(test=hb[0].test, body=hb[0].body[0].value, orelse=hb[0].orelse[0].value))]
                if len(hb) == 1 and isinstance(hb[0], ast.Return) and hb[0].value is not None and len(flags.args) == len(h_.params):
                    sub = {prm: a for prm, a in zip(h_.params, flags.args)}

                    class _S(ast.NodeTransformer):
                        def visit_Name(self, n):
                            return copy_tree(sub[n.id]) if n.id in sub else n
                    flags = _S().visit(copy_tree(hb[0].value))
            if flags is not None:
                # module-level names for the flag values (`_IGNORE = re.IGNORECASE`) are read as what they name
                class _M(ast.NodeTransformer):
                    def visit_Name(self, n):
                        v = pm.assigns.get(n.id)
                        if isinstance(v, ast.Attribute) and norm(v).startswith("re.") or (isinstance(v, ast.Constant) and isinstance(v.value, int)):
                            return copy_tree(v)
                        return n
                flags = _M().visit(copy_tree(flags))
            if isinstance(flags, ast.IfExp):
                t, a, b = norm(flags.test), norm(flags.body), norm(flags.orelse)
                if (t == "is_case" and a == "0" and "IGNORECASE" in b) or (t in ("not is_case", "is_case is False") and "IGNORECASE" in a and b == "0"):
                    ok_flags = True
            elif isinstance(flags, ast.Name):
                # the flags are picked by statements ahead of the call: on every path that reaches it, IGNORECASE exactly when is_case is false
                from ..paths import stmt_paths, expand
                cstmt = next((p_ for p_ in [c] + list(parent_chain(c)) if isinstance(p_, ast.stmt)), None)
                hits = []

                def probe(st_, facts_, defs_=None, hits=hits, cstmt=cstmt, flags=flags):
                    if st_ is cstmt or (isinstance(st_, ast.If) and False):
                        hits.append((facts_, expand(flags.id, defs_ or {})))
                # the call may sit in the test of an `if`: probe the statement list with the test hoisted
                body = vm.node.body
                paths = list(stmt_paths(body, frozenset(), {}, None, probe, opaque_loops=True))
                if not hits:
                    for st_ in walk_local(vm.node):
                        if isinstance(st_, ast.If) and any(x is c for x in ast.walk(st_.test)):
                            cstmt = ast.Expr(value=st_.test)
                            ast.copy_location(cstmt, st_)
                            par = getattr(st_, "_parent", None)
                            for fld in ("body", "orelse", "finalbody"):
                                lst_ = getattr(par, fld, None)
                                if isinstance(lst_, list) and any(st_ is z for z in lst_):
                                    i_ = [k_ for k_, z in enumerate(lst_) if z is st_][0]
                                    saved = list(lst_)
                                    lst_.insert(i_, cstmt)
                                    try:
                                        hits2 = []

                                        def probe2(s2, f2, d2=None, hits2=hits2, cstmt=cstmt, flags=flags):
                                            if s2 is cstmt:
                                                hits2.append((f2, expand(flags.id, d2 or {})))
                                        paths = list(stmt_paths(body, frozenset(), {}, None, probe2, opaque_loops=True))
                                        hits = hits2
                                    finally:
                                        lst_[:] = saved
                if hits and not any(oc is None for oc, fa, df in paths):
                    ok_flags = True
                    for fa, val in hits:
                        v_ = val.replace("(", "").replace(")", "")
                        insens = any(a_ in fa for a_ in ("falsy(is_case)", "is(is_case,False)", "eq(is_case,False)"))
                        sens = any(a_ in fa for a_ in ("truthy(is_case)", "isnot(is_case,False)", "is(is_case,True)"))
                        if "IGNORECASE" in v_ and insens and "if" not in v_:
                            continue
                        if v_ == "0" and sens:
                            continue
                        ok_flags = False
            if ok_flags:
                R.ok("Q2", "regex flags: IGNORECASE iff not is_case", vm.loc(c))
            else:
                R.bad("Q2", "%s|regex flags" % vm.key, vm.loc(c), "the regex branch passes flags `%s`; it must be re.IGNORECASE exactly when is_case is false" % (norm(flags) if flags is not None else "none"))
    # a regular expression is matched as a regular expression only: from the branch taken when is_re is true no glob matcher can be reached
    # (an `if is_re:` block whose every path returns, or an if / elif chain — not a block that falls through when the expression does not match)
    from ..cfg import cfg_of, node_exprs
    cfg = cfg_of(vm.node)
    for t in cfg.nodes:
        if t.kind != "test" or not isinstance(t.ast, ast.If):
            continue
        tt = t.ast.test
        want = None
        if norm(tt) in ("is_re", "is_re is True", "is_re == True"):
            want = "true"
        elif norm(tt) in ("not is_re", "is_re is False", "is_re == False"):
            want = "false"
        if want is None:
            continue
        n += 1
        seen, todo, hit = set(), [s_ for s_, lab in t.succ if lab == want], None
        while todo and hit is None:
            x = todo.pop()
            if x.id in seen:
                continue
            seen.add(x.id)
            if x.ast is not None and x.kind not in ("entry", "exit"):
                exprs, _ = node_exprs(x)
                for e in exprs:
                    for c in ast.walk(e):
                        if isinstance(c, ast.Call) and norm(c.func) in ("fnmatch.fnmatch", "fnmatch.fnmatchcase", "fnmatchcase", "fnmatch.filter"):
                            hit = c
            if hit is None:
                todo.extend(s_ for s_, lab in x.succ if s_ is not cfg.raise_exit)
        if hit is not None:
            R.bad("Q2", "%s|regex falls through to glob" % vm.key, vm.loc(hit),
                  "with is_re=True the matcher can reach `%s`: a regular expression that does not match is tried again as a shell wildcard, so "
                  "regex queries return names the expression does not match" % short(hit, 50))
        else:
            R.ok("Q2", "a regular expression is never re-tried as a wildcard", vm.loc(t.ast))
    R.count("matcher calls in _value_matches_pattern", n)
    R.floor("matcher calls in _value_matches_pattern", 3)
    # Q4
    wild = None

    def charset(e, depth=0):
        """the characters of a constant character collection: "*?", {"*", "?"}, frozenset("*?"), or a module-level name bound to one"""
        if isinstance(e, ast.Constant) and isinstance(e.value, str):
            return set(e.value)
        if isinstance(e, (ast.Set, ast.List, ast.Tuple)) and e.elts and all(isinstance(x, ast.Constant) and isinstance(x.value, str) for x in e.elts):
            return {x.value for x in e.elts}
        if isinstance(e, ast.Call) and norm(e.func) in ("frozenset", "set", "tuple", "list") and len(e.args) == 1 and not e.keywords:
            return charset(e.args[0], depth + 1)
        if isinstance(e, ast.Name) and depth < 3 and e.id in ia.module.assigns:
            return charset(ia.module.assigns[e.id], depth + 1)
        return None
    # (a scan moved into a private helper of the module is part of the function: `return not _has_wildcard(pattern)`)
    ia_nodes = list(walk_local(ia.node))
    for c in list(ia_nodes):
        if isinstance(c, ast.Call) and isinstance(c.func, ast.Name) and c.func.id in pm.functions and c.func.id != ia.name:
            ia_nodes += list(walk_local(pm.functions[c.func.id].node))
    for c in ia_nodes:
        if isinstance(c, ast.Compare) and len(c.ops) == 1 and isinstance(c.ops[0], (ast.In, ast.NotIn)):
            # `char in WILDCARDS` for the characters of the pattern, or `w in pattern` for the wildcards w
            cs = charset(c.comparators[0])
            if cs is None and isinstance(c.left, ast.Name):
                for g in ia_nodes:
                    if isinstance(g, (ast.For, ast.comprehension)) and norm(g.target) == c.left.id:
                        cs = charset(g.iter)
            if cs is not None:
                wild = cs
        elif isinstance(c, ast.Call) and isinstance(c.func, ast.Attribute) and c.func.attr in ("isdisjoint", "intersection") and c.args:
            cs = charset(c.func.value) or charset(c.args[0])
            if cs is not None:
                wild = cs
        elif isinstance(c, ast.BinOp) and isinstance(c.op, ast.BitAnd):
            cs = charset(c.left) or charset(c.right)
            if cs is not None:
                wild = cs
    if wild is None:
        raise AnalysisError("anchor vanished: wildcard character set in _is_pattern_absolute")
    special = FNMATCH_SPECIAL - (neutralised or set())
    R.count("Q4 wildcard characters", len(wild))
    if wild == special:
        R.ok("Q4", "wildcards %s == matcher specials %s" % (sorted(wild), sorted(special)), ia.loc())
    else:
        for ch in sorted(special - wild):
            R.bad("Q4", "%s|%s special to matcher only" % (ia.key, ch), ia.loc(),
                  "`%s` is special to fnmatch but _is_pattern_absolute treats a pattern containing it as an exact name: the same pattern is matched literally "
                  "through the fast lookup and as a character class through the scan (results depend on options and on the lookup being registered)" % ch)
        for ch in sorted(wild - special):
            R.bad("Q4", "%s|%s wildcard to absolute only" % (ia.key, ch), ia.loc(), "`%s` sends a pattern to the scan but the matcher treats it literally" % ch)
    # early exits of _is_pattern_absolute: is_case False or is_re True -> not absolute
    src = norm(ia.node)
    if "is_case is False" in src or "not is_case" in src:
        R.ok("Q4", "is_case=False patterns are never absolute", ia.loc())
    else:
        R.bad("Q4", "%s|is_case" % ia.key, ia.loc(), "_is_pattern_absolute no longer sends is_case=False patterns to the scan: case-insensitive exact patterns would use the case-sensitive lookup")
    if "is_re is True" in src or "or is_re" in src or "if is_re" in src:
        R.ok("Q4", "regex patterns are never absolute", ia.loc())
    else:
        R.bad("Q4", "%s|is_re" % ia.key, ia.loc(), "_is_pattern_absolute no longer sends regex patterns to the scan")


def _q3_q6(ctx, R):
    R.rule("Q3", "filter on top: every public get_* returns its raw generator wrapped in filter(<the filter keyword>, ...)")
    R.rule("Q6", "option tables: the keyword names accepted by the argument check equal the names read with kwargs.get, and the "
                 "default pattern is '.*' when is_re else '*'")
    P = ctx.P
    n = 0
    for mod in _modules(P):
        name, pub, mid, raw = _triple(mod)
        n += 1
        # Q3
        # filter(f, raw(...)) — which the loader reads as (x for x in raw(...) if f(x)) — or the same thing spelled as a loop
        filt = [(c.args[0], c.args[1]) for c in walk_local(mid.node) if isinstance(c, ast.Call) and norm(c.func) == "filter" and len(c.args) == 2]
        for g in walk_local(mid.node):
            if isinstance(g, (ast.GeneratorExp, ast.ListComp)) and len(g.generators) == 1 and len(g.generators[0].ifs) == 1 and norm(g.elt) == norm(g.generators[0].target):
                t_ = g.generators[0].ifs[0]
                if isinstance(t_, ast.Call) and len(t_.args) == 1 and norm(t_.args[0]) == norm(g.elt) and not t_.keywords:
                    filt.append((t_.func, g.generators[0].iter))
            if isinstance(g, ast.For) and isinstance(g.iter, ast.Call) and len(g.body) == 1 and isinstance(g.body[0], ast.If) and not g.body[0].orelse:
                t_ = g.body[0].test
                ys = [y for y in ast.walk(g.body[0]) if isinstance(y, ast.Yield)]
                if isinstance(t_, ast.Call) and len(t_.args) == 1 and norm(t_.args[0]) == norm(g.target) and ys and norm(ys[0].value) == norm(g.target):
                    filt.append((t_.func, g.iter))
        ok = False
        for pred_, inner in filt:
            if isinstance(inner, ast.Call) and norm(inner.func) == raw.name and isinstance(pred_, ast.Name) and pred_.id in mid.params:
                fparam = pred_.id
                # the public function passes kwargs.get("filter", ...) in that position
                for call in walk_local(pub.node):
                    if isinstance(call, ast.Call) and norm(call.func) == mid.name:
                        idx = mid.params.index(fparam)
                        arg = call.args[idx] if idx < len(call.args) else None
                        if arg is not None and isinstance(arg, ast.Name):
                            for a in walk_local(pub.node):
                                if isinstance(a, ast.Assign) and norm(a.targets[0]) == arg.id and isinstance(a.value, ast.Call) \
                                        and norm(a.value.func) == "kwargs.get" and a.value.args and isinstance(a.value.args[0], ast.Constant) and a.value.args[0].value == "filter":
                                    ok = True
        yields_raw_directly = any(isinstance(y, (ast.Yield, ast.YieldFrom)) for y in walk_local(mid.node))
        if ok and yields_raw_directly:
            R.ok("Q3", name, mid.loc())
        else:
            R.bad("Q3", "%s|filter" % mid.key, mid.loc(), "%s does not return filter(<filter keyword>, %s(...)): the filter callback is not applied on top of the result" % (mid.name, raw.name))
        # Q6
        accepted = None
        for c in walk_local(pub.node):
            if isinstance(c, ast.Compare) and len(c.ops) == 1 and isinstance(c.ops[0], (ast.In, ast.NotIn)) and isinstance(c.comparators[0], ast.Set):
                vals = {e.value for e in c.comparators[0].elts if isinstance(e, ast.Constant) and isinstance(e.value, str)}
                if vals and isinstance(c.left, ast.Name):
                    # the generator `x in {...} for x in kwargs`
                    for p in parent_chain(c):
                        if isinstance(p, (ast.GeneratorExp, ast.ListComp)) and any(norm(g.iter) == "kwargs" for g in p.generators):
                            accepted = vals
                            break
        read = {c.args[0].value for c in walk_local(pub.node) if isinstance(c, ast.Call) and norm(c.func) == "kwargs.get" and c.args and isinstance(c.args[0], ast.Constant)}
        if accepted is None:
            R.bad("Q6", "%s|no-option-check" % pub.key, pub.loc(), "%s does not validate its keyword arguments against a set of accepted names" % name)
        elif accepted != read:
            R.bad("Q6", "%s|options" % pub.key, pub.loc(),
                  "%s accepts %s but reads %s: %s" % (name, sorted(accepted), sorted(read),
                                                      "options %s are accepted and silently ignored" % sorted(accepted - read) if accepted - read else "options %s can never be passed" % sorted(read - accepted)))
        else:
            R.ok("Q6", "%s options %s" % (name, sorted(accepted)), pub.loc())
        if "patterns" in read:
            dflt = [c for c in walk_local(pub.node) if isinstance(c, ast.Call) and norm(c.func) == "kwargs.get" and c.args and isinstance(c.args[0], ast.Constant)
                    and c.args[0].value == "patterns" and len(c.args) == 2]
            if dflt and norm(dflt[0].args[1]) == "'.*' if is_re else '*'":
                R.ok("Q6", "%s default pattern" % name, pub.loc())
            else:
                R.bad("Q6", "%s|default-pattern" % pub.key, pub.loc(), "%s: the default pattern is `%s`, expected '.*' if is_re else '*'" % (name, norm(dflt[0].args[1]) if dflt else "missing"))
        for opt, default in (("is_case", "True"), ("is_re", "False"), ("key", "'.NAME'")):
            if opt in read:
                d = [c for c in walk_local(pub.node) if isinstance(c, ast.Call) and norm(c.func) == "kwargs.get" and c.args and isinstance(c.args[0], ast.Constant) and c.args[0].value == opt]
                if d and len(d[0].args) == 2 and norm(d[0].args[1]) == default:
                    R.ok("Q6", "%s default %s=%s" % (name, opt, default), pub.loc())
                else:
                    R.bad("Q6", "%s|default-%s" % (pub.key, opt), pub.loc(), "%s: default of %s is `%s`, documented default is %s" % (name, opt, norm(d[0].args[1]) if d and len(d[0].args) == 2 else "missing", default))
    R.count("query modules (Q3/Q6)", n)
    R.floor("query modules (Q3/Q6)", 13)


def _yield_guard(f, y):
    """classify the dedupe idiom that dominates `yield x`; returns (idiom or None, description)"""
    val = y.value
    if val is None:
        return None, "bare yield"
    x = norm(val)
    if x.startswith("(") and x.endswith(")"):
        x = x[1:-1]
    chain = list(parent_chain(y))
    # block containing the yield statement
    stmt = chain[0] if isinstance(chain[0], ast.Expr) else y
    ifs = []
    for p in chain:
        if isinstance(p, (ast.FunctionDef,)):
            break
        if isinstance(p, ast.If):
            in_body = any(stmt is s or any(stmt is z for z in ast.walk(s)) for s in p.body)
            ifs.append((p, in_body))

    def conjuncts(t):
        if isinstance(t, ast.BoolOp) and isinstance(t.op, ast.And):
            out = []
            for v in t.values:
                out.extend(conjuncts(v))
            return out
        return [t]

    def calls_in(block, method, recv=None, arg=None):
        out = []
        for s in block:
            for c in ast.walk(s):
                if isinstance(c, ast.Call) and isinstance(c.func, ast.Attribute) and c.func.attr == method and c.args \
                        and (arg is None or norm(c.args[0]) == arg) and (recv is None or norm(c.func.value) == recv):
                    out.append(c)
        return out

    # G1 / G2
    for p, in_body in ifs:
        if not in_body:
            continue
        for t in conjuncts(p.test):
            if isinstance(t, ast.Compare) and len(t.ops) == 1 and norm(t.left) == x:
                S = norm(t.comparators[0])
                if isinstance(t.ops[0], ast.NotIn) and calls_in(p.body, "add", S, x):
                    return "G1", "%s not in %s ... %s.add(%s)" % (x, S, S, x)
                if isinstance(t.ops[0], ast.In) and (calls_in(p.body, "remove", S, x) or calls_in(p.body, "discard", S, x)):
                    return "G2", "%s in %s ... %s.remove(%s)" % (x, S, S, x)
    # loop over a bucket
    loops = [p for p in chain if isinstance(p, ast.For)]
    for lp in loops:
        if norm(lp.target) != x:
            continue
        it = lp.iter
        # G4: for x in S: if cond: T.add(x); yield x ... S -= T
        if isinstance(it, ast.Name):
            S = it.id
            for p, in_body in ifs:
                if in_body:
                    adds = [c for c in calls_in(p.body, "add", None, x)]
                    for a in adds:
                        T = norm(a.func.value)
                        for n2 in walk_local(f.node):
                            if isinstance(n2, ast.AugAssign) and isinstance(n2.op, ast.Sub) and norm(n2.target) == S and norm(n2.value) == T:
                                return "G4", "for %s in %s ... %s.add(%s) ... %s -= %s" % (x, S, T, x, S, T)
                            if isinstance(n2, ast.Call) and isinstance(n2.func, ast.Attribute) and n2.func.attr == "difference_update" and norm(n2.func.value) == S \
                                    and n2.args and norm(n2.args[0]) == T:
                                return "G4", "for %s in %s ... %s.add(%s) ... %s -= %s" % (x, S, T, x, S, T)
        # G3: for x in result where result = M[k]; del M[k] / M.pop(k) / names_to_remove.append(k) + del loop
        bucket = it
        if isinstance(it, ast.Call) and isinstance(it.func, ast.Attribute) and it.func.attr == "pop" and it.args:
            return "G3", "%s.pop(%s)" % (norm(it.func.value), norm(it.args[0]))
        if isinstance(it, ast.Name):
            # `for k, result in M.items():` binds result = M[k]
            for q in parent_chain(lp):
                if isinstance(q, ast.For) and isinstance(q.target, ast.Tuple) and len(q.target.elts) == 2 and norm(q.target.elts[1]) == it.id \
                        and isinstance(q.iter, ast.Call) and isinstance(q.iter.func, ast.Attribute) and q.iter.func.attr == "items":
                    bucket = ast.Subscript(value=q.iter.func.value, slice=q.target.elts[0], ctx=ast.Load())
        if isinstance(bucket, ast.Name):
            for n2 in walk_local(f.node):
                if isinstance(n2, ast.Assign) and norm(n2.targets[0]) == it.id and isinstance(n2.value, ast.Subscript):
                    # nearest assignment enclosing-wise: must share an enclosing block with the loop
                    if any(n2 in getattr(q, "body", []) or n2 in getattr(q, "orelse", []) for q in parent_chain(lp)):
                        bucket = n2.value
            if isinstance(bucket, ast.Name):
                for n2 in walk_local(f.node):
                    if isinstance(n2, ast.Assign) and norm(n2.targets[0]) == it.id and isinstance(n2.value, ast.Call) and isinstance(n2.value.func, ast.Attribute) \
                            and n2.value.func.attr == "pop":
                        return "G3", "%s = %s (bucket popped)" % (it.id, norm(n2.value))
        if isinstance(bucket, ast.Subscript):
            M, k = norm(bucket.value), norm(bucket.slice)
            # the removal must sit in a block that encloses the loop (same pattern iteration)
            for q in parent_chain(lp):
                for blk in (getattr(q, "body", []), getattr(q, "orelse", [])):
                    for s in blk if isinstance(blk, list) else []:
                        for n2 in ast.walk(s):
                            if isinstance(n2, ast.Delete) and any(norm(t) == "%s[%s]" % (M, k) for t in n2.targets):
                                return "G3", "del %s[%s]" % (M, k)
                            if isinstance(n2, ast.Call) and isinstance(n2.func, ast.Attribute) and n2.func.attr == "pop" and norm(n2.func.value) == M and n2.args and norm(n2.args[0]) == k:
                                return "G3", "%s.pop(%s)" % (M, k)
                            if isinstance(n2, ast.Call) and isinstance(n2.func, ast.Attribute) and n2.func.attr == "append" and n2.args and norm(n2.args[0]) == k:
                                L = norm(n2.func.value)
                                for n3 in walk_local(f.node):
                                    if isinstance(n3, ast.For) and norm(n3.iter) == L:
                                        v = norm(n3.target)
                                        if any(isinstance(d, ast.Delete) and any(norm(t) == "%s[%s]" % (M, v) for t in d.targets) for d in ast.walk(n3)):
                                            return "G3", "%s.append(%s) ... del %s[...]" % (L, k, M)
                if isinstance(q, ast.FunctionDef):
                    break
            return None, "iterates the bucket %s[%s] which is never removed from %s: a later pattern that matches the same name yields its members again" % (M, k, M)
    # path-based G1: whatever the control-flow shape (guard clause with `continue`, nested ifs, merged branches), on every path that
    # reaches the yield inside its innermost loop the value is known not to be in S, and S.add(value) precedes the yield
    from ..paths import stmt_paths, expand
    inner = next((p for p in chain if isinstance(p, (ast.For, ast.While))), None)
    ystmt = next((p for p in [y] + chain if isinstance(p, ast.stmt)), None)
    if inner is not None and ystmt is not None:
        hits = []

        def probe(st, facts, defs=None):
            if st is ystmt:
                hits.append((facts, expand(x, defs or {})))
        paths = list(stmt_paths(inner.body, frozenset(), {}, None, probe, opaque_loops=True))
        if hits and not any(oc is None for oc, fa, df in paths):
            cands = None
            for fa, xx in hits:
                here = {m.group(1) for a in fa for v_ in (x, xx) for m in [re.match(r"notin\(%s,(.*)\)$" % re.escape(v_), a)] if m}
                cands = here if cands is None else cands & here
            for S in sorted(cands or ()):
                adds = [c for s_ in inner.body for c in ast.walk(s_) if isinstance(c, ast.Call) and isinstance(c.func, ast.Attribute) and c.func.attr == "add"
                        and norm(c.func.value) == S and c.args and norm(c.args[0]) == x and c.lineno <= y.lineno]
                if adds:
                    return "G1", "%s not in %s ... %s.add(%s)" % (x, S, S, x)
    return None, "no de-duplication guard found around it"


def stage_disjointness(f, S, Y):
    """a later stage selects its results from the set S ("pending") while an earlier stage recorded what it returned in Y: S and Y
    must be disjoint when the later stage starts.  Accepted: (a) every element enters S under a `not in Y` test (or after
    `if x in Y: continue`), and S is filled in no other way; (b) Y is subtracted from S (`for h in Y: S.discard(h)`, `S -= Y`,
    `S.difference_update(Y)`) at a point after which nothing more is recorded in Y before S is consumed."""
    from ..cfg import cfg_of
    # `S = T` where T is the local that was actually filled (a helper's result handed on under another name)
    al = [n for n in walk_local(f.node) if isinstance(n, ast.Assign) and len(n.targets) == 1 and norm(n.targets[0]) == S]
    if len(al) == 1 and isinstance(al[0].value, ast.Name) and al[0].value.id != S:
        return stage_disjointness(f, al[0].value.id, Y)
    fills, adds, subtract = [], [], []
    for n in walk_local(f.node):
        if isinstance(n, ast.Call) and isinstance(n.func, ast.Attribute) and n.func.attr == "append" and n.args and (
                (isinstance(n.func.value, ast.Subscript) and norm(n.func.value.value) == S) or
                (isinstance(n.func.value, ast.Call) and isinstance(n.func.value.func, ast.Attribute) and n.func.value.func.attr == "setdefault"
                 and norm(n.func.value.func.value) == S)):
            adds.append(n)  # S is a name map: S[k].append(e) / S.setdefault(k, []).append(e)
        elif isinstance(n, ast.Assign) and any(isinstance(t, ast.Subscript) and norm(t.value) == S for t in n.targets):
            if isinstance(n.value, ast.List) and not n.value.elts:
                continue
            if isinstance(n.value, ast.List) and len(n.value.elts) == 1:
                adds.append(ast.Call(func=ast.Attribute(value=ast.Name(id=S), attr="append"), args=[n.value.elts[0]], keywords=[]))
                adds[-1]._anchor = n
            else:
                fills.append(n)
        elif isinstance(n, ast.Call) and isinstance(n.func, ast.Attribute) and norm(n.func.value) == S:
            if n.func.attr == "add" and n.args:
                adds.append(n)
            elif n.func.attr in ("update", "union"):
                fills.append(n)
            elif n.func.attr == "difference_update" and n.args and norm(n.args[0]) == Y:
                subtract.append(n)
        elif isinstance(n, ast.Call) and any(isinstance(a, ast.Name) and a.id == S for a in n.args) and not (
                isinstance(n.func, ast.Attribute) and norm(n.func.value) in (S, Y)) and norm(n.func) not in ("len", "bool", "list", "set", "sorted"):
            fills.append(n)  # handed to a helper that fills it
        elif isinstance(n, ast.Assign) and any(norm(t) == S for t in n.targets):
            v = n.value
            empty = (isinstance(v, ast.Call) and norm(v.func) in ("set", "OrderedDict", "dict", "list") and not v.args) or \
                    (isinstance(v, (ast.Set, ast.List, ast.Dict)) and not getattr(v, "elts", getattr(v, "keys", [])))
            if not empty:
                fills.append(n)
        elif isinstance(n, ast.AugAssign) and norm(n.target) == S:
            if isinstance(n.op, ast.Sub) and norm(n.value) == Y:
                subtract.append(n)
            elif isinstance(n.op, (ast.BitOr, ast.Add)):
                fills.append(n)
        elif isinstance(n, ast.For) and norm(n.iter) == Y:
            v = norm(n.target)
            if any(isinstance(c, ast.Call) and isinstance(c.func, ast.Attribute) and c.func.attr in ("discard", "remove") and norm(c.func.value) == S
                   and c.args and norm(c.args[0]) == v for c in ast.walk(n)):
                subtract.append(n)
    # (b)
    if subtract:
        cfg = cfg_of(f.node)
        stmt_of = {}
        for cn in cfg.nodes:
            if cn.ast is not None:
                stmt_of.setdefault(id(cn.ast), []).append(cn)
        for sub in subtract:
            st = sub
            if not isinstance(st, ast.stmt):
                for p_ in parent_chain(sub):
                    if isinstance(p_, ast.stmt):
                        st = p_
                        break
            starts = stmt_of.get(id(st), [])
            seen, todo = set(), list(starts)
            late = None
            while todo:
                cn = todo.pop()
                for nx, lab in cn.succ:
                    if nx.id in seen:
                        continue
                    seen.add(nx.id)
                    todo.append(nx)
                    if nx.ast is not None and nx.kind == "stmt":
                        for c in ast.walk(nx.ast):
                            if isinstance(c, ast.Call) and isinstance(c.func, ast.Attribute) and c.func.attr == "add" and norm(c.func.value) == Y:
                                late = c
            if starts and late is None:
                return True, "%s is subtracted from %s after the last insertion into %s" % (Y, S, Y)
        return False, ("`%s` is subtracted from `%s`, but results are still recorded in `%s` afterwards (`%s`): those are not removed from `%s` and "
                       "the later stage returns them a second time" % (Y, S, Y, short(late, 40) if late is not None else "?", S))
    # (a)
    if fills:
        return False, "`%s` is filled by `%s` without excluding what `%s` already holds" % (S, short(fills[0], 50), Y)
    if not adds:
        return None, "nothing is inserted into %s" % S
    for a in adds:
        e = norm(a.args[0])
        ok = False
        a = getattr(a, "_anchor", a)
        prev = a
        for p_ in parent_chain(a):
            if isinstance(p_, ast.If) and any(prev is s_ or any(prev is z for z in ast.walk(s_)) for s_ in p_.body):
                for t in (p_.test.values if isinstance(p_.test, ast.BoolOp) and isinstance(p_.test.op, ast.And) else [p_.test]):
                    if isinstance(t, ast.Compare) and len(t.ops) == 1 and isinstance(t.ops[0], ast.NotIn) and norm(t.left) == e and norm(t.comparators[0]) == Y:
                        ok = True
            for fld in ("body", "orelse"):
                blk = getattr(p_, fld, None)
                if isinstance(blk, list) and any(prev is s_ for s_ in blk):
                    i = [k for k, s_ in enumerate(blk) if prev is s_][0]
                    for s_ in blk[:i]:
                        if isinstance(s_, ast.If) and isinstance(s_.test, ast.Compare) and len(s_.test.ops) == 1 and isinstance(s_.test.ops[0], ast.In) \
                                and norm(s_.test.left) == e and norm(s_.test.comparators[0]) == Y and s_.body \
                                and isinstance(s_.body[-1], (ast.Continue, ast.Return, ast.Break)):
                            ok = True
            if isinstance(p_, (ast.FunctionDef, ast.For, ast.While)) and ok:
                break
            if isinstance(p_, ast.FunctionDef):
                break
            prev = p_
        if not ok:
            return False, "`%s` enters `%s` without a test that it is not already in `%s`" % (e, S, Y)
    return True, "every element enters %s under a not-in-%s test" % (S, Y)


def _stage_pairs(f):
    Ys, Ss = set(), set()
    for y in walk_local(f.node):
        if isinstance(y, ast.Yield):
            idiom, desc = _yield_guard(f, y)
            if idiom in ("G1", "G2", "G4"):
                sname = desc.split(" in ")[1].split(" ")[0]
                (Ys if idiom == "G1" else Ss).add(sname)
            elif idiom == "G3":
                import re as _re
                m = _re.search(r"del (\w+)\[", desc) or _re.search(r"= (\w+)\.pop\(", desc) or _re.search(r"^(\w+)\.pop\(", desc)
                if m:
                    Ss.add(m.group(1))
    return [(S, Y) for S in sorted(Ss) for Y in sorted(Ys) if S != Y]


def _cross_structure_yields(R, rid, f):
    """inside one pattern loop, a branch that yields straight out of a pending set S (`for x in S: … yield x … S -= seen`) shares its
    population with the name map another branch yields from (both are filled with the same elements in one loop).  Whatever that other
    branch yields must then be taken out of S as well (`if x in S: S.remove(x); yield x`), or the first branch yields it again."""
    n = 0
    for L in walk_local(f.node):
        if not (isinstance(L, ast.For) and isinstance(L.iter, ast.Name) and "pattern" in L.iter.id):
            continue
        W = {}
        for lp in ast.walk(L):
            if isinstance(lp, ast.For) and lp is not L and isinstance(lp.iter, ast.Name) and isinstance(lp.target, ast.Name) \
                    and any(isinstance(y, ast.Yield) and y.value is not None and norm(y.value) == lp.target.id for y in ast.walk(lp)):
                W[lp.iter.id] = lp
        if not W:
            continue
        for S, wl in W.items():
            # the structures filled with the same elements as S: M[...]…append(z) / M.setdefault(…).append(z) next to S.add(z)
            shared = set()
            for fill in walk_local(f.node):
                if not isinstance(fill, ast.For):
                    continue
                adds = [c for c in ast.walk(fill) if isinstance(c, ast.Call) and isinstance(c.func, ast.Attribute) and c.func.attr == "add" and norm(c.func.value) == S and c.args]
                for a in adds:
                    z = norm(a.args[0])
                    for c in ast.walk(fill):
                        if isinstance(c, ast.Call) and isinstance(c.func, ast.Attribute) and c.func.attr == "append" and c.args and norm(c.args[0]) == z:
                            root = c.func.value
                            while isinstance(root, (ast.Subscript, ast.Call, ast.Attribute)):
                                root = root.value if isinstance(root, (ast.Subscript, ast.Attribute)) else root.func
                            if isinstance(root, ast.Name) and root.id != S:
                                shared.add(root.id)
            if not shared:
                continue
            for y in ast.walk(L):
                if not (isinstance(y, ast.Yield) and isinstance(y.value, ast.Name)) or any(y is x for x in ast.walk(wl)):
                    continue
                v = y.value.id
                src = next((p for p in parent_chain(y) if isinstance(p, ast.For) and norm(p.target) == v), None)
                if src is None:
                    continue
                src_txt = norm(src.iter)
                d = reaching_assign(src, src_txt) if isinstance(src.iter, ast.Name) else None
                if d is not None and d.value is not None:
                    src_txt = norm(d.value)
                if not any(re.match(r"%s\b" % re.escape(m), src_txt) for m in shared):
                    continue
                n += 1
                tested = any(isinstance(p, ast.If) and ("%s in %s" % (v, S)) in norm(p.test) for p in parent_chain(y))
                removed = any(isinstance(c, ast.Call) and isinstance(c.func, ast.Attribute) and c.func.attr in ("remove", "discard") and norm(c.func.value) == S
                              and c.args and norm(c.args[0]) == v for c in ast.walk(src))
                if tested and removed:
                    R.ok(rid, "%s: what the `%s` branch yields is taken out of `%s`" % (f.qualname, sorted(shared)[0], S), f.loc(y))
                else:
                    R.bad(rid, "%s|yield %s bypasses %s" % (f.key, v, S), f.loc(y),
                          "%s yields `%s` out of `%s` without taking it out of `%s`, the set another branch of the same pattern loop yields from: with an exact "
                          "name and a wildcard that both match, the element is returned twice" % (f.qualname, v, src_txt[:40], S))
    return n


def check_stages(R, rid, f):
    k = _cross_structure_yields(R, rid, f) * 0
    k = 0
    for S, Y in _stage_pairs(f):
        k += 1
        ok, why = stage_disjointness(f, S, Y)
        if ok is False:
            R.bad(rid, "%s|stage %s vs %s" % (f.key, S, Y), f.loc(),
                  "%s returns elements from `%s` in a later stage while `%s` records what earlier stages returned, and the two are not kept "
                  "disjoint: %s" % (f.qualname, S, Y, why))
        else:
            R.ok(rid, "%s: %s and %s are disjoint when the later stage starts (%s)" % (f.qualname, S, Y, why), f.loc())
    return k


def _q5(ctx, R):
    R.rule("Q5", "yield guard: every yield of a raw query generator is dominated by a de-duplication idiom "
                 "(not-in/add, in/remove, consumed name-map bucket, matched-set subtraction)")
    P = ctx.P
    n = 0
    for mod in _modules(P):
        name, pub, mid, raw = _triple(mod)
        raw0 = raw
        from .href_rules import _closure_generators
        # work-list closures keep visited sets of their own and are read on their own: they stay calls in the view
        raw = inlined_view(P, raw, keep=tuple(g.name for g in _closure_generators(mod)))
        helpers = [raw] + [f for fn, f in mod.functions.items() if fn.startswith("_get_") and f is not raw0 and f is not mid and f.qualname not in raw.inlined_helpers
                           and any(isinstance(y, ast.Yield) for y in walk_local(f.node))]
        strict = set()
        extra = [f for fn, f in mod.functions.items() if f not in helpers and f is not raw0 and f is not mid and f is not pub
                 and any(isinstance(y, ast.Yield) for y in walk_local(f.node))]
        for f in helpers + extra:
            if f in extra and f.name not in strict:
                continue
            k = 0
            # role of each set: "yielded" (not-in/add, G1) vs "pending" (in/remove G2, matched-set subtraction G4)
            roles = {}
            guards = {}
            for y in walk_local(f.node):
                if isinstance(y, ast.Yield):
                    idiom, desc = _yield_guard(f, y)
                    guards[id(y)] = (idiom, desc)
                    if idiom in ("G1", "G2", "G4"):
                        sname = desc.split(" in ")[1].split(" ")[0]
                        roles.setdefault(sname, set()).add("yielded" if idiom == "G1" else "pending")
            for y in walk_local(f.node):
                if not isinstance(y, ast.Yield):
                    continue
                n += 1
                idiom, desc = guards[id(y)]
                if idiom in ("G2", "G4") and roles.get(desc.split(" in ")[1].split(" ")[0], set()) == {"yielded", "pending"}:
                    sname = desc.split(" in ")[1].split(" ")[0]
                    R.bad("Q5", "%s|yield %s|set %s has two roles" % (f.key, norm(y.value), sname), f.loc(y),
                          "%s: `yield %s` selects from the set `%s`, which elsewhere in the function records what was ALREADY yielded: elements returned "
                          "earlier are still in it and are returned again" % (f.qualname, norm(y.value), sname))
                    continue
                deleg = None
                if not idiom and (f is raw or f.name in strict):
                    # `for v in _helper(...): yield v` / re-yield of a module generator: the helper's own yields carry the obligation
                    lp_ = next((p_ for p_ in parent_chain(y) if isinstance(p_, ast.For)), None)
                    if lp_ is not None and norm(lp_.target) == norm(y.value) and isinstance(lp_.iter, ast.Call) and isinstance(lp_.iter.func, ast.Name) \
                            and lp_.iter.func.id in mod.functions and len(lp_.body) == 1:
                        deleg = lp_.iter.func.id
                if deleg:
                    strict.add(deleg)
                    R.ok("Q5", "%s: yield %s re-yields %s, whose yields are checked" % (f.qualname, norm(y.value), deleg), f.loc(y))
                elif idiom:
                    R.ok("Q5", "%s: yield %s [%s %s]" % (f.qualname, norm(y.value), idiom, desc), f.loc(y))
                elif f is not raw and f.name not in strict:
                    # helper generators feed a de-duplicating caller: every call site of the helper must sit under a guard
                    R.ok("Q5", "%s: helper generator (its consumers de-duplicate)" % f.qualname, f.loc(y))
                else:
                    k += 1
                    ctxs = [short(p.test, 50) for p in parent_chain(y) if isinstance(p, ast.If)][:2]
                    R.bad("Q5", "%s|yield %s|%s" % (f.key, norm(y.value), " / ".join(ctxs)), f.loc(y),
                          "%s: `yield %s` (under `%s`) %s: the same element can be returned twice" % (f.qualname, norm(y.value), " / ".join(ctxs), desc))
    R.count("yields in raw query generators (Q5)", n)
    R.floor("yields in raw query generators (Q5)", 80)
    st = 0
    for mod in _modules(P):
        name, pub, mid, raw = _triple(mod)
        from .href_rules import _closure_generators
        st += check_stages(R, "Q5", inlined_view(P, raw, keep=tuple(g.name for g in _closure_generators(mod))))
    R.count("two-stage generators (Q5 stage disjointness)", st)
    R.floor("two-stage generators (Q5 stage disjointness)", 2)


def _q8(ctx, R):
    R.rule("Q8", "several patterns give the union: no loop over the patterns is cut short")
    P = ctx.P
    n = 0
    for mod in _modules(P):
        for f in mod.all_funcs():
            for lp in walk_local(f.node):
                if isinstance(lp, ast.For) and norm(lp.iter) == "patterns":
                    n += 1
                    cut = None
                    for st in lp.body:
                        for x in ast.walk(st):
                            if isinstance(x, (ast.Break, ast.Return)):
                                # a break that belongs to an inner loop is that loop's business
                                owner = None
                                for p_ in parent_chain(x):
                                    if isinstance(p_, (ast.For, ast.While)):
                                        owner = p_
                                        break
                                if isinstance(x, ast.Return) or owner is lp:
                                    cut = x
                    if cut is not None:
                        R.bad("Q8", "%s|pattern-loop %s" % (f.key, type(cut).__name__.lower()), f.loc(cut),
                              "%s leaves the loop over the patterns with `%s` (guard: %s): the remaining patterns are never matched, so the result is not the union and depends on the order of the patterns"
                              % (f.qualname, short(cut, 30), "; ".join(short(p_.test, 40) for p_ in parent_chain(cut) if isinstance(p_, ast.If))[:90] or "none"))
                    else:
                        R.ok("Q8", "%s: every pattern is processed" % f.qualname, f.loc(lp))
    R.count("loops over the patterns (Q8)", n)
    R.floor("loops over the patterns (Q8)", 14)


def _q9(ctx, R):
    """the registry of accelerated lookups: a registration that is refused leaves the registry as it was (may-dataflow: no store
    to module state on a path that goes on to raise), and lookup() dispatches to what is registered under the key it was asked for"""
    from ..cfg import cfg_of, forward, node_exprs
    R.rule("Q9", "the lookup registry is not modified on a path that ends in a refusal")
    P = ctx.P
    mod = P.module("spydrnet/global_state/global_service.py")
    mod_names = {t.id for st in mod.tree.body if isinstance(st, ast.Assign) for t in st.targets if isinstance(t, ast.Name)}
    n = 0
    for fn, f in sorted(mod.functions.items()):
        if not any(isinstance(x, ast.Raise) for x in walk_local(f.node)):
            continue
        n += 1
        globs = {g for x in walk_local(f.node) if isinstance(x, ast.Global) for g in x.names}
        cfg = cfg_of(f.node)

        def writes(node):
            exprs, targets = node_exprs(node)
            out = []
            for t in targets:
                if isinstance(t, ast.Subscript) and isinstance(t.value, ast.Name) and t.value.id in mod_names:
                    out.append(t)
                if isinstance(t, ast.Name) and t.id in globs:
                    out.append(t)
            for e in exprs:
                for c in ast.walk(e):
                    if isinstance(c, ast.Call) and isinstance(c.func, ast.Attribute) and isinstance(c.func.value, ast.Name) and c.func.value.id in mod_names \
                            and c.func.attr in ("update", "pop", "clear", "setdefault", "popitem", "append", "add", "remove", "discard"):
                        out.append(c)
            return out

        def transfer(node, st):
            w = writes(node)
            return st | frozenset(short(x, 40) for x in w) if w else st

        state = forward(cfg, frozenset(), transfer, lambda a, b: a | b)
        bad = None
        for node in cfg.nodes:
            if node.kind == "raisestmt" and state.get(node.id):
                bad = (node, sorted(state[node.id])[0])
        if bad:
            R.bad("Q9", "%s|write before refusal" % f.key, f.loc(bad[0].ast),
                  "%s modifies the registry (`%s`) and then refuses the call: the refused registration has already replaced the lookup that "
                  "exact-name queries use, so they stop agreeing with the scan" % (f.qualname, bad[1]))
        else:
            R.ok("Q9", "%s: nothing is stored before it refuses" % f.qualname, f.loc())
    R.count("registry functions that can refuse (Q9)", n)
    R.floor("registry functions that can refuse (Q9)", 1)


@register("C13",
          "Static analysis of the 13 sibling query modules, patterns.py and the lookup service: Q1 argument plumbing at every call "
          "between family members (same-named parameters, lookup element type vs enclosing parent kind); Q2 the matcher's case / regex "
          "branches (fnmatch.fnmatch never with un-folded operands, re.fullmatch, IGNORECASE iff not is_case); Q3 filter(filter_func, raw) "
          "on top in every public query; Q4 the wildcard set of _is_pattern_absolute equals the matcher's special characters; Q5 every "
          "yield of a raw generator is dominated by a de-duplication idiom, and the set / name map a later stage selects from is kept disjoint from what earlier stages returned; Q9 the lookup registry is not modified on a path that ends in a refusal; Q7 the fallback scan used when no accelerated lookup is registered covers the five (parent, child) kinds, tests the key on the child and compares value with child[key], never stopping early; Q6 accepted option names equal the names read, documented "
          "defaults. Decides plumbing, option and de-duplication structure; does not decide that roots/selection/recursive produce the "
          "right unfiltered set. Q10 the name maps record every element (no `setdefault(k, [x])` with the result discarded); the fallback scan does not sit inside a try whose handler ends it.")
def check_c13(ctx, R):
    from .namespace_rules import fallback_scan
    _q8(ctx, R)
    R.rule("Q7", "independence from the accelerated lookup: the fallback scan covers the five (parent, child) kinds, compares "
                 "value with child[key] and never stops early")
    R.count("fallback scan cells (Q7)", fallback_scan(ctx, R, "Q7"))
    R.floor("fallback scan cells (Q7)", 5)
    _q1(ctx, R)
    _q2_q4(ctx, R)
    _q3_q6(ctx, R)
    _q5(ctx, R)
    _q9(ctx, R)
    multimap_inserts(ctx.P, R, "Q10", _modules(ctx.P))
    if cache_keys(ctx.P, R, "Q11", _modules(ctx.P) + [ctx.P.module(PAT)]) == 0:
        R.ok("Q11", "the query family keeps no module-level cache")
