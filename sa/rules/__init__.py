"""Rule registry: property id -> (function(ctx, run), explanation, extra assumptions)."""
REGISTRY = {}


def register(prop, explanation, assumptions=(), exhaustive=None):
    def deco(fn):
        if not fn.__name__.startswith("check_"):
            raise RuntimeError("@register(%s) decorates %s: a helper was inserted between the decorator and the check function" % (prop, fn.__name__))
        REGISTRY[prop] = (fn, explanation, list(assumptions), exhaustive)
        return fn
    return deco


def load_all():
    import importlib
    import pkgutil
    import os
    here = os.path.dirname(__file__)
    for m in sorted(pkgutil.iter_modules([here])):
        importlib.import_module("sa.rules." + m.name)
    return REGISTRY
