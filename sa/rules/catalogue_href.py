"""Self-test catalogue for the hierarchical-reference rules (C11, C12)."""
from ..mutants import Mutant, add

H = "spydrnet/util/hierarchical_reference.py"
U = "spydrnet/util/"

add("C11",
    Mutant("H1 direct construction in a query module",
           (U + "get_hpins.py", "href_pin = HRef.from_parent_and_item(href_port, pin)", "href_pin = HRef(pin, href_port)"), "direct-ctor"),
    Mutant("H1 factory passes (parent, item) swapped",
           (H, "        href = HRef(item, parent)", "        href = HRef(parent, item)"), "from_parent_and_item|flyweight"),
    Mutant("H1 factory never records new references",
           (H, "        flyweight[href] = weakref.ref(href)\n", ""), "from_parent_and_item|flyweight"),
    Mutant("H2 hash ignores the parent",
           (H, "self._hashcode = hash(hash(parent) * 31 + hash(item))", "self._hashcode = hash(item)"), "hash-inputs"),
    Mutant("H2 assignment to href.item",
           (U + "get_hinstances.py", "def _update_namemap(href, recursive, found, namemap):", "def _retarget(href, x):\n    href.item = x\n\n\ndef _update_namemap(href, recursive, found, namemap):"),
           "_retarget|store item"),
    Mutant("H3 port reference followed by an outer pin",
           (H, "                        yield HRef.from_parent_and_item(href_port, inner_pin)", "                        yield HRef.from_parent_and_item(href_port, item)"),
           "get_all_hrefs_of_item|"),
    Mutant("H3 wire placed directly under the instance",
           (H, "                        yield HRef.from_parent_and_item(href_cable, item)", "                        yield HRef.from_parent_and_item(href, item)"),
           "get_all_hrefs_of_item|"),
    Mutant("H4 is_valid forgets wires",
           (H, """            elif isinstance(item, ir.Wire):
                if not hparent:
                    return False
                cable = item.cable
                if not cable:
                    return False
                if hparent.item != cable:
                    return False
                href = hparent
""", ""), "is_valid.getter|Wire"),
    Mutant("H6 walker uses another separator",
           (U + "get_hcables.py", 'cable_hname = "/".join(name_stack[1:])', 'cable_hname = ".".join(name_stack[1:])'), "separator"),
    Mutant("H6 walker keeps the top instance name",
           (U + "get_hinstances.py", '"/".join(name_stack[1:])', '"/".join(name_stack)'), "top-slice"),
    Mutant("H7 targets tested before the bound set (seeded C11-A)",
           (H, """                    if child in bound:
                        href_child = HRef.from_parent_and_item(href, child)
                        search_stack.append(href_child)
                    elif child in instances:
                        href_child = HRef.from_parent_and_item(href, child)
                        yield href_child""", """                    if child in instances:
                        href_child = HRef.from_parent_and_item(href, child)
                        yield href_child
                    elif child in bound:
                        href_child = HRef.from_parent_and_item(href, child)
                        search_stack.append(href_child)"""), "descent-excludes-targets"),
    Mutant("H8 is_unique filters with self (seeded C11-B)",
           (H, "x for x in parent.references if x != href.parent.item", "x for x in parent.references if x != self.parent.item"), "is_unique.getter|self-in-walk"),
    Mutant("twin: pass the same value through a renamed local",
           (H, """                    for href in HRef.get_all_hrefs_of_instances(definition.references):
                        href_cable = HRef.from_parent_and_item(href, cable)
                        yield HRef.from_parent_and_item(href_cable, item)""", """                    for href in HRef.get_all_hrefs_of_instances(definition.references):
                        hc = HRef.from_parent_and_item(href, cable)
                        yield HRef.from_parent_and_item(hc, item)"""), None),
    )

add("C12",
    Mutant("H3' sub-instance placed under the cable reference",
           (U + "get_hwires.py", """                            href_sub_inst = HRef.from_parent_and_item(
                                href_inst, pin.instance
                            )""", """                            href_sub_inst = HRef.from_parent_and_item(
                                obj.parent, pin.instance
                            )"""), "_get_hwires_raw|"),
    Mutant("H3' pin reference built from the outer pin",
           (U + "get_hcables.py", "                            href_pin = HRef.from_parent_and_item(href_port, inner_pin)", "                            href_pin = HRef.from_parent_and_item(href_port, pin)"),
           "_get_hcables_raw|"),
    Mutant("H3' outer wire placed under the pin's own instance",
           (U + "get_hwires.py", "                hcable = HRef.from_parent_and_item(hinst.parent, cable)", "                hcable = HRef.from_parent_and_item(hport, cable)"),
           "_get_outer_hwire_from_hpin|"),
    Mutant("H3' inner wire under the port reference",
           (U + "get_hwires.py", """            hcable = HRef.from_parent_and_item(hinst, cable)
            hwire = HRef.from_parent_and_item(hcable, wire)
            return hwire""", """            hcable = HRef.from_parent_and_item(hinst, cable)
            hwire = HRef.from_parent_and_item(hport, wire)
            return hwire"""), "_get_inner_hwire_from_hpin|"),
    Mutant("H5 ALL dropped from the inside set",
           (U + "get_hwires.py", "        if selection in {Selection.INSIDE, Selection.BOTH, Selection.ALL}:\n            hwire_inside", "        if selection in {Selection.INSIDE, Selection.BOTH}:\n            hwire_inside"),
           "set without ALL"),
    Mutant("H5 validation rejects BOTH",
           (U + "get_hcables.py", "    if isinstance(selection, Selection) is False:", "    if selection not in {Selection.INSIDE, Selection.OUTSIDE, Selection.ALL}:"), "unreachable|BOTH"),
    Mutant("H9 exclusion compares items (seeded C12-A)",
           (U + "get_hwires.py", "                        x for x in _get_hpins_from_hwire(hwire_outside) if x != hpin", "                        x for x in _get_hpins_from_hwire(hwire_outside) if x.item is not hpin.item"),
           "_get_hwires_from_hpins|"),
    Mutant("twin (equivalent): owning-instance variable reused for the sub-instance in the pin loop — the closure re-derives the "
           "port pins from the wire, so the result is unchanged (ported seed C12-B; see DESIGN)",
           (U + "get_hwires.py", """                            href_sub_inst = HRef.from_parent_and_item(
                                href_inst, pin.instance
                            )
                            inner_pin = pin.inner_pin
                            port = inner_pin.port
                            href_port = HRef.from_parent_and_item(href_sub_inst, port)""", """                            href_inst = HRef.from_parent_and_item(
                                href_inst, pin.instance
                            )
                            inner_pin = pin.inner_pin
                            port = inner_pin.port
                            href_port = HRef.from_parent_and_item(href_inst, port)"""), None),
    Mutant("twin: rename a local reference variable",
           (U + "get_hwires.py", """            hport = hpin.parent
            hinst = hport.parent
            hcable = HRef.from_parent_and_item(hinst, cable)
            hwire = HRef.from_parent_and_item(hcable, wire)
            return hwire""", """            hport = hpin.parent
            owner = hport.parent
            hcable = HRef.from_parent_and_item(owner, cable)
            hwire = HRef.from_parent_and_item(hcable, wire)
            return hwire"""), None),
    )

add("C11",
    Mutant("H12 validity test moved into the Instance branch of _get_hports_raw (seeded C11-w3B)",
           (U + "get_hports.py", """            if obj.is_valid is False:
                continue
            item = obj.item
            if isinstance(item, Instance):
""", """            item = obj.item
            if isinstance(item, Instance):
                if obj.is_valid is False:
                    continue
"""), "H12|spydrnet/util/get_hports.py:_get_hports_raw|unvalidated use"),
    Mutant("H12 twin: the item is read before the validity test",
           (U + "get_hports.py", """            if obj.is_valid is False:
                continue
            item = obj.item
""", """            item = obj.item
            if not obj.is_valid:
                continue
"""), None),
    Mutant("H11 the already-returned references are subtracted from the name map before the pin search has run (seeded C11-w3C)",
           (U + "get_hwires.py", """    if hpin_search:
        for hwire in _get_hwires_from_hpins(hpin_search, selection):
            if hwire not in in_yield:
                in_yield.add(hwire)
                yield hwire

    for href in in_yield:
        in_namemap.discard(href)
""", """    for href in in_yield:
        in_namemap.discard(href)

    if hpin_search:
        for hwire in _get_hwires_from_hpins(hpin_search, selection):
            if hwire not in in_yield:
                in_yield.add(hwire)
                yield hwire
"""), "H11|spydrnet/util/get_hwires.py:_get_hwires_raw|stage in_namemap vs in_yield"),
    Mutant("H11 twin: set subtraction instead of the discard loop",
           (U + "get_hwires.py", """    for href in in_yield:
        in_namemap.discard(href)
""", """    in_namemap -= in_yield
"""), None),
)
add("C12",
    Mutant("H3' port guard dropped in the wire branch of get_hpins (seeded C12-w3C)",
           (U + "get_hpins.py", """                        port = pin.port
                        if port:
                            href_port = HRef.from_parent_and_item(
                                href_parent_instance, port
                            )
                            href_pin = HRef.from_parent_and_item(href_port, pin)
                            if href_pin not in in_yield:
                                in_yield.add(href_pin)
                                yield href_pin""", """                        href_port = HRef.from_parent_and_item(
                            href_parent_instance, pin.port
                        )
                        href_pin = HRef.from_parent_and_item(href_port, pin)
                        if href_pin not in in_yield:
                            in_yield.add(href_pin)
                            yield href_pin"""), "nullable->yield href_pin"),
    Mutant("H3' cable guard dropped again in get_hwires OUTSIDE (the defect fixed in b6d90e6)",
           (U + "get_hwires.py", "if inner_wire and inner_wire.cable:", "if inner_wire:"), "nullable->yield href_wire"),
    Mutant("H11' the closure's visited set holds cables while wires are yielded (seeded C12-w3B)",
           (U + "get_hcables.py", """            if hwire_inside and hwire_inside not in found_hwires:
                found_hwires.add(hwire_inside)""", """            if hwire_inside and hwire_inside.parent not in found_hwires:
                found_hwires.add(hwire_inside.parent)"""), "closure yield hwire_inside"),
)

add("C11",
    Mutant("H7b queried instances are kept out of the ancestor set (seeded C11-w3A)",
           (H, "                    if parent_inst not in bound:", "                    if parent_inst not in bound and parent_inst not in instances:"),
           "H7b|spydrnet/util/hierarchical_reference.py:HRef.get_all_hrefs_of_instances|ancestor skipped"),
)
