"""C03 (narrow): the EDIF file written is always accepted by the reader —
B1 balanced emission, B2 construct nesting / value-word agreement with the parser, B3 bus-bit naming convention."""
import ast

from ..core import AnalysisError, norm, short, walk_local, parent_chain, reaching_assign
from ..cfg import cfg_of, forward, node_exprs, Branch
from . import register

COMP = "spydrnet/composers/edif/composer.py"
PARS = "spydrnet/parsers/edif/parser.py"
TOK = "spydrnet/parsers/edif/edif_tokens.py"


# ---------------------------------------------------------------------------------- composer side
class Emission:
    """abstract execution of the composer's _output_* methods over a keyword stack"""

    def __init__(self, P):
        self.P = P
        self.cls = P.cls(COMP, "ComposeEdif")
        self.methods = self.cls.methods
        for m in ("_lisp_increment_", "_lisp_decrement_"):
            if m not in self.methods:
                raise AnalysisError("anchor vanished: ComposeEdif.%s" % m)
        self.edges = set()        # (parent keyword | ENTRY:m, child keyword | CALL:m)
        self.problems = []        # (method, node, text)
        self.delta = {}           # method -> net depth change (int) when balanced
        self.dynamic = []         # writes whose keyword could not be resolved
        self.value_words = {}     # keyword -> set of second words written with it ("celltype" -> {"GENERIC"})
        self.analysed = []
        for name, f in sorted(self.methods.items()):
            if name.startswith("_output_") and name.endswith("_") and name not in ("_output_",):
                self._analyse(f)

    # -- string resolution ---------------------------------------------------------------------
    def first_words(self, f, e):
        """possible first words of the text written by expression e (None = unresolved)"""
        if isinstance(e, ast.Constant) and isinstance(e.value, str):
            w = e.value.split()
            return {w[0]} if w else set()
        if isinstance(e, ast.BinOp) and isinstance(e.op, ast.Add):
            l = self.first_words(f, e.left)
            if l:
                return l
            if l == set():
                return self.first_words(f, e.right)
            return None
        if isinstance(e, ast.JoinedStr) and e.values and isinstance(e.values[0], ast.Constant):
            w = str(e.values[0].value).split()
            return {w[0]} if w else None
        if isinstance(e, ast.Call) and isinstance(e.func, ast.Attribute) and e.func.attr == "format" and isinstance(e.func.value, ast.Constant):
            w = e.func.value.value.split()
            return {w[0]} if w and not w[0].startswith("{") else None
        if isinstance(e, ast.Name):
            # assignments `name = "<word> " + ...` anywhere in the composer class (the value may be built in a helper that returns it)
            words = set()
            for m in self.methods.values():
                for a in walk_local(m.node):
                    if isinstance(a, ast.Assign) and any(isinstance(t, ast.Name) and t.id == e.id for t in a.targets):
                        fw = self.first_words(m, a.value) if not isinstance(a.value, ast.Name) else None
                        if fw:
                            words |= fw
            return words or None
        return None

    def second_word(self, e):
        if isinstance(e, ast.Constant) and isinstance(e.value, str):
            w = e.value.split()
            return w[1] if len(w) > 1 else None
        return None

    # -- abstract execution of one method ---------------------------------------------------------
    def _analyse(self, f):
        self.analysed.append(f.name)
        cfg = cfg_of(f.node)
        ENTRY = "ENTRY:" + f.name
        # index-search idiom: `for x in range(len(S)): if E == S[x]: <body>` runs its body exactly once
        once_loops = {}
        for lp in walk_local(f.node):
            if isinstance(lp, ast.For) and len(lp.body) == 1 and isinstance(lp.body[0], ast.If) and not lp.body[0].orelse \
                    and isinstance(lp.body[0].test, ast.Compare) and isinstance(lp.body[0].test.ops[0], (ast.Eq, ast.Is)):
                t = norm(lp.body[0].test)
                sides = {norm(lp.body[0].test.left), norm(lp.body[0].test.comparators[0])}
                elem = None
                if isinstance(lp.iter, ast.Call) and norm(lp.iter.func) == "range":
                    elem = "[%s]" % norm(lp.target)  # S[x]
                    hit = elem in t
                elif isinstance(lp.iter, ast.Call) and norm(lp.iter.func) == "enumerate" and isinstance(lp.target, ast.Tuple) and len(lp.target.elts) == 2:
                    hit = norm(lp.target.elts[1]) in sides
                else:
                    hit = norm(lp.target) in sides
                if hit:
                    once_loops[id(lp)] = lp
        in_once = set()
        for lp in once_loops.values():
            for x in ast.walk(lp.body[0]):
                in_once.add(id(x))

        def events(n):
            out = []
            ex, tg = node_exprs(n)
            for e in ex:
                for c in self._calls(e):
                    out.append(c)
            return out

        def apply(call, stack, record):
            fn = norm(call.func)
            # ComposeEdif._output_x_(self, …): the method of this class called with the receiver written out
            if f.cls is not None and fn.startswith(f.cls.name + ".") and call.args and norm(call.args[0]) == "self":
                fn = "self." + fn[len(f.cls.name) + 1:]
            if fn == "self._lisp_increment_":
                return stack + ("?",)
            if fn == "self._lisp_decrement_":
                if len(stack) <= 1:
                    if record:
                        self.problems.append((f, call, "closes a parenthesis it did not open"))
                    return stack
                if stack[-1] == "?" and record:
                    self.problems.append((f, call, "closes a construct before writing its keyword"))
                return stack[:-1]
            if fn == "self._output_.write" and call.args:
                if stack[-1] == "?":
                    ws = self.first_words(f, call.args[0])
                    if not ws:
                        if record:
                            self.dynamic.append((f, call))
                        return stack[:-1] + ("<dynamic>",)
                    if record:
                        for w in ws:
                            self.edges.add((stack[-2], w))
                            sw = self.second_word(call.args[0])
                            if sw:
                                self.value_words.setdefault(w.lower(), set()).add(sw)
                    return stack[:-1] + (sorted(ws)[0],)
                return stack
            if fn.startswith("self._output_") and fn.endswith("_") and fn[5:] in self.methods and fn != "self._output_":
                callee = fn[5:]
                if stack[-1] == "?":
                    # the construct's keyword is written by the callee (e.g. `(rename ...` in _output_name_of_object_)
                    if record:
                        self.edges.add((stack[-2], "CALLKW:" + callee))
                    return stack[:-1] + ("<via %s>" % callee,)
                if record:
                    self.edges.add((stack[-1], "CALL:" + callee))
                return stack
            return stack

        def step(n, stack, record):
            if stack == "UNBALANCED":
                return stack
            a = n.ast
            if n.kind in ("iter", "next") and id(a) in once_loops:
                return stack
            if a is not None and id(a) in in_once and n.kind in ("test",) and a is once_loops and False:
                return stack
            for c in events(n):
                stack = apply(c, stack, record)
            return stack

        def join(a, b):
            if a == b:
                return a
            return "UNBALANCED"

        # once-loops: cut the back edge and the zero-iteration exit so that the body is executed exactly once
        def follow(n, s, lab):
            if lab == "exc":
                return False
            if n.kind == "next" and id(n.ast) in once_loops:
                # `done` is only taken after the body ran: from the loop's own `next` node coming back from the body
                return True
            return True

        state = {}
        init = (ENTRY,)
        # custom propagation to implement the once-loop semantics
        work = [(cfg.entry, init, None)]
        seen = {}
        visits = {}
        while work:
            n, st, came = work.pop()
            if n is cfg.raise_exit:
                continue
            if n.id in seen:
                old = seen[n.id]
                if old != st and old != "UNBALANCED" and st != "UNBALANCED":
                    if len(old) != len(st):
                        self.problems.append((f, n.ast if n.ast is not None else f.node,
                                              "is reached with different nesting depths on different paths (%s vs %s)" % (self._show(old), self._show(st))))
                        seen[n.id] = "UNBALANCED"
                    # same depth, different construct on one level: both were recorded as edges already; keep the first
                continue
            seen[n.id] = st
            out = step(n, st, True)
            for s, lab in n.succ:
                if lab == "exc":
                    continue
                if n.kind == "next" and id(n.ast) in once_loops:
                    # first arrival (from the iter node): enter the body; arrival from the body: leave the loop
                    from_body = came is not None and came.ast is not None and id(came.ast) in in_once
                    if (lab == "item" and from_body) or (lab == "done" and not from_body):
                        continue
                    if lab == "done":
                        # allow re-visiting `next` from the body with the post-body state
                        pass
                if n.kind == "test" and id(n.ast) in {id(lp.body[0]) for lp in once_loops.values()} and lab == "false":
                    continue  # the searched element is found (C01: it is a member exactly once)
                if s.kind == "next" and id(s.ast) in once_loops and s.id in seen and came is not None:
                    # coming back from the body: bypass the seen-check by routing straight to the loop exit
                    for s2, lab2 in s.succ:
                        if lab2 == "done":
                            work.append((s2, out, s))
                    continue
                work.append((s, out, n))
        ex = seen.get(cfg.exit.id)
        if ex is None:
            return
        if ex == "UNBALANCED":
            self.delta[f.name] = None
        else:
            self.delta[f.name] = len(ex) - 1
            if len(ex) != 1:
                self.problems.append((f, f.node, "returns with %d construct(s) still open (%s)" % (len(ex) - 1, self._show(ex))))

    @staticmethod
    def _show(st):
        return "unbalanced" if st == "UNBALANCED" else "(" + " (".join(x for x in st[1:]) if len(st) > 1 else "balanced"

    @staticmethod
    def _calls(expr):
        from ..cfg import calls_in_order
        return calls_in_order(expr)

    # -- resolved parent -> child relation ------------------------------------------------------------
    def relation(self):
        entry_children = {}
        for (p, c) in self.edges:
            if p.startswith("ENTRY:"):
                entry_children.setdefault(p[6:], set()).add(c)

        def expand(c, depth=0):
            if depth > 6:
                return set()
            if c.startswith("CALL:") or c.startswith("CALLKW:"):
                m = c.split(":", 1)[1]
                out = set()
                for cc in entry_children.get(m, set()):
                    out |= expand(cc, depth + 1)
                return out
            return {c}

        rel = set()
        for (p, c) in self.edges:
            if p.startswith("ENTRY:") or p.startswith("<"):
                continue
            for cc in expand(c):
                rel.add((p.lower(), cc.lower()))
        return rel


# ----------------------------------------------------------------------------------- parser side
def token_table(P):
    m = P.module(TOK)
    out = {}
    for k, v in m.assigns.items():
        if isinstance(v, ast.Constant) and isinstance(v.value, str):
            out[k] = v.value
    if len(out) < 60:
        raise AnalysisError("anchor vanished: EDIF token constants (%d found)" % len(out))
    return out


class Grammar:
    """parent keyword -> child keywords the reader has a case for"""

    def __init__(self, P):
        self.P = P
        self.cls = P.cls(PARS, "EdifParser")
        self.tok = token_table(P)
        self.head = {}
        self.kids = {}
        self.values = {}
        for name, f in self.cls.methods.items():
            if name.startswith("parse_"):
                self.head[name] = self._head(f)
        self.rejecting = {n for n, f in self.cls.methods.items() if n.startswith("parse_") and self._always_raises(f)}
        for name, f in self.cls.methods.items():
            if name.startswith("parse_"):
                self.kids[name] = self._children(f)

    def _const(self, e):
        if isinstance(e, ast.Name) and e.id in self.tok:
            return self.tok[e.id].lower()
        return None

    def _head(self, f):
        for st in f.node.body[:4]:
            for c in ast.walk(st):
                if isinstance(c, ast.Call) and norm(c.func) == "self.expect" and c.args:
                    k = self._const(c.args[0])
                    if k:
                        return k
        return None

    @staticmethod
    def _always_raises(f):
        body = [s for s in f.node.body if not (isinstance(s, ast.Expr) and isinstance(s.value, ast.Constant))]
        return any(isinstance(s, ast.Raise) for s in body[:3])

    def _children(self, f):
        kids = set()
        for n in walk_local(f.node):
            if isinstance(n, ast.If) and isinstance(n.test, ast.Call) and norm(n.test.func) == "self.construct_is" and n.test.args:
                k = self._const(n.test.args[0])
                only_raises = all(isinstance(s, ast.Raise) for s in n.body)
                callee_rejects = any(isinstance(c, ast.Call) and isinstance(c.func, ast.Attribute) and c.func.attr in self.rejecting
                                     for s in n.body for c in ast.walk(s))
                if k and not only_raises and not callee_rejects:
                    kids.add(("kw", k))
            if isinstance(n, ast.Call) and norm(n.func) == "self.expect" and n.args:
                k = self._const(n.args[0])
                if k and k != self.head.get(f.name):
                    kids.add(("kw", k))  # `if self.begin_construct(): self.expect(K)`: a nested construct read inline
            if isinstance(n, ast.Call):
                fn = norm(n.func)
                if fn == "self.parse_construct" and n.args and isinstance(n.args[0], ast.Attribute):
                    kids.add(("fn", n.args[0].attr))
                elif isinstance(n.func, ast.Attribute) and norm(n.func.value) == "self" and n.func.attr.startswith("parse_") and n.func.attr != "parse_construct":
                    kids.add(("fn", n.func.attr))
        return kids

    def accepted(self):
        """{parent keyword: set(child keywords)}"""
        memo = {}

        def kw_children(fname, depth=0):
            """keywords of constructs that may appear directly inside the construct parsed by fname"""
            if fname in memo:
                return memo[fname]
            memo[fname] = set()
            out = set()
            for kind, v in self.kids.get(fname, set()):
                if kind == "kw":
                    out.add(v)
                else:
                    if v in self.rejecting:
                        continue
                    h = self.head.get(v)
                    if h is not None:
                        out.add(h)
                    elif depth < 6:
                        out |= kw_children(v, depth + 1)  # helper without a head keyword: inline
            memo[fname] = out
            return out

        rel = {}
        for fname, h in self.head.items():
            if h is None or fname in self.rejecting:
                continue
            rel.setdefault(h, set()).update(kw_children(fname))
        # reviewed: parse_design reads `(cellRef <id> (libraryRef <id>))` positionally with tokenizer.next(), no dispatch
        pd = self.cls.methods.get("parse_design")
        if pd is not None and sum(1 for c in walk_local(pd.node) if isinstance(c, ast.Call) and norm(c.func) == "self.tokenizer.next") >= 6:
            rel.setdefault("design", set()).add("cellref")
        return rel

    def value_cases(self, fname):
        """tokens a value-word function (parse_direction, parse_cellType, parse_viewType) dispatches on"""
        f = self.cls.methods.get(fname)
        if f is None:
            raise AnalysisError("anchor vanished: EdifParser.%s" % fname)
        out = set()
        for n in walk_local(f.node):
            if isinstance(n, ast.Call) and norm(n.func) == "self.construct_is" and n.args:
                k = self._const(n.args[0])
                if k:
                    out.add(k)
        return out


@register("C03",
          "Static analysis of the EDIF writer against the EDIF reader (narrow claim: the file written is always accepted; equality of the re-read "
          "netlist is a runtime property and is not decided): B1 abstract execution of every _output_* method over a keyword stack — each method "
          "leaves the parenthesis depth where it found it on every path and closes only what it opened (the index-search loop idiom runs its "
          "body once); B2 the parent->child construct relation the writer can emit is included, case-insensitively, in the relation the reader "
          "has cases for (extracted from expect/construct_is/parse_construct), and every direction / cell-type / view-type word written is one "
          "the reader dispatches on; B3 the delimiters used to build per-bit net identifiers and names equal the ones the reader splits on.")
def check_c03(ctx, R):
    P = ctx.P
    R.rule("B1", "balanced emission: every _output_* method is depth-neutral on all paths")
    R.rule("B2", "construct nesting and value words emitted are accepted by the reader")
    R.rule("B3", "bus-bit naming delimiters agree between writer and reader")
    E = Emission(P)
    R.count("composer emission methods (B1)", len(E.analysed))
    R.floor("composer emission methods (B1)", 10)
    bad_methods = set()
    for f, node, text in E.problems:
        bad_methods.add(f.name)
        R.bad("B1", "%s|%s" % (f.key, text.split(" (")[0][:60]), f.loc(node), "%s %s: the text written has unbalanced parentheses or a mis-nested construct, which the reader rejects" % (f.qualname, text))
    for m in E.analysed:
        if m not in bad_methods:
            R.ok("B1", "ComposeEdif.%s is depth-neutral" % m)
    if len(E.dynamic) > 2:
        raise AnalysisError("B2: %d construct keywords could not be resolved statically" % len(E.dynamic))
    for f, c in E.dynamic:
        R.note("construct keyword computed at run time, not compared: %s in %s" % (short(c, 50), f.qualname))
    G = Grammar(P)
    acc = G.accepted()
    rel = E.relation()
    R.count("construct nesting edges emitted (B2)", len(rel))
    R.floor("construct nesting edges emitted (B2)", 30)
    R.count("reader constructs with cases (B2)", len(acc))
    R.floor("reader constructs with cases (B2)", 30)
    for (p, c) in sorted(rel):
        if c == "<dynamic>" or p.startswith("<"):
            continue
        if p not in acc:
            R.bad("B2", "parent|%s" % p, COMP, "the writer opens a `%s` construct, for which the reader has no parser" % p)
        elif c in acc[p]:
            R.ok("B2", "(%s (%s" % (p, c))
        else:
            R.bad("B2", "edge|%s>%s" % (p, c), COMP,
                  "the writer can emit `(%s ... (%s` but the reader has no case for `%s` inside `%s` (it accepts: %s): the written file is rejected" % (p, c, c, p, ", ".join(sorted(acc[p])) or "nothing"))
    # value words
    comp = P.cls(COMP, "ComposeEdif")
    d2s = comp.methods.get("_direction_to_string_")
    if d2s is None:
        raise AnalysisError("anchor vanished: ComposeEdif._direction_to_string_")
    words = {r.value.value for r in walk_local(d2s.node) if isinstance(r, ast.Return) and isinstance(r.value, ast.Constant) and isinstance(r.value.value, str)}
    dirs = G.value_cases("parse_direction")
    for w in sorted(words):
        if w.lower() in dirs:
            R.ok("B2", "direction word %s" % w, d2s.loc())
        else:
            R.bad("B2", "direction|%s" % w, d2s.loc(),
                  "the writer emits the direction word `%s`; the reader accepts only %s, so a netlist containing such a port composes to a file that cannot be read back" % (w, ", ".join(sorted(dirs))))
    for kw, fname in (("celltype", "parse_cellType"), ("viewtype", "parse_viewType")):
        cases = G.value_cases(fname)
        for w in sorted(E.value_words.get(kw, set())):
            if w.lower() in cases:
                R.ok("B2", "%s %s" % (kw, w))
            else:
                R.bad("B2", "%s|%s" % (kw, w), COMP, "the writer emits `%s %s`; the reader accepts only %s" % (kw, w, ", ".join(sorted(cases))))
        if not E.value_words.get(kw):
            raise AnalysisError("B2: no `%s <word>` emission found" % kw)
    # B3
    wname = comp.methods.get("_output_name_of_cable_wire_")
    if wname is None:
        # by what it does: the one method that writes `rename <identifier>_<i>_ "<name>[<i>]"` for a bit of a cable
        cands_ = [m_ for m_ in comp.methods.values() if any(isinstance(x, ast.Constant) and isinstance(x.value, str) and x.value.startswith("rename ") for x in walk_local(m_.node))
                  and "'EDIF.identifier'" in norm(m_.node) and "'['" in norm(m_.node)]
        wname = cands_[0] if len(cands_) == 1 else None
    par = P.cls(PARS, "EdifParser")
    mba = par.methods.get("multibit_add_cable")
    sep = par.methods.get("separate_name_and_index")
    if None in (wname, mba, sep):
        raise AnalysisError("anchor vanished: _output_name_of_cable_wire_ / multibit_add_cable / separate_name_and_index")

    from ..inline import inlined_view
    wview = inlined_view(P, wname)  # the per-bit name may be built by a helper of its own

    def delims(marker):
        """single-character string constants, in source order, of the concatenation that builds the per-bit identifier
        (contains the EDIF.identifier lookup) or the per-bit name (contains the .NAME lookup)"""
        from ..strings import template
        for a in walk_local(wview.node):
            if isinstance(a, ast.Assign) and marker in norm(a.value) and "rename" not in norm(a.value):
                t = template(a.value)  # whatever the notation: concatenation, f-string, format
                if t is not None and len(t) >= 2:
                    return [p_ for p_ in t if isinstance(p_, str) and len(p_) == 1]
        return None

    idd, nmd = delims("'EDIF.identifier'"), delims("'.NAME'")
    calls = [c for c in walk_local(mba.node) if isinstance(c, ast.Call) and norm(c.func) == "self.separate_name_and_index" and len(c.args) == 2 and isinstance(c.args[1], ast.Constant)]
    rd = {}
    for c in calls:
        rd["id" if "id" in norm(c.args[0]) else "name"] = c.args[1].value
    # the splitter and the private helpers it hands the work to (named in its body, or in a class-level table its body reads)
    mentioned = {x.id for x in walk_local(sep.node) if isinstance(x, ast.Name)} | {x.attr for x in walk_local(sep.node) if isinstance(x, ast.Attribute)}
    for tname, tval in par.class_assigns.items():
        if tname in mentioned:
            mentioned |= {x.id for x in ast.walk(tval) if isinstance(x, ast.Name)} | {x.attr for x in ast.walk(tval) if isinstance(x, ast.Attribute)}
    sep_funcs = [sep] + [par.methods[m] for m in sorted(mentioned) if m in par.methods and m.startswith("_") and par.methods[m] is not sep]
    closers = set()
    for sf in sep_funcs:
        for c in walk_local(sf.node):
            if isinstance(c, ast.Compare) and len(c.ops) == 1 and isinstance(c.ops[0], ast.Eq) and isinstance(c.comparators[0], ast.Constant) \
                    and isinstance(c.comparators[0].value, str) and len(c.comparators[0].value) == 1 and not c.comparators[0].value.isalnum():
                left = norm(c.left)
                if isinstance(c.left, ast.Subscript) and isinstance(c.left.value, ast.Name):
                    d = reaching_assign(c, c.left.value.id)
                    if d is not None and d.value is not None:
                        left = "%s%s" % (norm(d.value), left[len(c.left.value.id):])
                if left.endswith("[-1][-1]"):
                    closers.add(c.comparators[0].value)
    if not idd or not nmd or len(rd) != 2:
        raise AnalysisError("B3: cannot extract the bus-bit delimiters (writer %s/%s, reader %s)" % (idd, nmd, rd))
    if idd[:2] == [rd["id"], rd["id"]] or (len(idd) == 2 and idd[0] == rd["id"] and idd[1] == rd["id"]):
        R.ok("B3", "identifier suffix %s<i>%s split on %r" % (idd[0], idd[1], rd["id"]), wname.loc())
    else:
        R.bad("B3", "identifier-delimiters|%s" % "".join(idd), wname.loc(), "the writer builds per-bit identifiers as id%s<i>%s but the reader splits them on %r: the bits are not re-assembled into one cable" % (idd[0], idd[-1], rd["id"]))
    if len(nmd) == 2 and nmd[0] == rd["name"] and nmd[1] in closers:
        R.ok("B3", "name suffix %s<i>%s split on %r / closed by %r" % (nmd[0], nmd[1], rd["name"], nmd[1]), wname.loc())
    else:
        R.bad("B3", "name-delimiters|%s" % "".join(nmd), wname.loc(), "the writer builds per-bit names as name%s<i>%s but the reader expects %s<i>%s" % (nmd[0], nmd[-1], rd["name"], "/".join(sorted(closers))))


    # the base name is what precedes the LAST opening delimiter: the name part is free text and may contain the delimiter itself
    # (`mem[0]` written bit by bit as `mem[0][1]`); a cut at the first occurrence loses part of the name and merges different cables
    firsts = []
    for sf in sep_funcs:
        for c in walk_local(sf.node):
            if isinstance(c, ast.Call) and isinstance(c.func, ast.Attribute) and c.func.attr in ("index", "find", "partition") and c.args \
                    and (norm(c.args[0]) in sf.params or (isinstance(c.args[0], ast.Constant) and c.args[0].value == rd.get("name"))):
                firsts.append((sf, c))
            if isinstance(c, ast.Subscript) and isinstance(c.value, ast.Call) and isinstance(c.value.func, ast.Attribute) and c.value.func.attr == "split" \
                    and isinstance(c.slice, ast.Constant) and c.slice.value == 0 and c.value.args and norm(c.value.args[0]) in sf.params:
                firsts.append((sf, c))
    for sf, c in firsts:
        used_for_name = any(isinstance(p_, (ast.Assign, ast.Return)) for p_ in parent_chain(c))
        if used_for_name:
            R.bad("B3", "%s|first delimiter" % sf.key, sf.loc(c),
                  "%s cuts the base name at the FIRST `%s` (`%s`): a bus whose own name contains the delimiter (`mem[0]`, bits `mem[0][1]`) comes back under "
                  "a shorter name and the bits of different buses are merged into one cable" % (sf.qualname, rd.get("name", "["), short(c, 50)))
    if not firsts:
        R.ok("B3", "the base name of a bit is cut at the last delimiter", sep.loc())


def _member_indices(ctx, R):
    """(member <port> i): the reader takes i as a position in the port's pin list (parse_member -> pins[i]); what the writer puts
    there must therefore be a position — an expression with a base-index term (`+ port.lower_index`) is a bit number, not a position"""
    from ..inline import inlined_view
    P = ctx.P
    cls = P.cls(COMP, "ComposeEdif")
    n = 0
    for mname, f0 in sorted(cls.methods.items()):
        f = inlined_view(P, f0)
        body = list(walk_local(f.node))
        members = [c for c in body if isinstance(c, ast.Call) and norm(c.func).endswith(".write") and c.args and isinstance(c.args[0], ast.Constant)
                   and isinstance(c.args[0].value, str) and c.args[0].value.strip() == "member"]
        if not members:
            continue
        # integer texts written in the same function: str(<expr>) arguments of write calls
        for c in body:
            if not (isinstance(c, ast.Call) and norm(c.func).endswith(".write") and c.args):
                continue
            for s_ in ast.walk(c.args[0]):
                if isinstance(s_, ast.Call) and norm(s_.func) == "str" and s_.args:
                    e = s_.args[0]
                    txt = norm(e)
                    # through one local
                    if isinstance(e, ast.Name):
                        d = [a for a in body if isinstance(a, ast.Assign) and len(a.targets) == 1 and norm(a.targets[0]) == e.id]
                        txt = " ; ".join(norm(a.value) for a in d) or txt
                    n += 1
                    # `<list>.index(pin)` is the position in <list>: that list has to be the port's pin list itself, not a filtered copy
                    # (`connected = [p for p in port.pins if p.wire is not None]`: positions among the connected pins only)
                    filtered = None
                    for a_ in (a for a in body if isinstance(a, ast.Assign) and len(a.targets) == 1 and isinstance(e, ast.Name) and norm(a.targets[0]) == e.id):
                        v_ = a_.value
                        if isinstance(v_, ast.Call) and isinstance(v_.func, ast.Attribute) and v_.func.attr == "index" and isinstance(v_.func.value, ast.Name):
                            src_ = [b for b in body if isinstance(b, ast.Assign) and len(b.targets) == 1 and norm(b.targets[0]) == v_.func.value.id]
                            if any(isinstance(b.value, (ast.ListComp, ast.GeneratorExp)) and b.value.generators[0].ifs for b in src_) or \
                                    any(isinstance(b.value, ast.Call) and norm(b.value.func) in ("filter", "list") and b.value.args
                                        and isinstance(b.value.args[0], (ast.GeneratorExp, ast.ListComp)) and b.value.args[0].generators[0].ifs for b in src_):
                                filtered = v_
                    if filtered is not None:
                        R.bad("B4", "%s|member index in a filtered list" % f.key, f.loc(c),
                              "%s writes `%s` as a (member …) index, a position in a filtered copy of the pin list: with an unconnected bit below it the pin is "
                              "written under the number of another bit" % (f.qualname, short(filtered, 50)))
                    elif "lower_index" in txt:
                        R.bad("B4", "%s|member index offset" % f.key, f.loc(c),
                              "%s writes `%s` as a (member …) index: the reader uses that number as a position in the port's pin list, so for a port whose "
                              "lower_index is not 0 every pin reference lands on another bit (or outside the port)" % (f.qualname, txt[:80]))
                    else:
                        R.ok("B4", "%s: member index `%s` is a position" % (f.qualname, txt[:50]), f.loc(c))
    R.count("integers written next to (member …) (B4)", n)
    R.floor("integers written next to (member …) (B4)", 2)


def _position_counters(ctx, R, cls, rid, want_min):
    """B4: an index written into the file (member index, bit index) is a true position: the loop variable of
    range(len(seq)) / enumerate(seq), seq.index(x), or a counter advanced exactly once per iteration"""
    n = 0
    for f in cls.methods.values():
        for lp in walk_local(f.node):
            if not isinstance(lp, (ast.For, ast.While)):
                continue
            augs = [a for a in ast.walk(lp) if isinstance(a, ast.AugAssign) and isinstance(a.op, ast.Add) and isinstance(a.target, ast.Name)
                    and isinstance(a.value, ast.Constant) and a.value.value == 1]
            for a in augs:
                v = a.target.id
                # is the counter used as an emitted / returned position?
                used = any((isinstance(c, ast.Call) and norm(c.func) == "str" and c.args and norm(c.args[0]) == v) or
                           (isinstance(c, ast.Return) and c.value is not None and v in norm(c.value)) or
                           (isinstance(c, ast.Assign) and norm(c.value) == v)
                           for c in walk_local(f.node))
                if not used:
                    continue
                n += 1
                body = lp.body
                direct = a in body
                idx = body.index(a) if direct else -1
                early = False
                if direct:
                    for st in body[:idx]:
                        for x in ast.walk(st):
                            if isinstance(x, ast.Continue):
                                early = True
                if direct and not early:
                    R.ok(rid, "%s: counter %s advances once per iteration" % (f.qualname, v), f.loc(a))
                else:
                    R.bad(rid, "%s|counter %s" % (f.key, v), f.loc(a),
                          "%s: the position counter `%s` is %s, so the index written to the file is not the element's position in its bundle (bits end up joined to the wrong pins on read-back)"
                          % (f.qualname, v, "advanced only under a condition" if not direct else "skipped by an earlier `continue`"))
    return n


_orig_check_c03 = check_c03


@register("C03",
          "Static analysis of the EDIF writer against the EDIF reader (narrow claim: the file written is always accepted; equality of the re-read "
          "netlist is a runtime property and is not decided): B1 abstract execution of every _output_* method over a keyword stack — each method "
          "leaves the parenthesis depth where it found it on every path and closes only what it opened (the index-search loop idiom runs its "
          "body once); B2 the parent->child construct relation the writer can emit is included, case-insensitively, in the relation the reader "
          "has cases for (extracted from expect/construct_is/parse_construct), and every direction / cell-type / view-type word written is one "
          "the reader dispatches on; B3 the delimiters used to build per-bit net identifiers and names equal the ones the reader splits on; "
          "B4 every hand-maintained position counter whose value is written (member index, bit index) advances exactly once per element, and the integer written inside (member <port> i) is a position in the port's pin list (no base-index term); "
          "B5 the reader consumes (pop) every scratch key it parks in the element under construction, so a name read for one construct is never handed to the next; B6 cells and libraries are written after what they depend on: the depth-first dependency sort (recognised by shape, as a loop or as a generator) pushes a dependency unless it was already written, marks a node written only where it emits it, and emits every node it pops.")
def check_c03_all(ctx, R):
    _orig_check_c03(ctx, R)
    R.rule("B4", "emitted positions are true positions")
    n = _position_counters(ctx, R, ctx.P.cls(COMP, "ComposeEdif"), "B4", 1)
    R.count("hand-maintained position counters (B4)", n)
    _member_indices(ctx, R)
    # a hand-maintained counter may legitimately be replaced by enumerate(); the recogniser itself is exercised on a built-in example
    from ..core import Module
    probe = Module("probe/counter.py", "class C:\n    def w(self, xs, out):\n        i = 0\n        for x in xs:\n            if x is None:\n                continue\n            out.write(str(i))\n            i += 1\n")
    class _Sink:
        n_bad = 0

        def rule(self, *a, **k):
            pass

        def ok(self, *a, **k):
            pass

        def bad(self, *a, **k):
            self.n_bad += 1
    sink = _Sink()
    if _position_counters(ctx, sink, probe.classes["C"], "B4", 0) != 1 or sink.n_bad != 1:
        raise AnalysisError("B4 positive example no longer matches")
    # B5: the reader parks names it has just read (identifier, original identifier, the names inside a reference) under scratch keys
    # of the element under construction; whoever picks one up removes it.  A read that leaves it in place hands the same name to
    # the next construct (a later property inherits a rename it never had) or leaves it in the element's data.
    R.rule("B5", "scratch keys of the element under construction are consumed (pop), never copied")
    par = ctx.P.cls("spydrnet/parsers/edif/parser.py", "EdifParser")
    k = 0

    def is_element_slot(e):
        return isinstance(e, ast.Subscript) and norm(e.value) == "self.elements" and isinstance(e.slice, ast.UnaryOp)

    for mname, f in sorted(par.methods.items()):
        for c in walk_local(f.node):
            if isinstance(c, ast.Call) and isinstance(c.func, ast.Attribute) and is_element_slot(c.func.value) and c.func.attr in ("pop", "get", "setdefault"):
                k += 1
                if c.func.attr == "pop":
                    R.ok("B5", "%s consumes %s" % (f.qualname, short(c.args[0], 50) if c.args else "?"), f.loc(c))
                else:
                    R.bad("B5", "%s|%s %s" % (f.key, c.func.attr, short(c.args[0], 40) if c.args else ""), f.loc(c),
                          "%s reads the scratch key `%s` of the element under construction with .%s(): the entry stays behind, so the next construct "
                          "parsed into the same element picks the stale name up again (properties after a renamed one inherit its original name)"
                          % (f.qualname, short(c.args[0], 50) if c.args else "?", c.func.attr))
            elif isinstance(c, ast.Subscript) and isinstance(c.ctx, ast.Load) and is_element_slot(c.value) \
                    and not (isinstance(c.slice, ast.Constant) and c.slice.value == "metadata_prefix"):
                k += 1
                R.bad("B5", "%s|subscript %s" % (f.key, short(c.slice, 40)), f.loc(c),
                      "%s reads the scratch key `%s` of the element under construction without removing it" % (f.qualname, short(c.slice, 50)))
    R.count("scratch-key reads in the EDIF reader (B5)", k)
    R.floor("scratch-key reads in the EDIF reader (B5)", 6)
    # B4b: a position found by searching (`for x in range(len(S)): if S[x] == target: break`, then x is written) is the position of
    # the element itself — the test that stops the search compares the element, not something the element shares with others
    nb = 0
    for mname, f in sorted(ctx.P.cls(COMP, "ComposeEdif").methods.items()):
        for lp in walk_local(f.node):
            if not isinstance(lp, ast.For):
                continue
            if isinstance(lp.iter, ast.Call) and norm(lp.iter.func) == "range" and lp.iter.args and isinstance(lp.iter.args[-1], ast.Call) \
                    and norm(lp.iter.args[-1].func) == "len" and isinstance(lp.target, ast.Name):
                seq, idx = norm(lp.iter.args[-1].args[0]), lp.target.id
                elem = "%s[%s]" % (seq, idx)
            elif isinstance(lp.iter, ast.Call) and norm(lp.iter.func) == "enumerate" and isinstance(lp.target, ast.Tuple) and len(lp.target.elts) == 2 \
                    and isinstance(lp.target.elts[0], ast.Name):
                idx, elem = lp.target.elts[0].id, norm(lp.target.elts[1])
            else:
                continue
            brk = [(i_, b) for i_ in ast.walk(lp) if isinstance(i_, ast.If) for b in i_.body if isinstance(b, ast.Break)]
            par = getattr(lp, "_parent", None)
            blk = next((getattr(par, fld) for fld in ("body", "orelse") if lp in getattr(par, fld, [])), None)
            used_after = blk is not None and any(isinstance(x, ast.Name) and x.id == idx and isinstance(x.ctx, ast.Load)
                                                  for st in blk[blk.index(lp) + 1:] for x in ast.walk(st))
            if not brk or not used_after:
                continue
            nb += 1
            i_ = brk[0][0]
            t = i_.test
            ok = isinstance(t, ast.Compare) and len(t.ops) == 1 and isinstance(t.ops[0], (ast.Eq, ast.Is)) and elem in (norm(t.left), norm(t.comparators[0]))
            if ok:
                R.ok("B4", "%s: the search for `%s` stops at the element itself" % (f.qualname, elem), f.loc(i_))
            else:
                R.bad("B4", "%s|search %s" % (f.key, elem), f.loc(i_),
                      "%s searches the position of an element but stops on `%s`, which does not compare the element `%s` itself: several elements can "
                      "satisfy it (bits sharing a net), so the index written is that of the first of them" % (f.qualname, short(t, 60), elem))
    R.count("position searches whose index is written (B4)", nb)
    R.rule("B6", "dependency order: the depth-first sort emits a cell / library only after everything it depends on")
    n6, _T = check_dependency_order(ctx, R, "B6")
    R.count("dependency-sort obligations (B6)", n6)
    R.floor("dependency-sort obligations (B6)", 3)


# ---------------------------------------------------------------------------------------------- dependency order
def toposort_template(P):
    """the iterative depth-first dependency sort of the EDIF writer, recognised by shape: a function (possibly nested) whose
    `while <stack>` loop peeks `x = <stack>[-1]`, pushes dependencies and pops / emits when nothing was pushed.
    Returns dict(method, worker, loop, stack, cur, pushes=[(call, child var, guard If or None)], vis_adds, emits, pop_if, driver)"""
    cc = P.cls(COMP, "ComposeEdif")
    from ..inline import guards_structured_view
    for mname, f in sorted(cc.methods.items()):
        f = guards_structured_view(f)  # `if top changed: continue` before the pop reads as the pop under `if top unchanged:`
        for fn in [n for n in ast.walk(f.node) if isinstance(n, ast.FunctionDef)]:
            for w in [n for n in ast.walk(fn) if isinstance(n, ast.While)]:
                peek = [a for a in w.body if isinstance(a, ast.Assign) and isinstance(a.value, ast.Subscript) and isinstance(a.value.value, ast.Name)
                        and isinstance(a.value.slice, ast.UnaryOp) and isinstance(a.targets[0], ast.Name)]
                if not peek or peek[0].value.value.id not in norm(w.test):
                    continue
                stack, cur = peek[0].value.value.id, peek[0].targets[0].id
                pushes = []
                for c in ast.walk(w):
                    if isinstance(c, ast.Call) and isinstance(c.func, ast.Attribute) and c.func.attr == "append" and norm(c.func.value) == stack and c.args:
                        g = next((p_ for p_ in parent_chain(c) if isinstance(p_, ast.If)), None)
                        if g is not None and not any(g is x for x in ast.walk(w)):
                            g = None
                        pushes.append((c, norm(c.args[0]), g))
                pop_if = [s_ for s_ in w.body if isinstance(s_, ast.If) and any(isinstance(c, ast.Call) and isinstance(c.func, ast.Attribute) and c.func.attr == "pop"
                                                                               and norm(c.func.value) == stack for c in ast.walk(s_))]
                if not pushes or not pop_if:
                    continue
                emits = [c for c in ast.walk(pop_if[0]) if isinstance(c, ast.Call) and isinstance(c.func, ast.Attribute) and c.func.attr == "append"
                         and norm(c.func.value) != stack and c.args and norm(c.args[0]) == cur]
                # a sort written as a generator emits by yielding the node
                emits += [y for y in ast.walk(pop_if[0]) if isinstance(y, ast.Yield) and y.value is not None and norm(y.value) == cur]
                vis = None
                for c, child, g in pushes:
                    if g is not None:
                        for t in ast.walk(g.test):
                            if isinstance(t, ast.Compare) and len(t.ops) == 1 and isinstance(t.ops[0], ast.NotIn) and norm(t.left) == child:
                                vis = vis or norm(t.comparators[0])
                adds = [c for c in ast.walk(f.node) if isinstance(c, ast.Call) and isinstance(c.func, ast.Attribute) and c.func.attr == "add"
                        and vis is not None and norm(c.func.value) == vis]
                driver = [lp for lp in ast.walk(f.node) if isinstance(lp, ast.For) and not any(lp is x for x in ast.walk(fn))
                          and any(isinstance(c, ast.Call) and isinstance(c.func, ast.Name) and c.func.id == fn.name for c in ast.walk(lp))]
                return dict(method=f, worker=fn, loop=w, stack=stack, cur=cur, pushes=pushes, vis=vis, vis_adds=adds, emits=emits, pop_if=pop_if[0], driver=driver)
    return None


def check_dependency_order(ctx, R, rid):
    """cells and libraries are written after what they depend on (the reader resolves cellRef / libraryRef against what it has
    already read): the depth-first sort emits a node only after its dependencies"""
    from ..pairing import alts_of
    T = toposort_template(ctx.P)
    if T is None:
        raise AnalysisError("anchor vanished: the iterative depth-first dependency sort of the EDIF writer (shape not recognised)")
    f = T["method"]
    stack, cur, vis = T["stack"], T["cur"], T["vis"]
    n = 0
    # (a) a dependency is pushed unless it was already emitted — and for no other reason
    for c, child, g in T["pushes"]:
        n += 1
        if g is None or vis is None:
            R.bad(rid, "%s|push unguarded" % f.key, f.loc(c), "%s pushes `%s` without testing whether it was already written" % (f.qualname, child))
            continue
        skips = [alt for alt in alts_of(g.test, False) if ("in(%s,%s)" % (child, vis)) not in alt]
        if skips:
            R.bad(rid, "%s|push guard" % f.key, f.loc(g),
                  "%s skips pushing the dependency `%s` for a reason other than `%s in %s` (guard `%s`): a cell that is still waiting on the stack is not "
                  "moved above its user, so the user is written first and the reader finds a reference to a cell it has not seen"
                  % (f.qualname, child, child, vis, short(g.test, 60)))
        else:
            R.ok(rid, "%s: a dependency is pushed unless it was already written" % f.qualname, f.loc(g))
    # (b) `written` means written: the set is extended only where the node is emitted
    emit_blocks = []
    for e in T["emits"]:
        blk = next((p_ for p_ in parent_chain(e) if isinstance(p_, (ast.If, ast.While, ast.For, ast.FunctionDef))), None)
        emit_blocks.append(blk)
    for a in T["vis_adds"]:
        n += 1
        blk = next((p_ for p_ in parent_chain(a) if isinstance(p_, (ast.If, ast.While, ast.For, ast.FunctionDef))), None)
        same = any(blk is b for b in emit_blocks) and a.args and norm(a.args[0]) == cur
        if same:
            R.ok(rid, "%s: `%s.add` happens where the node is emitted" % (f.qualname, vis), f.loc(a))
        else:
            R.bad(rid, "%s|marked early" % f.key, f.loc(a),
                  "%s marks `%s` as done (`%s`) at a point where it is not emitted: a node that is only waiting on the stack counts as written, so "
                  "a second user that depends on it does not push it and is emitted before it" % (f.qualname, norm(a.args[0]) if a.args else "?", short(a, 40)))
    if not T["vis_adds"]:
        n += 1
        R.bad(rid, "%s|never marked" % f.key, f.loc(), "%s never records what it has emitted" % f.qualname)
    # (c) emission happens only when nothing was pushed for the node, once
    n += 1
    t = T["pop_if"].test
    peek_eq = isinstance(t, ast.Compare) and len(t.ops) == 1 and isinstance(t.ops[0], (ast.Eq, ast.Is)) and {norm(t.left), norm(t.comparators[0])} == {"%s[-1]" % stack, cur}
    if not T["emits"]:
        R.bad(rid, "%s|no emission" % f.key, f.loc(T["pop_if"]), "%s pops a node without emitting it" % f.qualname)
    elif not peek_eq:
        R.bad(rid, "%s|emit condition" % f.key, f.loc(T["pop_if"]),
              "%s emits the node under `%s`, not when it is still on top of the stack (i.e. when none of its dependencies had to be pushed)" % (f.qualname, short(t, 50)))
    else:
        e = T["emits"][0]
        guards = [p_ for p_ in parent_chain(e) if isinstance(p_, ast.If) and p_ is not T["pop_if"] and any(p_ is x for x in ast.walk(T["pop_if"]))]
        once = any(("notin(%s,%s)" % (cur, vis)) in alt for g in guards for alt in alts_of(g.test, True)) if vis else False
        if once or not vis:
            R.ok(rid, "%s emits a node when none of its dependencies is pending, and once" % f.qualname, f.loc(e))
        else:
            R.bad(rid, "%s|emit once" % f.key, f.loc(e), "%s can emit a node twice (no `%s not in %s` test at the emission): the cell is written twice" % (f.qualname, cur, vis))
    # (d) roots are taken one at a time, in the order given: the stack starts as `[root]` for each root of a loop over the input.  Seeded
    # with the whole input, the last root is popped first and mutually independent cells come out reversed — a valid order, but one that
    # changes with every pass over an already sorted list
    n += 1
    worker = T["worker"]
    inits = [a for a in ast.walk(f.node) if isinstance(a, ast.Assign) and len(a.targets) == 1 and norm(a.targets[0]) == stack]
    seeds = [a.value for a in inits]
    for g_ in [x for x in ast.walk(f.node) if isinstance(x, ast.FunctionDef) and x is not f.node]:
        if stack in [x.arg for x in g_.args.args]:
            k = [x.arg for x in g_.args.args].index(stack)
            seeds += [c.args[k] for c in ast.walk(f.node) if isinstance(c, ast.Call) and isinstance(c.func, ast.Name) and c.func.id == g_.name and len(c.args) > k]
    one_root = [v for v in seeds if isinstance(v, ast.List) and len(v.elts) == 1 and not isinstance(v.elts[0], ast.Starred)]
    if seeds and len(one_root) == len(seeds):
        R.ok(rid, "%s starts the stack with one root at a time" % f.qualname, f.loc(inits[0]) if inits else f.loc())
    elif seeds:
        bad_ = next(v for v in seeds if v not in one_root)
        R.bad(rid, "%s|stack seeded with many roots" % f.key, f.loc(bad_),
              "%s starts its stack as `%s` instead of one root at a time: the last root is handled first, so cells that do not depend on each other are "
              "emitted in reverse input order — every pass over an already ordered list reorders it again (two successive writes differ)" % (f.qualname, short(bad_, 40)))
    else:
        R.bad(rid, "%s|stack never seeded" % f.key, f.loc(), "%s: cannot find where the stack `%s` gets its first element" % (f.qualname, stack))
    return n, T
