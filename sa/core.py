"""Loader / program model for the static checks.

Pure stdlib.  Parses /repo's *current working tree* on every run (or an in-memory
overlay of it, used by the self-test tier: {relative path: source text}); nothing
from spydrnet is imported or executed.
"""
import ast
import itertools
import re
import hashlib
import os
import sys

REPO = os.environ.get("VERIF_REPO", "/repo")


class AnalysisError(Exception):
    """The analysis cannot decide (vanished anchor, unsupported construct,
    instance count below floor).  Never a violation, never a silent pass:
    the driver prints ANALYSIS-ERROR and exits 2."""


def norm(node):
    """Normalised source text of a node (used for keys; never line numbers)."""
    if node is None:
        return "None"
    if isinstance(node, str):
        return node
    try:
        return ast.unparse(node).strip()
    except Exception:  # pragma: no cover
        return ast.dump(node)


def short(node, n=110):
    s = " ".join(norm(node).split())
    return s if len(s) <= n else s[: n - 3] + "..."


class FuncInfo:
    __slots__ = ("name", "qualname", "module", "cls", "node", "role", "prop", "inlined_helpers")

    def __init__(self, name, qualname, module, cls, node, role="function", prop=None):
        self.inlined_helpers = []
        self.name = name
        self.qualname = qualname  # e.g. Wire.connect_pin / Instance.reference.setter
        self.module = module
        self.cls = cls
        self.node = node
        self.role = role  # function | method | getter | setter | deleter | static
        self.prop = prop

    @property
    def key(self):
        return self.module.relpath + ":" + self.qualname

    @property
    def params(self):
        a = self.node.args
        return [x.arg for x in a.posonlyargs + a.args]

    def loc(self, node=None):
        n = node if node is not None else self.node
        return "%s:%s" % (self.module.relpath, getattr(n, "lineno", "?"))

    def __repr__(self):
        return "<Func %s>" % self.key


class ClassInfo:
    def __init__(self, name, module, node, outer=None):
        self.name = name
        self.module = module
        self.node = node
        self.outer = outer
        self.base_names = [norm(b) for b in node.bases]
        self.methods = {}  # name -> FuncInfo (plain methods, static too)
        self.props = {}  # name -> {"getter": FuncInfo, "setter":..., "deleter":...}
        self.slots = None
        self.class_assigns = {}  # name -> value node
        self.inner = {}

    @property
    def key(self):
        return self.module.relpath + ":" + self.name

    def all_funcs(self):
        for f in self.methods.values():
            yield f
        for p in self.props.values():
            for f in p.values():
                yield f


class Module:
    def __init__(self, relpath, src):
        self.relpath = relpath
        self.src = src
        self.sha256 = hashlib.sha256(src.encode("utf-8")).hexdigest()
        try:
            self.tree = ast.parse(src, filename=relpath)
        except SyntaxError as e:
            raise AnalysisError("cannot parse %s: %s" % (relpath, e))
        from .normalise import normalise
        self.tree = normalise(self.tree)
        for parent in ast.walk(self.tree):
            for child in ast.iter_child_nodes(parent):
                child._parent = parent
        self.tree._parent = None
        self.modname = relpath[:-3].replace("/", ".")
        if self.modname.endswith(".__init__"):
            self.modname = self.modname[: -len(".__init__")]
        self.classes = {}
        self.functions = {}
        self.imports = {}  # local name -> dotted target
        self.assigns = {}  # module-level simple assignments name -> value node
        self._index()

    def _index(self):
        for st in self.tree.body:
            self._index_stmt(st)

    def _index_stmt(self, st):
        if isinstance(st, (ast.FunctionDef, ast.AsyncFunctionDef)):
            self.functions[st.name] = FuncInfo(st.name, st.name, self, None, st)
        elif isinstance(st, ast.ClassDef):
            self.classes[st.name] = self._index_class(st, None)
        elif isinstance(st, ast.Import):
            for a in st.names:
                self.imports[a.asname or a.name.split(".")[0]] = a.name if a.asname else a.name.split(".")[0]
        elif isinstance(st, ast.ImportFrom):
            base = st.module or ""
            if st.level:
                pk = self.modname.split(".")
                if not self.relpath.endswith("__init__.py"):
                    pk = pk[:-1]
                pk = pk[: len(pk) - (st.level - 1)]
                base = ".".join(pk + ([st.module] if st.module else []))
            for a in st.names:
                self.imports[a.asname or a.name] = base + "." + a.name
        elif isinstance(st, ast.Assign):
            for t in st.targets:
                if isinstance(t, ast.Name):
                    self.assigns[t.id] = st.value
        elif isinstance(st, (ast.If, ast.Try)):
            for sub in ast.iter_child_nodes(st):
                if isinstance(sub, ast.stmt):
                    self._index_stmt(sub)

    def _index_class(self, node, outer):
        ci = ClassInfo(node.name, self, node, outer)
        prefix = (outer.name + "." if outer else "") + node.name
        for st in node.body:
            if isinstance(st, (ast.FunctionDef, ast.AsyncFunctionDef)):
                role, prop = "method", None
                for d in st.decorator_list:
                    ds = norm(d)
                    if ds == "property":
                        role, prop = "getter", st.name
                    elif ds.endswith(".setter"):
                        role, prop = "setter", ds[: -len(".setter")]
                    elif ds.endswith(".deleter"):
                        role, prop = "deleter", ds[: -len(".deleter")]
                    elif ds in ("staticmethod", "classmethod"):
                        role = "static" if ds == "staticmethod" else "classmethod"
                if prop is not None:
                    qn = "%s.%s.%s" % (prefix, prop, role)
                    fi = FuncInfo(st.name, qn, self, ci, st, role, prop)
                    ci.props.setdefault(prop, {})[role] = fi
                else:
                    fi = FuncInfo(st.name, "%s.%s" % (prefix, st.name), self, ci, st, role)
                    ci.methods[st.name] = fi
            elif isinstance(st, ast.Assign):
                for t in st.targets:
                    if isinstance(t, ast.Name):
                        ci.class_assigns[t.id] = st.value
                        if t.id == "__slots__":
                            try:
                                v = ast.literal_eval(st.value)
                                ci.slots = [v] if isinstance(v, str) else list(v)
                            except Exception:
                                if norm(st.value) == "tuple()":
                                    ci.slots = []
            elif isinstance(st, ast.ClassDef):
                ci.inner[st.name] = self._index_class(st, ci)
        return ci

    def all_funcs(self):
        for f in self.functions.values():
            yield f
        for c in self.classes.values():
            for f in c.all_funcs():
                yield f
            for ic in c.inner.values():
                for f in ic.all_funcs():
                    yield f


IR_MODULE_OF = {}  # filled from RegisterModule on load


_PROPERTY_NAMES = set()
_AMBIGUOUS_CONSTANTS = set()


class Program:
    """All non-test python modules of spydrnet/ and spydrnet_extension/."""

    ROOTS = ("spydrnet", "spydrnet_extension")

    _serials = itertools.count(1)

    def __init__(self, repo=None, overlay=None):
        # (caches of derived views are keyed by this serial number, never by id(): the self-test builds many programs in one process
        # and a freed program's address is handed out again)
        self.serial = next(Program._serials)
        self.repo = repo or REPO
        self.overlay = dict(overlay or {})
        self.modules = {}
        self._load()
        self._ir_registry()
        self._splice_eager_generators()

    def _load(self):
        seen = set()
        self._prescan_helpers()
        self._drop_ambiguous_constants()
        self._finish_method_names()
        for root in self.ROOTS:
            top = os.path.join(self.repo, root)
            if not os.path.isdir(top):
                if root == "spydrnet":
                    raise AnalysisError("no %s under %s" % (root, self.repo))
                continue
            for dp, dns, fns in os.walk(top):
                dns[:] = sorted(d for d in dns if d not in ("tests", "__pycache__", "support_files"))
                for fn in sorted(fns):
                    if not fn.endswith(".py"):
                        continue
                    rel = os.path.relpath(os.path.join(dp, fn), self.repo)
                    seen.add(rel)
                    if rel in self.overlay:
                        src = self.overlay[rel]
                    else:
                        with open(os.path.join(dp, fn), encoding="utf-8") as fh:
                            src = fh.read()
                    self.modules[rel] = Module(rel, src)
        for rel, src in self.overlay.items():
            if rel not in seen:
                self.modules[rel] = Module(rel, src)

    def _drop_ambiguous_constants(self):
        from .normalise import GLOBAL_CONSTANTS
        for k_ in _AMBIGUOUS_CONSTANTS:
            GLOBAL_CONSTANTS.pop(k_, None)

    def _prescan_helpers(self):
        """assert-like helpers (`_require(cond, msg)`) are recognised before any module is normalised, so that a module which imports
        one from a sibling that happens to be loaded later reads its calls as asserts too"""
        from .normalise import _require_helpers, GLOBAL_HELPERS
        for root in self.ROOTS:
            top = os.path.join(self.repo, root)
            if not os.path.isdir(top):
                continue
            for dp, dns, fns in os.walk(top):
                dns[:] = sorted(d for d in dns if d not in ("tests", "__pycache__", "support_files"))
                for fn in sorted(fns):
                    if not fn.endswith(".py"):
                        continue
                    rel = os.path.relpath(os.path.join(dp, fn), self.repo)
                    if rel in self.overlay:
                        src = self.overlay[rel]
                    else:
                        with open(os.path.join(dp, fn), encoding="utf-8") as fh:
                            src = fh.read()
                    # names of plain functions / methods anywhere in the program (bound methods are stable values, fields are not)
                    from .unroll import METHOD_NAMES
                    for m_ in re.finditer(r"^(\s*)def (\w+)\(", src, re.M):
                        METHOD_NAMES.add(m_.group(2))
                    # module-level operator helpers (`_lower = methodcaller("lower")`) are functions by another spelling
                    for m_ in re.finditer(r"^(\w+) = (?:operator\.)?(?:attrgetter|itemgetter|methodcaller)\(", src, re.M):
                        METHOD_NAMES.add(m_.group(1))
                    for m_ in re.finditer(r"@(?:property|\w+\.setter|\w+\.deleter)\s*\n\s*def (\w+)\(", src):
                        METHOD_NAMES.discard(m_.group(1))
                        _PROPERTY_NAMES.add(m_.group(1))
                    # module-level constants of the whole program (a sibling module may import them)
                    if re.search(r"^(_\w+|[A-Z][A-Z0-9_]*) = ", src, re.M):
                        try:
                            from .normalise import _module_constants, GLOBAL_CONSTANTS
                            for k_, v_ in _module_constants(ast.parse(src)).items():
                                if k_ in GLOBAL_CONSTANTS and ast.dump(GLOBAL_CONSTANTS[k_]) != ast.dump(v_):
                                    _AMBIGUOUS_CONSTANTS.add(k_)
                                GLOBAL_CONSTANTS[k_] = v_
                        except SyntaxError:
                            pass
                    has_helper = "AssertionError" in src
                    has_deco = "wrapper" in src or "wraps(" in src or "contextmanager" in src
                    if not (has_helper or has_deco):
                        continue
                    try:
                        t_ = ast.parse(src)
                        if has_helper:
                            GLOBAL_HELPERS.update(_require_helpers(t_))
                        if has_deco:
                            from .normalise import _guard_decorators, GLOBAL_DECORATORS
                            GLOBAL_DECORATORS.update(_guard_decorators(t_))
                        if "contextmanager" in src:
                            from .normalise import _context_helpers, GLOBAL_CONTEXTS
                            GLOBAL_CONTEXTS.update(_context_helpers(t_))
                    except SyntaxError:
                        pass

    def _finish_method_names(self):
        from .unroll import METHOD_NAMES
        METHOD_NAMES.difference_update(_PROPERTY_NAMES)

    def _splice_eager_generators(self):
        """`self._xs = list(self._surviving(excluded))`: a private generator helper consumed on the spot is spliced into its caller
        once, here, so that every rule sees the container being rebuilt in place (see inline.eager_generators_inlined)"""
        from .inline import eager_generators_inlined
        for m in self.modules.values():
            funcs = list(m.functions.values()) + [f for c in m.classes.values() for f in c.all_funcs()]
            for f in funcs:
                r = eager_generators_inlined(self, f)
                if r is None:
                    continue
                node, helpers = r
                old = f.node
                parent = getattr(old, "_parent", None)
                for fld in ("body", "orelse", "finalbody"):
                    lst = getattr(parent, fld, None)
                    if isinstance(lst, list) and old in lst:
                        lst[lst.index(old)] = node
                for par in ast.walk(node):
                    for child in ast.iter_child_nodes(par):
                        child._parent = par
                node._parent = parent
                f.node = node
                f.inlined_helpers = helpers

    # -- lookup helpers -----------------------------------------------------
    def module(self, relpath):
        m = self.modules.get(relpath)
        if m is None:
            raise AnalysisError("anchor vanished: module %s" % relpath)
        return m

    def cls(self, relpath, name):
        c = self.module(relpath).classes.get(name)
        if c is None:
            raise AnalysisError("anchor vanished: class %s in %s" % (name, relpath))
        return c

    def func(self, relpath, qualname):
        m = self.module(relpath)
        parts = qualname.split(".")
        if len(parts) == 1:
            f = m.functions.get(parts[0])
        else:
            c = m.classes.get(parts[0])
            f = None
            if c is not None:
                if len(parts) == 2:
                    f = c.methods.get(parts[1])
                elif len(parts) == 3:
                    f = c.props.get(parts[1], {}).get(parts[2])
        if f is None:
            raise AnalysisError("anchor vanished: function %s in %s" % (qualname, relpath))
        return f

    def digests(self, prefixes=None):
        out = {}
        for rel, m in sorted(self.modules.items()):
            if prefixes is None or any(rel.startswith(p) for p in prefixes):
                out[rel] = m.sha256[:16]
        return out

    # -- IR registry ----------------------------------------------------------
    def _ir_registry(self):
        """RegisterModule in spydrnet/ir/__init__.py says which module defines which
        IR class; `from spydrnet.ir import X` anywhere resolves through it."""
        init = self.module("spydrnet/ir/__init__.py")
        reg = init.assigns.get("RegisterModule")
        if reg is None:
            raise AnalysisError("anchor vanished: RegisterModule in spydrnet/ir/__init__.py")
        try:
            pairs = ast.literal_eval(reg)
        except Exception:
            raise AnalysisError("RegisterModule is no longer a literal table")
        self.ir_classes = {}
        for fname, cname in pairs:
            rel = "spydrnet/ir/%s.py" % fname
            self.ir_classes[cname] = self.cls(rel, cname)

    def ir_mro(self, cname):
        """Linearised bases of an IR class (single inheritance in this code base)."""
        out = []
        c = self.ir_classes.get(cname)
        while c is not None:
            out.append(c)
            nxt = None
            for b in c.base_names:
                if b in self.ir_classes:
                    nxt = self.ir_classes[b]
                    break
            c = nxt
        return out

    def ir_slots(self, cname):
        s = []
        for c in reversed(self.ir_mro(cname)):
            s.extend(c.slots or [])
        return s

    def ir_lookup_method(self, cname, mname):
        for c in self.ir_mro(cname):
            if mname in c.methods:
                return c.methods[mname]
        return None

    def ir_lookup_prop(self, cname, pname, role="getter"):
        for c in self.ir_mro(cname):
            if pname in c.props and role in c.props[pname]:
                return c.props[pname][role]
        return None

    def ir_subclasses(self, cname):
        return [n for n in self.ir_classes if any(c.name == cname for c in self.ir_mro(n))]


def parent_chain(node):
    n = getattr(node, "_parent", None)
    while n is not None:
        yield n
        n = getattr(n, "_parent", None)


def enclosing_function(node):
    for p in parent_chain(node):
        if isinstance(p, (ast.FunctionDef, ast.AsyncFunctionDef, ast.Lambda)):
            return p
    return None


def walk_local(node):
    """ast.walk that does not descend into nested function / class definitions
    (lambdas and comprehensions are descended: they run in place)."""
    todo = [node]
    first = True
    while todo:
        n = todo.pop()
        if not first and isinstance(n, (ast.FunctionDef, ast.AsyncFunctionDef, ast.ClassDef)):
            continue
        first = False
        yield n
        todo.extend(reversed(list(ast.iter_child_nodes(n))))


def stale_loop_uses(func_node):
    """uses of a for-loop's target variable after the loop has ended (the loop has no `break`, so the variable
    holds the LAST element, whatever was meant): [(name node, loop)].  A search loop (`break` inside) is not reported."""
    out = []
    for lp in walk_local(func_node):
        if not isinstance(lp, ast.For):
            continue
        if any(isinstance(x, ast.Break) for s in lp.body for x in ast.walk(s)):
            continue
        targets = {n.id for n in ast.walk(lp.target) if isinstance(n, ast.Name)}
        par = getattr(lp, "_parent", None)
        blk = None
        for b in ("body", "orelse", "finalbody"):
            if lp in getattr(par, b, []):
                blk = getattr(par, b)
        if blk is None:
            continue
        live = set(targets)
        for st in blk[blk.index(lp) + 1:]:
            # a later loop / assignment that rebinds the name ends the stale window for it
            for x in ast.walk(st):
                if isinstance(x, ast.Name) and x.id in live:
                    if isinstance(x.ctx, ast.Store):
                        live.discard(x.id)
                    elif isinstance(x.ctx, ast.Load):
                        # a comprehension's own variable of the same name is a different binding
                        own = False
                        q = getattr(x, "_parent", None)
                        while q is not None and q is not st:
                            if isinstance(q, (ast.ListComp, ast.SetComp, ast.GeneratorExp, ast.DictComp)) and any(
                                    isinstance(t, ast.Name) and t.id == x.id for g in q.generators for t in ast.walk(g.target)):
                                own = True
                            q = getattr(q, "_parent", None)
                        if own:
                            continue
                        # is it rebound earlier in this very statement (e.g. `for lib in ...: use(lib)`)?
                        rebound = any(isinstance(y, ast.Name) and y.id == x.id and isinstance(y.ctx, ast.Store)
                                      and (y.lineno, y.col_offset) < (x.lineno, x.col_offset) for y in ast.walk(st))
                        if not rebound:
                            out.append((x, lp))
            if not live:
                break
    return out


def reaching_assign(node, name, unpack=False):
    """the assignment to `name` that reaches `node` in straight-line code (nearest earlier sibling assignment in an enclosing block);
    None when there is none or the nearest candidate is conditional"""
    prev = node
    for p in parent_chain(node):
        for fld in ("body", "orelse", "finalbody"):
            lst_ = getattr(p, fld, None)
            if isinstance(lst_, list) and any(prev is s_ for s_ in lst_):
                i = [k for k, s_ in enumerate(lst_) if prev is s_][0]
                for s_ in reversed(lst_[:i]):
                    if isinstance(s_, ast.Assign) and any(isinstance(t, ast.Name) and t.id == name for t in s_.targets):
                        return s_
                    if unpack and isinstance(s_, ast.Assign) and len(s_.targets) == 1 and isinstance(s_.targets[0], ast.Tuple) \
                            and any(isinstance(t, ast.Name) and t.id == name for t in s_.targets[0].elts):
                        return s_
                    if any(isinstance(x, ast.Name) and x.id == name and isinstance(x.ctx, ast.Store) for x in ast.walk(s_)):
                        return None
        # the else clause of a try runs after the protected block ran to its end
        if isinstance(p, ast.Try) and any(prev is s_ for s_ in p.orelse):
            for s_ in reversed(p.body):
                if isinstance(s_, ast.Assign) and any(isinstance(t, ast.Name) and t.id == name for t in s_.targets):
                    return s_
                if any(isinstance(x, ast.Name) and x.id == name and isinstance(x.ctx, ast.Store) for x in ast.walk(s_)):
                    return None
        if isinstance(p, (ast.FunctionDef, ast.AsyncFunctionDef)):
            break
        prev = p
    return None


def copy_tree(n):
    """deep copy of an AST subtree that does not follow the `_parent` back links (which would drag the whole module along)"""
    if isinstance(n, ast.AST):
        new = n.__class__()
        for fld in n._fields:
            if hasattr(n, fld):
                setattr(new, fld, copy_tree(getattr(n, fld)))
        for a in ("lineno", "col_offset", "end_lineno", "end_col_offset"):
            if hasattr(n, a):
                setattr(new, a, getattr(n, a))
        return new
    if isinstance(n, list):
        return [copy_tree(x) for x in n]
    return n
